"""C03 tie (b): end to end.  Generated projects put hostile strings into every command position;
`meson setup` (fake ninja on PATH) writes build.ninja; the build statements are read back, each
command string is computed by the Lean model's `ninjaEval` (rule bindings + statement bindings +
$in/$out), executed by real /bin/sh with a dumper in place of the tool, and the recorded argv is
compared with the list the build definition gave, modulo the documented rewrites only.

The oracle is written from the property statement: it uses neither /repo's quoting functions nor
the model's.  Its only model dependency is the consumer specification `ninjaEval` (there is no
ninja binary) and, for response files, `buildargv` (cross-checked with real gcc where possible).
"""
from __future__ import annotations

import json
import os
import re
import subprocess
import sys
import typing as T
from concurrent.futures import ThreadPoolExecutor

from . import common
from .common import Ctx, enc, dec

FAKEBIN = os.path.join(common.VERIF, 'harness', 'fakebin')

DUMPER = r'''
import json, os, sys
argv = sys.argv[1:]
mvid = os.environ.get('MV_ID')
if mvid is None and argv and argv[0].startswith('mvid='):
    mvid = argv[0][5:]
    argv = argv[1:]
rec = {'argv': argv, 'env': {k: v for k, v in os.environ.items() if k.startswith('MV_E')}, 'cwd': os.getcwd()}
with open(os.path.join(os.environ['MV_DUMP'], mvid + '.jsonl'), 'a', encoding='utf-8', errors='surrogateescape') as f:
    f.write(json.dumps(rec) + '\n')
'''

WDUMPER = r'''
import json, os, sys, uuid
rec = {'argv': sys.argv[1:], 'env': {k: v for k, v in os.environ.items() if k.startswith('MV_E')}}
with open(os.path.join(os.environ['MV_DUMP'], 'w-' + uuid.uuid4().hex + '.json'), 'w', encoding='utf-8',
          errors='surrogateescape') as f:
    f.write(json.dumps(rec))
'''

CCWRAP = '''#!/bin/sh
# compiler stand-in: real cc while meson probes it, dumper when the harness executes a build statement
if [ -n "$MV_ID" ]; then exec "{py}" "{dump}" "$@"; fi
exec cc "$@"
'''

HOSTILE = ['a b', '$x', '${HOME}', '$(id)', '`id`', 'a;b', '*', '~', '#c', "it's", '"q"', '\\', 'a\\b', 'tail\\',
           '-DFOO="bar baz"', 'a&&b', '&', '|', '>', '<in', '$$', '$ ', ' lead', 'trail ', '\t', 'é', '中文', '€',
           '', "'", '"', "'\"'\"'", '$in', '$out', '${in}', 'a:b', 'a=b', '%s', '!x', '{a,b}', '[ab]', '?', '^',
           'x\x01y', 'x\x7fy', '\\n', '\\\\', "\\'", '@', '@@', 'a@b', '--capture', '--', '-h', '--unpickle=x']

# words that collide with the command line of `meson --internal exe` itself (argparse, abbreviations allowed)
OPTLIKE = ['--', '--capture', '--capture=zz', '--feed=x', '--feed=/dev/null', '--feed', '--unpickle=x', '--unpickle',
           '--cap', '--f', '--u', '-h', '--help', '--he', '--internal', '@file', '', '-', '-x', '-1', '-hh',
           '--foo=bar', '-DX=1']
HOSTILE += OPTLIKE


def msn(s: str) -> str:
    """meson single-quoted string literal"""
    out = []
    for c in s:
        o = ord(c)
        if c == '\\':
            out.append('\\\\')
        elif c == "'":
            out.append("\\'")
        elif 32 <= o < 127:
            out.append(c)
        elif o < 256:
            out.append('\\x%02x' % o)
        elif o < 0x10000:
            out.append('\\u%04x' % o)
        else:
            out.append('\\U%08x' % o)
    return "'" + ''.join(out) + "'"


def env_ops(entries) -> T.List[T.Tuple[str, T.Optional[T.List[str]], str, str]]:
    """site env entries: (name, value) = set; (name, value | [values…], op, separator) with op in set/append/prepend;
    (name, None, 'unset', '') = unset.  Normalised to (name, values, op, separator)."""
    out = []
    for e in entries:
        e = tuple(e)
        if len(e) == 2:
            out.append((e[0], [e[1]], 'set', ':'))
        elif e[2] == 'unset':
            out.append((e[0], None, 'unset', ''))
        else:
            out.append((e[0], list(e[1]) if isinstance(e[1], (list, tuple)) else [e[1]], e[2], e[3]))
    return out


def env_base(entries) -> T.Dict[str, str]:
    """values present in the environment of the process that executes the command (so that append/prepend/unset differ)"""
    return {k: 'base' for k, _v, op, _s in env_ops(entries) if op != 'set'}


def expected_env(entries, base: T.Dict[str, str]) -> T.Dict[str, str]:
    """documented semantics of environment(): set replaces, append/prepend join with the separator, several values of
    one operation are joined with that operation's separator, unset removes"""
    cur = dict(base)
    for k, vals, op, sep in env_ops(entries):
        if op == 'unset':
            cur.pop(k, None)
            continue
        v = sep.join(vals)
        if op == 'set' or k not in cur:
            cur[k] = v
        elif op == 'append':
            cur[k] = cur[k] + sep + v
        else:
            cur[k] = v + sep + cur[k]
    return cur


def envdef_lines(name: str, env) -> T.List[str]:
    L = [f'{name} = environment()']
    for k, vals, op, sep in env_ops(env):
        if op == 'unset':
            L.append(f'{name}.unset({msn(k)})')
            continue
        sepkw = '' if sep == ':' else f', separator: {msn(sep)}'
        L.append(f'{name}.{op}({msn(k)}, {", ".join(msn(v) for v in vals)}{sepkw})')
    return L


def msl(l: T.Iterable[str]) -> str:
    return '[' + ', '.join(msn(x) for x in l) + ']'


_PLACEHOLDERS: T.Optional[T.List[str]] = None
STATIC_PLACEHOLDERS = ['@INPUT@', '@OUTPUT@', '@INPUT0@', '@OUTPUT0@', '@OUTPUT1@', '@INPUT1@', '@OUTDIR@', '@PLAINNAME@',
                       '@BASENAME@', '@PLAINNAME0@', '@BASENAME0@', '@DEPFILE@', '@PRIVATE_DIR@', '@SOURCE_ROOT@',
                       '@BUILD_ROOT@', '@CURRENT_SOURCE_DIR@', '@BUILD_DIR@', '@SOURCE_DIR@', '@EXTRA_ARGS@', '@FOO@']


def placeholders() -> T.List[str]:
    """every @PLACEHOLDER@ literal that the command-rewriting functions of the current source mention (string
    constants, f-string and regex forms give the plain and the indexed spelling), plus a static list"""
    global _PLACEHOLDERS
    if _PLACEHOLDERS is not None:
        return _PLACEHOLDERS
    import inspect
    found = set(STATIC_PLACEHOLDERS)
    try:
        from mesonbuild.backend import backends as be, ninjabackend as nb
        from mesonbuild import build as bld
        from mesonbuild.utils import universal as U
        objs = [be.Backend.eval_custom_target_command, be.Backend.replace_extra_args, be.Backend.replace_outputs,
                nb.NinjaBackend.replace_paths, nb.NinjaBackend.generate_genlist_for_target, bld.Generator.get_arglist,
                bld.Generator.get_base_outnames, bld.Generator.get_dep_outname, U.substitute_values,
                U.get_filenames_templates_dict, U._substitute_values_check_errors]
        for o in objs:
            try:
                src = inspect.getsource(o)
            except (OSError, TypeError):
                continue
            for m in re.finditer(r'@([A-Z][A-Z_]*)([^@\s\'"]*)@', src):
                found.add(f'@{m.group(1)}@')
                if m.group(2):          # `{ii}`, `(\d+)`, `([0-9]+)?` …: the indexed spelling exists
                    found.add(f'@{m.group(1)}0@')
                    found.add(f'@{m.group(1)}1@')
    except Exception:       # noqa: BLE001 - harvesting is best effort, the static list remains
        pass
    _PLACEHOLDERS = sorted(found)
    return _PLACEHOLDERS


def _split_ph(p: str) -> T.Tuple[str, str]:
    m = re.fullmatch(r'@([A-Z_]+?)(\d*)@', p)
    return (m.group(1), m.group(2)) if m else (p, '')


def forbidden_ph(position: str, mode: str, source: str, p: str) -> bool:
    """placeholders whose use in this argument source is a documented *error* (or has no defined value for the
    projects generated here): they are not generated for that source"""
    name, idx = _split_ph(p)
    if source not in ('command', 'arguments'):
        return False
    if position == 'custom_target':
        has_input = mode in ('input', 'feed')
        if name in ('INPUT', 'PLAINNAME', 'BASENAME'):
            return (not has_input) or idx not in ('', '0') or (name == 'INPUT' and idx == '' and mode == 'feed')
        if name == 'OUTPUT':
            return idx not in ('', '0') or (idx == '' and 'capture' in mode)
        return name == 'DEPFILE'
    if position == 'run_target':
        return name in ('INPUT', 'OUTPUT', 'OUTDIR', 'PLAINNAME', 'BASENAME', 'DEPFILE', 'PRIVATE_DIR')
    if position == 'generator':
        return name == 'OUTPUT' and idx not in ('', '0')
    return False


def rules_for(position: str, mode: str, sid: str, source: str) -> T.Tuple[T.Dict[str, str], bool]:
    """per argument source: the placeholders documented to be substituted there (docs/yaml/functions/custom_target.yaml,
    generator.yaml, run_target.yaml) with their values in the generated project layout, and whether the established
    backslash -> '/' rewrite applies.  Everything else must arrive byte-identical."""
    if source == 'command' and position == 'custom_target':
        d = {'@OUTPUT@': sid + '.out', '@OUTPUT0@': sid + '.out', '@OUTDIR@': '.', '@SOURCE_ROOT@': '../src',
             '@BUILD_ROOT@': '.', '@CURRENT_SOURCE_DIR@': '../src/', '@PRIVATE_DIR@': sid + '.out.p'}
        if mode in ('input', 'feed'):
            d.update({'@INPUT@': '../src/feed.txt', '@INPUT0@': '../src/feed.txt', '@PLAINNAME@': 'feed.txt',
                      '@PLAINNAME0@': 'feed.txt', '@BASENAME@': 'feed', '@BASENAME0@': 'feed'})
        return d, True
    if source == 'command' and position == 'run_target':
        return {'@SOURCE_ROOT@': '../src', '@BUILD_ROOT@': '.', '@CURRENT_SOURCE_DIR@': '../src/'}, True
    if source == 'arguments' and position == 'generator':
        return {'@INPUT@': f'../src/{sid}.in', '@OUTPUT@': f'x{sid}.p/{sid}.h', '@OUTPUT0@': f'x{sid}.p/{sid}.h',
                '@PLAINNAME@': f'{sid}.in', '@BASENAME@': sid, '@BUILD_DIR@': f'x{sid}.p', '@SOURCE_DIR@': '../src',
                '@CURRENT_SOURCE_DIR@': '../src', '@SOURCE_ROOT@': '../src', '@BUILD_ROOT@': '.'}, True
    return {}, False


def ph_strings(position: str, mode: str, source: str) -> T.List[str]:
    """every harvested placeholder, alone and embedded between backslash / metacharacter text, allowed in this source"""
    out = []
    for p in placeholders():
        if forbidden_ph(position, mode, source, p):
            continue
        if not (p == '@EXTRA_ARGS@' and source == 'arguments'):   # the harness places the one whole-word @EXTRA_ARGS@
            out.append(p)
        out.append('a\\b' + p + '$x')
        out.append("q'" + p + ' z')
    return out


def hostile(rng, extra: T.List[str], allow_nl: bool, src: T.Optional[T.Tuple[str, str, str]] = None) -> str:
    """`src` = (position, mode, argument source): placeholder-bearing strings are drawn for every source, minus the
    ones that are documented errors there"""
    from .c03 import rand_string, ALPHABET
    r = rng.random()
    if rng.random() < 0.25:
        pool = ph_strings(*(src or ('none', '', 'identity')))
        if pool:
            return rng.choice(pool)
    if extra and r < 0.3:
        s = rng.choice(extra)
    elif r < 0.55:
        s = rng.choice(HOSTILE)
    elif r < 0.7:
        s = ''.join(rng.choice(ALPHABET) for _ in range(rng.randint(1, 3)))
    else:
        s = rand_string(rng, 10)
    s = s.replace('\0', '')
    if not allow_nl:
        s = s.replace('\n', 'N')
    if s == '&&':
        s = '&&&'      # an element that is exactly `&&` separates commands; that is generated deliberately (mode andand)
    # stay clear of accidental template names (the generator adds templates deliberately)
    s = re.sub(r'@([A-Z_0-9]+)@', r'@ \1@', s)
    return s


# ---------------------------------------------------------------- expected argv (from the property statement)

def apply_rules(a: str, subst: T.Dict[str, str], backslash: bool) -> str:
    if subst:
        rx = re.compile('|'.join(re.escape(k) for k in sorted(subst, key=len, reverse=True)))
        a = rx.sub(lambda m: subst[m.group(0)], a)
    return a.replace('\\', '/') if backslash else a


def expect_custom(args: T.List[str], subst: T.Dict[str, str]) -> T.List[T.List[str]]:
    """custom_target / run_target / generator: @TEMPLATE@ substituted, backslash -> '/', `&&` separates"""
    cmds: T.List[T.List[str]] = [[]]
    for a in args:
        if a == '&&':
            cmds.append([])
            continue
        cmds[-1].append(apply_rules(a, subst, True))
    return cmds


# ---------------------------------------------------------------- project generation

class Site(T.NamedTuple):
    sid: str
    position: str      # custom_target | run_target | generator | test | c_args | project_args | link_args | project_link_args
    mode: str          # plain | capture | feed | env | workdir | rsp
    args: T.List[str]
    env: T.List[T.Tuple[str, str]]
    extra: T.List[str] = []     # generator: process(extra_args: …), expanded at @EXTRA_ARGS@


def gen_project(rng, idx: int, kind: str, extra: T.List[str], nsites: int) -> T.Tuple[T.List[Site], str]:
    """kind: 'mixed' (custom/run/generator/test/compile, plain rules), 'rsp' (compile+link through response files),
    'nl-compile' (newline in c_args), 'nl-env' (newline in a custom_target env value)"""
    sites: T.List[Site] = []
    L = ["project('p%d', 'c')" % idx, "py = find_program(%s)" % msn(sys.executable), "dump = files('dump.py')"]

    def envdef(name: str, env) -> None:
        L.extend(envdef_lines(name, env))

    def mkenv(sid: str, allow_nl: bool) -> T.List[T.Tuple[str, str]]:
        return [(f'MV_E{j}', hostile(rng, extra, allow_nl)) for j in range(rng.randint(1, 2))]

    if kind == 'nl-env':
        env = [('MV_E0', 'line1\nline2')]
        envdef('e0', env)
        L.append("custom_target('ct0', output: 'ct0.out', command: [py, dump, 'x'], env: e0)")
        sites.append(Site('ct0', 'custom_target', 'env', ['x'], env))
        return sites, '\n'.join(L) + '\n'
    if kind == 'nl-compile':
        args = ['-DV0=a\nb']
        L.append(f"executable('e0', 'main.c', c_args: {msl(args)})")
        sites.append(Site('e0', 'c_args', 'plain', args, []))
        return sites, '\n'.join(L) + '\n'
    if kind.startswith('argtalk'):
        spec = argtalk_spec(rng, kind.split('-')[1])
        sites.append(Site('spec', 'argtalk', kind, [json.dumps(spec)], []))
        return sites, spec['meson_build']
    if kind == 'templates':
        # every placeholder literal of the current source, alone and embedded in backslash/metacharacter text, in EVERY
        # argument source of every command-carrying construct; the oracle knows per source which ones are documented
        def strs(position, mode, source):
            return ph_strings(position, mode, source) + ['a\\b', '$x y', "it's"]
        n = 0
        for mode, kws in (('plain', []), ('input', ["input: 'feed.txt'"]), ('capture', ['capture: true']),
                          ('feed', ["input: 'feed.txt'", 'feed: true'])):
            sid = f'ct{n}'
            n += 1
            args = strs('custom_target', mode, 'command')
            evals = strs('custom_target', mode, 'env')
            env = [(f'MV_E{j}', v) for j, v in enumerate(evals)] if mode == 'plain' else []
            kw = [f"output: '{sid}.out'"] + kws
            if env:
                envdef(f'env_{sid}', env)
                kw.append(f'env: env_{sid}')
            L.append(f"custom_target('{sid}', {', '.join(kw)}, command: [py, dump{''.join(', ' + msn(a) for a in args)}])")
            sites.append(Site(sid, 'custom_target', mode, args, env))
        args = strs('run_target', 'env', 'command')
        env = [(f'MV_E{j}', v) for j, v in enumerate(strs('run_target', 'env', 'env'))]
        envdef('env_rt0', env)
        L.append(f"run_target('rt0', command: [py, dump{''.join(', ' + msn(a) for a in args)}], env: env_rt0)")
        sites.append(Site('rt0', 'run_target', 'env', args, env))
        for sid, mode in (('g0', 'env'), ('g1', 'capture')):
            args = strs('generator', mode, 'arguments')
            xargs = strs('generator', mode, 'extra_args')
            env = [(f'MV_E{j}', v) for j, v in enumerate(strs('generator', mode, 'env'))] if mode == 'env' else []
            kw = ', capture: true' if mode == 'capture' else ''
            pkw = f', extra_args: {msl(xargs)}'
            if env:
                envdef(f'env_{sid}', env)
                pkw += f', env: env_{sid}'
            L.append(f"gen_{sid} = generator(py, output: '@BASENAME@.h'{kw}, "
                     f"arguments: [{', '.join(["meson.current_source_dir() / 'dump.py'"] + [msn(a) for a in args] + [msn('@EXTRA_ARGS@'), msn('@INPUT@'), msn('@OUTPUT@')])}])")
            L.append(f"executable('x{sid}', 'main.c', gen_{sid}.process('{sid}.in'{pkw}))")
            sites.append(Site(sid, 'generator', mode, args, env, xargs))
        targs = strs('test', 'env', 'args')
        env = [(f'MV_E{j}', v) for j, v in enumerate(strs('test', 'env', 'env'))]
        envdef('env_t0', env)
        L.append(f"test('t0', py, args: [dump, 'mvid=t0'{''.join(', ' + msn(a) for a in targs)}], env: env_t0)")
        sites.append(Site('t0', 'test', 'env', targs, env))
        cargs = [f'-DT{j}=' + v for j, v in enumerate(strs('c_args', 'plain', 'args'))]
        largs = [f'-Wl,--t{j}=' + v for j, v in enumerate(strs('link_args', 'plain', 'args'))]
        L.append(f"executable('e0', 'main.c', c_args: {msl(cargs)}, link_args: {msl(largs)})")
        sites.append(Site('e0', 'c_args', 'plain', cargs, []))
        sites.append(Site('e0', 'link_args', 'plain', largs, []))
        return sites, '\n'.join(L) + '\n'
    if kind == 'multicall':
        spec = multicall_spec(rng)
        sites.append(Site('spec', 'multicall', kind, [json.dumps(spec)], []))
        return sites, spec['meson_build']
    if kind == 'envops':
        # the environment as a command position: several values per operation, every separator, append/prepend over an
        # inherited value, unset of an inherited variable — through every delivery path (inline `env` prefix, `--internal exe`
        # + pickled wrapper, test serialisation)
        def envs():
            v = [hostile(rng, extra, False) or 'v' for _ in range(3)]
            return [
                [('MV_E0', ['alpha', 'beta'], 'set', ';')],
                [('MV_E0', ['alpha', 'beta', v[0]], 'set', ','), ('MV_E1', [v[1], 'b'], 'set', ':')],
                [('MV_E0', [v[0], v[1]], 'set', ' '), ('MV_E0', ['x', 'y'], 'set', '::')],
                [('MV_E0', ['one'], 'set', ';'), ('MV_E1', [v[2], 'z'], 'set', '')],
                [('MV_E0', ['p', 'q'], 'append', ';'), ('MV_E1', ['r', v[0]], 'prepend', ',')],
                [('MV_E0', ['s1', 's2'], 'set', ';'), ('MV_E0', ['a1', 'a2'], 'append', ','), ('MV_E0', ['p1'], 'prepend', ':')],
                [('MV_EU', None, 'unset', '')],
                [('MV_EU', None, 'unset', ''), ('MV_E0', ['k', v[1]], 'set', ';')],
            ]
        n = 0
        for env in envs():
            for mode, kws in (('env', []), ('env+capture', ['capture: true'])):
                sid = f'ct{n}'
                n += 1
                envdef(f'env_{sid}', env)
                kw = [f"output: '{sid}.out'"] + kws + [f'env: env_{sid}']
                L.append(f"custom_target('{sid}', {', '.join(kw)}, command: [py, dump, 'x'])")
                sites.append(Site(sid, 'custom_target', mode, ['x'], env))
        for env in envs():
            sid = f'rt{n}'
            n += 1
            envdef(f'env_{sid}', env)
            L.append(f"run_target('{sid}', command: [py, dump, 'x'], env: env_{sid})")
            sites.append(Site(sid, 'run_target', 'env', ['x'], env))
        for env in envs()[:6:2] + envs()[6:7]:
            sid = f'g{n}'
            n += 1
            envdef(f'env_{sid}', env)
            L.append(f"gen_{sid} = generator(py, output: '@BASENAME@.h', "
                     f"arguments: [meson.current_source_dir() / 'dump.py', 'x', '@EXTRA_ARGS@', '@INPUT@', '@OUTPUT@'])")
            L.append(f"executable('x{sid}', 'main.c', gen_{sid}.process('{sid}.in', env: env_{sid}))")
            sites.append(Site(sid, 'generator', 'env', ['x'], env))
        for env in envs():
            sid = f't{n}'
            n += 1
            envdef(f'env_{sid}', env)
            L.append(f"test('{sid}', py, args: [dump, 'mvid={sid}', 'x'], env: env_{sid})")
            sites.append(Site(sid, 'test', 'envops', ['x'], env))
        # a program whose path has a `=` in it, with an environment (the inline form cannot express it)
        L.append("eqprog = find_program('my=prog.py')")
        envdef('env_eq', [('MV_E0', ['a', 'b'], 'set', ';')])
        L.append("custom_target('cteq', output: 'cteq.out', command: [eqprog, 'x'], env: env_eq)")
        sites.append(Site('cteq', 'custom_target', 'env', ['x'], [('MV_E0', ['a', 'b'], 'set', ';')]))
        return sites, '\n'.join(L) + '\n'
    if kind == 'crosstalk':
        # families of commands that agree in every field that names the pickled wrapper file except one
        from .c03 import ALPHABET
        NL = 'n\nl'
        w = ''.join(rng.choice([c for c in ALPHABET if c not in '\n\\@']) for _ in range(rng.randint(3, 4)))
        i1, i2 = 1, len(w) - 1
        splits = [[w[:i1], w[i1:]], [w[:i2], w[i2:]], [w], [w, ''], ['', w], [w[:i1], w[i1:i2], w[i2:]]]
        n = 0

        def rt(args, env, prog='py'):
            nonlocal n
            sid = f'rt{n}'
            n += 1
            kw = ''
            if env:
                envdef(f'env_{sid}', env)
                kw = f', env: env_{sid}'
            L.append(f"run_target('{sid}', command: [{prog}, dump{''.join(', ' + msn(a) for a in args)}]{kw})")
            sites.append(Site(sid, 'run_target', 'crosstalk', list(args), list(env)))

        def ct(args, env, extra_kw, mode):
            nonlocal n
            sid = f'ct{n}'
            n += 1
            kw = [f"output: '{sid}.out'"] + extra_kw
            if env:
                envdef(f'env_{sid}', env)
                kw.append(f'env: env_{sid}')
            L.append(f"custom_target('{sid}', {', '.join(kw)}, command: [py, dump{''.join(', ' + msn(a) for a in args)}])")
            sites.append(Site(sid, 'custom_target', mode, list(args), list(env)))
        # F1 argument boundaries, pickled because of the newline word (run_target) / the prepend (custom_target)
        for sp in splits:
            rt([NL] + sp, [])
        for sp in splits[:4]:
            ct(sp, [('MV_EP', 'p', 'prepend', ':')], [], 'crosstalk')
        # F2 one env value / operation kind / separator
        v = hostile(rng, extra, False).replace(';', '_').replace(',', '_') or 'v'
        for env in ([('MV_EA', v + ';MV_EB,y')], [('MV_EA', v), ('MV_EB', 'y')],
                    [('MV_EC', v, 'append', ':')], [('MV_EC', v, 'prepend', ':')], [('MV_EC', v)],
                    [('MV_EC', v, 'append', ';')], [('MV_EC', v + 'x', 'append', ':')]):
            rt([NL, 'q'], env)
        # F3 capture target, F4 feed source (both pickled through the append)
        for _ in range(2):
            ct(['c', w], [('MV_EQ', 'q', 'append', ':')], ['capture: true'], 'crosstalk-capture')
        ct(['f', w], [('MV_EQ', 'q', 'append', ':')], ["input: 'feed.txt'", 'feed: true'], 'crosstalk-feed')
        ct(['f', w], [('MV_EQ', 'q', 'append', ':')], ["input: 'feed2.txt'", 'feed: true'], 'crosstalk-feed')
        # F5 the program given as a found program or as a string
        rt([NL, 'p', w], [])
        rt([NL, 'p', w], [], prog=msn(sys.executable))
        # a generator whose two argument sources carry the same strings: rewritten in `arguments`, untouched in extra_args
        same = ['a\\b', '@INPUT@ x', 'r=@SOURCE_ROOT@', "it's", '$x', '@BUILD_DIR@/y\\z']
        L.append("gen_g90 = generator(py, output: '@BASENAME@.h', arguments: [meson.current_source_dir() / 'dump.py'"
                 f"{''.join(', ' + msn(a) for a in same)}, '@EXTRA_ARGS@', '@INPUT@', '@OUTPUT@'])")
        L.append(f"executable('xg90', 'main.c', gen_g90.process('g90.in', extra_args: {msl(same)}))")
        sites.append(Site('g90', 'generator', 'plain', same, [], same))
        # F6 the same boundary shifts through `--internal exe` (capture) and directly
        for sp in splits[:3]:
            ct(sp, [], ['capture: true'], 'crosstalk-capture')
            ct(sp, [], [], 'crosstalk')
        return sites, '\n'.join(L) + '\n'
    if kind == 'tests':
        # the `meson test` leg: several tests with distinct hostile arguments, two test setups
        nt = 4
        for i in range(nt):
            mode = ['plain', 'env', 'workdir', 'serial'][i % 4]
            args = [hostile(rng, extra, True) for _ in range(rng.randint(1, 3))] + [rng.choice(OPTLIKE)]
            sid = f't{i}'
            env = mkenv(sid, True) if mode == 'env' else []
            kw = ''
            if env:
                envdef(f'env_{sid}', env)
                kw += f', env: env_{sid}'
            if mode == 'workdir':
                kw += ', workdir: meson.current_source_dir()'
            if mode == 'serial':
                kw += ', is_parallel: false'
            L.append(f"test('{sid}', py, args: [dump, 'mvid={sid}'{''.join(', ' + msn(a) for a in args)}]{kw})")
            sites.append(Site(sid, 'test', mode, args, env))
        wargs = ['W1', hostile(rng, extra, False), rng.choice(OPTLIKE)]
        L.append(f"add_test_setup('wrap', exe_wrapper: [py, meson.current_source_dir() / 'wdump.py'"
                 f"{''.join(', ' + msn(a) for a in wargs)}])")
        sval = hostile(rng, extra, False)
        L.append(f"add_test_setup('envonly', env: [{msn('MV_ES=' + sval)}], timeout_multiplier: 2)")
        sites.append(Site('setup-wrap', 'test_setup', 'exe_wrapper', wargs, []))
        sites.append(Site('setup-envonly', 'test_setup', 'env', [], [('MV_ES', sval)]))
        return sites, '\n'.join(L) + '\n'
    if kind == 'optlike':
        # every option-like word lands in at least one command that runs through `meson --internal exe`
        modes = ['capture', 'feed', 'env+capture', 'gen-capture', 'capture', 'feed']
        chunks: T.List[T.List[str]] = [[] for _ in modes]
        words = list(OPTLIKE)
        rng.shuffle(words)
        for j, w in enumerate(words):
            chunks[j % len(modes)].append(w)
        for i, (mode, args) in enumerate(zip(modes, chunks)):
            args = ['lead'] + args + [rng.choice(OPTLIKE)]
            if mode == 'gen-capture':
                sid = f'g{i}'
                L.append(f"gen_{sid} = generator(py, output: '@BASENAME@.h', capture: true, "
                         f"arguments: [{', '.join(["meson.current_source_dir() / 'dump.py'"] + [msn(a) for a in args] + [msn('@INPUT@'), msn('@OUTPUT@')])}])")
                L.append(f"executable('x{sid}', 'main.c', gen_{sid}.process('{sid}.in'))")
                sites.append(Site(sid, 'generator', 'capture', args, []))
                continue
            sid = f'ct{i}'
            env = mkenv(sid, False) if 'env' in mode else []
            kw = [f"output: '{sid}.out'"]
            if mode == 'feed':
                kw += ["input: 'feed.txt'", 'feed: true']
            if 'capture' in mode:
                kw.append('capture: true')
            if env:
                envdef(f'env_{sid}', env)
                kw.append(f'env: env_{sid}')
            L.append(f"custom_target('{sid}', {', '.join(kw)}, command: [py, dump{''.join(', ' + msn(a) for a in args)}])")
            sites.append(Site(sid, 'custom_target', mode, args, env))
        targs = ['lead'] + rng.sample(OPTLIKE, 6)
        L.append(f"test('t9', py, args: [dump, 'mvid=t9'{''.join(', ' + msn(a) for a in targs)}])")
        sites.append(Site('t9', 'test', 'plain', targs, []))
        rargs = ['lead'] + rng.sample(OPTLIKE, 6)
        L.append(f"run_target('rt9', command: [py, dump{''.join(', ' + msn(a) for a in rargs)}])")
        sites.append(Site('rt9', 'run_target', 'plain', rargs, []))
        return sites, '\n'.join(L) + '\n'
    if kind == 'rspmix':
        # for every rule kind with an _RSP variant: statements below and above the (lowered) threshold that share the
        # same hostile arguments; one family is first seen in a short statement, the other first in a long one
        def fam(tag):
            base = ['a\\b', "it's", '"q"', 'a b', '$x', 'tail\\', '\\\\', "\\'"]
            more = [hostile(rng, extra, False)[:16] for _ in range(2)]
            return [f'-D{tag}{j}=' + v for j, v in enumerate(base + more)]
        pad_c = [f'-DPAD{j}=' + 'x' * 30 for j in range(60)]
        pad_l = [f'-Wl,--pad{j}=' + 'x' * 30 for j in range(60)]
        h1, h2 = fam('H'), fam('G')
        l1 = ['-Wl,--mv' + a[2:] for a in h1]
        l2 = ['-Wl,--mw' + a[2:] for a in h2]
        plan = [('e0', h1, l1), ('e1', h1 + pad_c, l1 + pad_l), ('e2', h2 + pad_c, l2 + pad_l), ('e3', h2, l2)]
        for sid, cargs, largs in plan:
            L.append(f"executable('{sid}', 'main.c', c_args: {msl(cargs)}, link_args: {msl(largs)})")
            sites.append(Site(sid, 'c_args', 'rspmix', cargs, []))
            sites.append(Site(sid, 'link_args', 'rspmix', largs, []))
        L.append("static_library('sl0', 'lib.c')")
        L.append("static_library('sl1', " + ', '.join(f"'f{j:02d}.c'" for j in range(90)) + ")")
        sites.append(Site('sl0', 'static_link', 'rspmix', [], []))
        sites.append(Site('sl1', 'static_link', 'rspmix', [], []))
        return sites, '\n'.join(L) + '\n'
    if kind == 'rsp':
        pargs = [f'-DP{j}=' + hostile(rng, extra, False) for j in range(rng.randint(1, 3))]
        L.append(f"add_project_arguments({msl(pargs)}, language: 'c')")
        sites.append(Site('proj', 'project_args', 'rsp', pargs, []))
        for i in range(nsites):
            cargs = [f'-DV{j}=' + hostile(rng, extra, False) for j in range(rng.randint(1, 4))]
            largs = [f'-Wl,--mv{j}=' + hostile(rng, extra, False) for j in range(rng.randint(0, 3))]
            L.append(f"executable('e{i}', 'main.c', c_args: {msl(cargs)}, link_args: {msl(largs)})")
            sites.append(Site(f'e{i}', 'c_args', 'rsp', cargs, []))
            sites.append(Site(f'e{i}', 'link_args', 'rsp', largs, []))
        return sites, '\n'.join(L) + '\n'

    # mixed
    pargs = [rng.choice(['-DP%d=', '-fmvp%d=']) % j + hostile(rng, extra, False) for j in range(rng.randint(1, 3))]
    plargs = [f'-Wl,--mvp{j}=' + hostile(rng, extra, False) for j in range(rng.randint(0, 2))]
    L.append(f"add_project_arguments({msl(pargs)}, language: 'c')")
    L.append(f"add_project_link_arguments({msl(plargs)}, language: 'c')")
    sites.append(Site('proj', 'project_args', 'plain', pargs, []))
    sites.append(Site('proj', 'project_link_args', 'plain', plargs, []))
    for i in range(nsites):
        pos = rng.choice(['custom_target'] * 4 + ['run_target'] * 2 + ['generator', 'test', 'test', 'compile'])
        nl = pos in ('custom_target', 'run_target', 'generator', 'test')
        n = rng.randint(1, 4)
        if pos == 'custom_target':
            mode = rng.choice(['plain', 'plain', 'capture', 'feed', 'input', 'env', 'env+capture', 'andand'])
            args = [hostile(rng, extra, True, ('custom_target', mode, 'command')) for _ in range(n)]
            if rng.random() < 0.4:
                tpl = ['@OUTDIR@', '@SOURCE_ROOT@', '@BUILD_ROOT@/z']
                if 'capture' not in mode:      # meson rejects capture together with @OUTPUT@
                    tpl += ['@OUTPUT@', 'x@OUTPUT@y', '@OUTPUT0@']
                args.insert(rng.randint(0, len(args)), rng.choice(tpl))
            if mode == 'input':
                args.append(rng.choice(['@INPUT@', 'i=@INPUT@', '@PLAINNAME@', '@BASENAME@.x', '@INPUT0@']))
            sid = f'ct{i}'
            env = mkenv(sid, True) if 'env' in mode else []
            kw = [f"output: '{sid}.out'"]
            if mode == 'feed':
                kw += ["input: 'feed.txt'", 'feed: true']
            if mode == 'input':
                kw += ["input: 'feed.txt'"]
            if 'capture' in mode:
                kw.append('capture: true')
            if env:
                envdef(f'env_{sid}', env)
                kw.append(f'env: env_{sid}')
            if mode == 'andand':
                more = [hostile(rng, extra, False, ('custom_target', mode, 'command')) for _ in range(rng.randint(0, 2))]
                args = [a.replace('\n', 'N') for a in args]
                cmd = 'py, dump, ' + ', '.join(msn(a) for a in args) + ", '&&', py, dump" + \
                      ''.join(', ' + msn(a) for a in more)
                sites.append(Site(sid, pos, mode, args + ['&&'] + more, env))
            else:
                cmd = 'py, dump' + ''.join(', ' + msn(a) for a in args)
                sites.append(Site(sid, pos, mode, args, env))
            L.append(f"custom_target('{sid}', {', '.join(kw)}, command: [{cmd}])")
        elif pos == 'run_target':
            mode = rng.choice(['plain', 'plain', 'env'])
            args = [hostile(rng, extra, True, ('run_target', mode, 'command')) for _ in range(n)]
            if rng.random() < 0.3:
                args.append(rng.choice(['@SOURCE_ROOT@', 'r=@BUILD_ROOT@']))
            sid = f'rt{i}'
            env = mkenv(sid, True) if mode == 'env' else []
            kw = ''
            if env:
                envdef(f'env_{sid}', env)
                kw = f', env: env_{sid}'
            L.append(f"run_target('{sid}', command: [py, dump{''.join(', ' + msn(a) for a in args)}]{kw})")
            sites.append(Site(sid, pos, mode, args, env))
        elif pos == 'generator':
            mode = rng.choice(['plain', 'plain', 'capture', 'env'])
            args = [hostile(rng, extra, True, ('generator', mode, 'arguments')) for _ in range(n)]
            xargs = [hostile(rng, extra, True, ('generator', mode, 'extra_args')) for _ in range(rng.randint(0, 3))]
            sid = f'g{i}'
            env = mkenv(sid, True) if mode == 'env' else []
            kw = ', capture: true' if mode == 'capture' else ''
            pkw = f', extra_args: {msl(xargs)}'
            if env:
                envdef(f'env_{sid}', env)
                pkw += f', env: env_{sid}'
            L.append(f"gen_{sid} = generator(py, output: '@BASENAME@.h'{kw}, "
                     f"arguments: [{', '.join(["meson.current_source_dir() / 'dump.py'"] + [msn(a) for a in args] + [msn('@EXTRA_ARGS@'), msn('@INPUT@'), msn('@OUTPUT@')])}])")
            L.append(f"executable('x{sid}', 'main.c', gen_{sid}.process('{sid}.in'{pkw}))")
            sites.append(Site(sid, pos, mode, args, env, xargs))
        elif pos == 'test':
            mode = rng.choice(['plain', 'env', 'workdir'])
            args = [hostile(rng, extra, True) for _ in range(n)]
            sid = f't{i}'
            env = mkenv(sid, True) if mode == 'env' else []
            kw = ''
            if env:
                envdef(f'env_{sid}', env)
                kw += f', env: env_{sid}'
            if mode == 'workdir':
                kw += ", workdir: meson.current_source_dir()"
            L.append(f"test('{sid}', py, args: [dump, 'mvid={sid}'{''.join(', ' + msn(a) for a in args)}]{kw})")
            sites.append(Site(sid, pos, mode, args, env))
        else:
            sid = f'e{i}'
            cargs = [rng.choice(['-DV%d=', '-DV%d=', '-fmv%d=', '/DW%d=']) % j + hostile(rng, extra, False)
                     for j in range(rng.randint(1, 4))]
            largs = [f'-Wl,--mv{j}=' + hostile(rng, extra, False) for j in range(rng.randint(0, 3))]
            L.append(f"executable('{sid}', 'main.c', c_args: {msl(cargs)}, link_args: {msl(largs)})")
            sites.append(Site(sid, 'c_args', 'plain', cargs, []))
            sites.append(Site(sid, 'link_args', 'plain', largs, []))
    return sites, '\n'.join(L) + '\n'


def write_project(root: str, text: str, sites: T.List[Site]) -> T.Tuple[str, str]:
    src = os.path.join(root, 'src')
    os.makedirs(src)
    with open(os.path.join(src, 'meson.build'), 'w', encoding='utf-8') as f:
        f.write(text)
    with open(os.path.join(src, 'dump.py'), 'w') as f:
        f.write(DUMPER)
    with open(os.path.join(src, 'wdump.py'), 'w') as f:
        f.write(WDUMPER)
    with open(os.path.join(src, 'my=prog.py'), 'w') as f:
        f.write('#!' + sys.executable + '\n' + DUMPER)
    os.chmod(os.path.join(src, 'my=prog.py'), 0o755)
    with open(os.path.join(src, 'main.c'), 'w') as f:
        f.write('int main(void) { return 0; }\n')
    with open(os.path.join(src, 'feed.txt'), 'w') as f:
        f.write('feed\n')
    with open(os.path.join(src, 'feed2.txt'), 'w') as f:
        f.write('feed2\n')
    for s in sites:
        if s.position == 'generator':
            with open(os.path.join(src, s.sid + '.in'), 'w') as f:
                f.write('x\n')
    cc = os.path.join(src, 'ccwrap')
    with open(cc, 'w') as f:
        f.write(CCWRAP.format(py=sys.executable, dump=os.path.join(src, 'dump.py')))
    os.chmod(cc, 0o755)
    with open(os.path.join(src, 'cxxwrap'), 'w') as f:
        f.write(CCWRAP.format(py=sys.executable, dump=os.path.join(src, 'dump.py')).replace('exec cc ', 'exec c++ '))
    os.chmod(os.path.join(src, 'cxxwrap'), 0o755)
    if any(s.position == 'static_link' for s in sites):
        for j in range(90):
            with open(os.path.join(src, f'f{j:02d}.c'), 'w') as f:
                f.write(f'int mv_f{j}(void) {{ return {j}; }}\n')
    for name, text in (('lib.c', 'int mv_c(void) { return 0; }\n'), ('lib2.cpp', 'int mv_cpp() { return 0; }\n'),
                       ('main2.cpp', 'int mv_main2() { return 0; }\n')):
        with open(os.path.join(src, name), 'w') as f:
            f.write(text)
    return src, cc


def rsp_threshold_env() -> str:
    """the environment variable the backend reads for the response-file threshold (harvested from the live
    `get_rsp_threshold`; falls back to the documented name)"""
    try:
        import inspect
        from mesonbuild.utils import universal as U
        m = re.search(r"environ\.get\(\s*'([A-Z_]+)'", inspect.getsource(U.get_rsp_threshold))
        if m:
            return m.group(1)
    except Exception:       # noqa: BLE001
        pass
    return 'MESON_RSP_THRESHOLD'


RSPMIX_THRESHOLD = 1200


def meson_setup(root: str, src: str, cc: str, rsp: T.Union[bool, int]) -> T.Tuple[int, str]:
    env = dict(os.environ, PATH=FAKEBIN + os.pathsep + os.environ.get('PATH', ''), CC=cc, PYTHONPATH=common.REPO,
               CXX=os.path.join(os.path.dirname(cc), 'cxxwrap'), LC_ALL='C.UTF-8')
    var = rsp_threshold_env()
    env.pop(var, None)
    if rsp is True:
        env[var] = '0'
    elif rsp:
        env[var] = str(int(rsp))
    p = subprocess.run([sys.executable, os.path.join(common.REPO, 'meson.py'), 'setup', os.path.join(root, 'b'), src],
                       env=env, stdout=subprocess.PIPE, stderr=subprocess.STDOUT, timeout=300)
    return p.returncode, p.stdout.decode('utf-8', 'replace')


# ---------------------------------------------------------------- build.ninja reader (layout only; `$` is the model's job)

def split_build_line(line: str) -> T.Tuple[T.List[str], str, T.List[str]]:
    """`build outs [| implicit]: rule ins [| deps] [|| order]` -> raw (still escaped) explicit outs, rule, explicit ins"""
    if not line.startswith('build ') or ':' not in line:
        raise ValueError('not a build line: ' + line[:80])
    toks: T.List[str] = []
    cur = ''
    i = 6
    colon_at = None
    while i < len(line):
        c = line[i]
        if c == '$' and i + 1 < len(line):
            cur += line[i:i + 2]
            i += 2
            continue
        if c == ' ' or c == ':':
            if cur:
                toks.append(cur)
                cur = ''
            if c == ':' and colon_at is None:
                colon_at = len(toks)
            i += 1
            continue
        cur += c
        i += 1
    if cur:
        toks.append(cur)
    if colon_at is None or colon_at >= len(toks):
        raise ValueError('build line without rule name: ' + line[:80])
    outs = toks[:colon_at]
    rest = toks[colon_at:]
    if '|' in outs:
        outs = outs[:outs.index('|')]
    rule = rest[0]
    ins = rest[1:]
    for bar in ('|', '||'):
        if bar in ins:
            ins = ins[:ins.index(bar)]
    return outs, rule, ins


def read_manifest(path: str):
    rules: T.Dict[str, T.List[T.Tuple[str, str]]] = {}
    builds: T.List[dict] = []
    cur = None
    for line in open(path, encoding='utf-8', newline='\n').read().split('\n'):
        if line.startswith('rule '):
            cur = []
            rules[line[5:]] = cur
        elif line.startswith('build '):
            outs, rule, ins = split_build_line(line)
            b = {'outs': outs, 'rule': rule, 'ins': ins, 'vars': []}
            builds.append(b)
            cur = b['vars']
        elif line.startswith(' ') and cur is not None:
            m = re.match(r' +([A-Za-z0-9_.-]+) = ?(.*)$', line, re.S)
            if m:
                cur.append((m.group(1), m.group(2)))
        else:
            cur = None
    return rules, builds


def find_build(builds, pred) -> T.Optional[dict]:
    for b in builds:
        if pred(b):
            return b
    return None


# ---------------------------------------------------------------- execution

def lenc(l):
    return ','.join('x' + enc(x) for x in l)


def ldec(f):
    return [dec(x[1:]) for x in f.split(',')] if f.strip() else []


def read_dump(dumpdir: str, mvid: str) -> T.List[dict]:
    p = os.path.join(dumpdir, mvid + '.jsonl')
    if not os.path.exists(p):
        return []
    return [json.loads(l) for l in open(p, encoding='utf-8', errors='surrogateescape') if l.strip()]


def ordered_once(hay: T.List[str], needles: T.List[str]) -> T.Optional[str]:
    pos = -1
    for n in needles:
        if hay.count(n) != 1:
            return f'argument {n!r} occurs {hay.count(n)} times in the executed argv'
        p = hay.index(n)
        if p < pos:
            return f'argument {n!r} arrives out of order'
        pos = p
    return None


def case_of(kind: str, site: Site, extra: dict) -> dict:
    d = {'position': site.position, 'mode': site.mode, 'project_kind': kind, 'sid': site.sid, 'args': site.args,
         'env': site.env, 'extra_args': list(site.extra)}
    d.update(extra)
    return d


def key_of(site: Site) -> str:
    return f'{site.position}/{site.mode}:{site.args!r}:{site.env!r}:{list(site.extra)!r}'.replace(' ', '␣')


def prepare_project(root: str, kind: str, sites: T.List[Site], text: str) -> T.Tuple[int, str]:
    src, cc = write_project(root, text, sites)
    return meson_setup(root, src, cc, RSPMIX_THRESHOLD if kind == 'rspmix' else kind == 'rsp')


def run_project(ctx: Ctx, root: str, kind: str, sites: T.List[Site], text: str,
                prepared: T.Optional[T.Tuple[int, str]] = None) -> None:
    rc, log = prepared if prepared is not None else prepare_project(root, kind, sites, text)
    b = os.path.join(root, 'b')
    dumpdir = os.path.join(root, 'dump')
    os.makedirs(dumpdir)
    ctx.tag('e2e:project:' + kind)
    if rc != 0:
        tail = log.strip().split('\n')
        err = next((l for l in tail if l.startswith('ERROR') or 'ERROR:' in l), tail[-1] if tail else '')
        if kind == 'nl-env' and 'newlines' in log:
            ctx.violation('env-value-newline',
                          'custom_target env value containing a newline: `meson setup` fails (the `env K=V` shortcut of '
                          'as_meson_exe_cmdline only inspects cmd_args), the value never reaches the process',
                          case_of(kind, sites[0], {'error': err}))
            return
        if kind == 'nl-compile' and 'newlines' in log:
            ctx.violation('compile-arg-newline',
                          'c_args element containing a newline: `meson setup` fails in ninja_quote, the argument cannot '
                          'reach the compiler (compile rules have no serialised fallback)',
                          case_of(kind, sites[0], {'error': err}))
            return
        ctx.violation(f'setup-failed:{kind}:{err[:80]}', 'meson setup failed on a generated project: ' + err[:300],
                      {'position': 'project', 'project_kind': kind, 'meson_build': text, 'log_tail': tail[-6:]})
        return
    try:
        _evaluate_project(ctx, root, b, dumpdir, kind, sites, text)
    except common.ToolFailure:
        raise
    except (ValueError, IndexError, KeyError, AssertionError, AttributeError, TypeError, StopIteration,
            UnicodeError, OSError) as e:
        # what meson wrote (build.ninja, dumps of executed commands) does not have the shape the reader expects:
        # that is an outcome of the implementation, never a crash of the check
        import traceback
        ctx.violation(f'unreadable-output:{kind}:{type(e).__name__}',
                      f'build.ninja / executed commands of a generated project have an unexpected shape: '
                      f'{type(e).__name__}: {e}',
                      {'position': 'project', 'project_kind': kind, 'meson_build': text,
                       'where': traceback.format_exc().strip().split('\n')[-3:]})


def _evaluate_project(ctx: Ctx, root: str, b: str, dumpdir: str, kind: str, sites: T.List[Site], text: str) -> None:
    rules, builds = read_manifest(os.path.join(b, 'build.ninja'))

    # locate the statement of every site
    jobs: T.List[T.Tuple[Site, dict]] = []
    for s in sites:
        if s.position == 'custom_target':
            st = find_build(builds, lambda x: x['outs'] == [s.sid + '.out'])
        elif s.position == 'run_target':
            st = find_build(builds, lambda x: x['outs'] == ['meson-internal__' + s.sid])
        elif s.position == 'generator':
            st = find_build(builds, lambda x: x['outs'] == [f'x{s.sid}.p/{s.sid}.h'])
        elif s.position == 'c_args':
            st = find_build(builds, lambda x: x['outs'] == [f'{s.sid}.p/main.c.o'])
        elif s.position == 'link_args':
            st = find_build(builds, lambda x: x['outs'] == [s.sid])
        elif s.position == 'static_link':
            st = find_build(builds, lambda x: x['outs'] == [f'lib{s.sid}.a'])
        elif s.position in ('project_args', 'project_link_args'):
            # checked on every compile / link statement of the project below
            continue
        elif s.position in ('test', 'test_setup', 'argtalk', 'multicall'):
            continue
        else:
            st = None
        if st is None:
            ctx.violation(f'no-build-statement:{s.position}', 'no build statement found for a generated target',
                          case_of(kind, s, {}))
            continue
        jobs.append((s, st))

    check_pickles(ctx, b, kind, jobs)
    for s0 in sites:
        if s0.position == 'multicall':
            eval_multicall(ctx, root, b, dumpdir, kind, json.loads(s0.args[0]), rules, builds)
        if s0.position == 'argtalk':
            eval_argtalk(ctx, root, b, dumpdir, kind, json.loads(s0.args[0]), rules, builds)

    # command strings through the model's Ninja evaluation
    reqs: T.List[str] = []
    for s, st in jobs:
        rb = rules.get(st['rule'], [])
        head = '|'.join([lenc([k for k, _ in rb]), lenc([v for _, v in rb]),
                         lenc([k for k, _ in st['vars']]), lenc([v for _, v in st['vars']])])
        # explicit inputs/outputs are $-unescaped by the same evaluator
        reqs.append(head)
    path_reqs: T.List[str] = []
    for s, st in jobs:
        for ptok in st['ins'] + st['outs']:
            path_reqs.append(f'nineval ||{enc(ptok)}')
    path_ans = ctx.driver('quote', path_reqs) if path_reqs else []
    bad = [a for a in path_ans if not a.startswith('ok:')]
    if bad:
        raise ValueError('a path on a build line is not valid Ninja text: ' + bad[0])
    it = iter(path_ans)
    lines: T.List[str] = []
    for (s, st), head in zip(jobs, reqs):
        ins = [dec(next(it)[3:]) for _ in st['ins']]
        outs = [dec(next(it)[3:]) for _ in st['outs']]
        for name in ('command', 'rspfile', 'rspfile_content'):
            lines.append(f'edge {head}|{lenc(ins)}|{lenc(outs)}|{enc(name)}')
    ans = ctx.driver('quote', lines) if lines else []

    def execute(job_i: int):
        s, st = jobs[job_i]
        cmd_a, rsp_a, cont_a = ans[3 * job_i: 3 * job_i + 3]
        if not cmd_a.startswith('ok:'):
            return s, st, None, 'model ninjaEval: ' + cmd_a, None
        command = dec(cmd_a[3:])
        is_rsp = st['rule'].endswith('_RSP')
        content = None
        if s.position == 'static_link':
            # `rm -f … && ar …` is not started through the compiler stand-in: its words are read with the model's
            # sh / buildargv specifications below
            return s, st, 'static', command, (dec(cont_a[3:]) if is_rsp else None)
        if is_rsp:
            content = dec(cont_a[3:])
            rpath = os.path.join(b, dec(rsp_a[3:]))
            os.makedirs(os.path.dirname(rpath), exist_ok=True)
            with open(rpath, 'w', encoding='utf-8', newline='', errors='surrogateescape') as f:
                f.write(content)
        mvid = f'{s.position}-{s.sid}'
        env = dict(os.environ, MV_DUMP=dumpdir, MV_ID=mvid, PYTHONPATH=common.REPO, LC_ALL='C.UTF-8')
        env.update(env_base(s.env))
        p = subprocess.run(['/bin/sh', '-c', command], cwd=b, env=env, stdin=subprocess.DEVNULL,
                           stdout=subprocess.PIPE, stderr=subprocess.STDOUT, timeout=120)
        return s, st, p.returncode, p.stdout.decode('utf-8', 'replace')[-300:], content

    with ThreadPoolExecutor(12) as ex:
        results = list(ex.map(execute, range(len(jobs))))

    proj_args = next((x for x in sites if x.position == 'project_args'), None)
    proj_largs = next((x for x in sites if x.position == 'project_link_args'), None)
    bav_reqs: T.List[T.Tuple[Site, dict, str, T.List[str]]] = []
    seen_plain: T.Set[str] = set()
    seen_rsp: T.Set[str] = set()
    static_kinds: T.Set[bool] = set()
    for s, st, rc2, out, content in results:
        if s.position in ('c_args', 'link_args'):
            (seen_rsp if st['rule'].endswith('_RSP') else seen_plain).update(s.args)
        if s.position == 'static_link':
            ctx.count()
            is_rsp = st['rule'].endswith('_RSP')
            static_kinds.add(is_rsp)
            ctx.tag('e2e:static_link:' + ('rsp' if is_rsp else 'plain'))
            r = ctx.driver('quote', [f'bav {enc(content)}' if is_rsp else f'shcmds {enc(out)}'])[0]
            if is_rsp:
                words = ldec(r)
            else:
                words = ldec(r[3:].split(';')[-1]) if r.startswith('ok:') else None
            objs = list(st['ins'])
            # plain: `… ar <flags> <out> <objects…>`; _RSP: the file holds exactly the objects (`rspfile_content = $in`)
            bad = words is None or words[-len(objs):] != objs or \
                (is_rsp and len(words) != len(objs)) or \
                (not is_rsp and words[-len(objs) - 1:-len(objs)] != list(st['outs']))
            if bad:
                ctx.violation(key_of(s) + ':' + st['rule'], f'static link ({st["rule"]}): the archiver would receive '
                              f'{words!r}; the statement lists output {st["outs"]!r} and {len(objs)} objects',
                              case_of(kind, s, {'rule': st['rule']}))
            else:
                ctx.seen_nontrivial(('e2e', key_of(s) + st['rule']))
            continue
        ctx.count()
        ctx.tag(f'e2e:{s.position}:{s.mode}')
        mvid = f'{s.position}-{s.sid}'
        recs = read_dump(dumpdir, mvid)
        cmdvar = dict(st['vars']).get('COMMAND', '')
        wrap = 'pickled' if '--unpickle' in cmdvar else ('internal-exe' if '--internal exe' in cmdvar else
                                                          ('env' if cmdvar.startswith('env ') else 'direct'))
        if s.position in ('custom_target', 'run_target', 'generator'):
            ctx.tag('e2e:wrap:' + wrap)
        if rc2 != 0 or not recs:
            ctx.violation(key_of(s), f'executing the build statement failed (rc={rc2}): {out}',
                          case_of(kind, s, {'raw_COMMAND': cmdvar}))
            continue
        if s.position in ('custom_target', 'run_target', 'generator'):
            subst, _bs = rules_for(s.position, s.mode, s.sid, 'arguments' if s.position == 'generator' else 'command')
            want = expect_custom(s.args, subst)
            got = [r['argv'] for r in recs]
            if s.position == 'generator':
                # `arguments` (rewritten as documented), then extra_args at @EXTRA_ARGS@ byte-identical; the trailing
                # @INPUT@ @OUTPUT@ words are path plumbing, not user strings
                got = [g[:-2] for g in got]
                want = [want[0] + list(s.extra)]
            if s.mode == 'andand':
                # the second command is `py dump more…`: its argv[0] (the dumper script path) is dropped by python
                pass
            if got != want:
                ctx.violation(key_of(s), f'argv differs: expected {want!r}, executed {got!r} (wrapping: {wrap})',
                              case_of(kind, s, {'expected': want, 'got': got, 'raw_COMMAND': cmdvar}))
                continue
            # the MV_E* part of the process environment must be exactly what the definition's env says
            want_env = expected_env(s.env, env_base(s.env))
            if recs[0]['env'] != want_env:
                ctx.violation(key_of(s), f'env differs: expected {want_env!r}, process saw {recs[0]["env"]!r} (wrapping: {wrap})',
                              case_of(kind, s, {'expected_env': want_env, 'got_env': recs[0]['env'], 'raw_COMMAND': cmdvar}))
                continue
            ctx.seen_nontrivial(('e2e', key_of(s)))
        else:
            argv = recs[0]['argv']
            if st['rule'].endswith('_RSP'):
                ats = [a for a in argv if a.startswith('@')]
                if len(ats) != 1:
                    ctx.violation(key_of(s), f'response-file rule did not pass exactly one @file: {argv!r}',
                                  case_of(kind, s, {}))
                    continue
                bav_reqs.append((s, st, content, argv))
                continue
            check_compile_argv(ctx, kind, s, argv, proj_args, proj_largs)
    # response files: tokenise with the model's buildargv; -D operands also with real gcc
    if bav_reqs:
        toks = ctx.driver('quote', [f'bav {enc(c)}' for _s, _st, c, _a in bav_reqs])
        from .c03 import gcc_defines
        wrapper = os.path.join(root, 'wrap.sh')
        with open(wrapper, 'w') as f:
            f.write('#!/bin/sh\nfor a in "$@"; do printf \'%s\\0\' "$a"; done >> "$MV_WRAP_OUT"\nexit 0\n')
        os.chmod(wrapper, 0o755)
        for n, ((s, st, content, argv), t) in enumerate(zip(bav_reqs, toks)):
            full = [a for a in argv if not a.startswith('@')] + ldec(t)
            check_compile_argv(ctx, kind, s, full, proj_args, proj_largs)
            if s.position == 'c_args':
                real = gcc_defines(content, root, n, cwd=b)
                if real is None:
                    ctx.tag('e2e:rsp:gcc-rejected')
                else:
                    ctx.tag('e2e:rsp:gcc-checked')
                    want = [expect_compile(a, True)[2:] for a in s.args if a.startswith('-D')]
                    msg = ordered_once(real, want)
                    if msg:
                        ctx.violation(key_of(s), 'through gcc @file: ' + msg, case_of(kind, s, {'gcc_defines': real}))

    if kind == 'rspmix':
        both = seen_plain & seen_rsp
        ctx.extra['args_in_both_plain_and_rsp_statements'] = ctx.extra.get('args_in_both_plain_and_rsp_statements', 0) + len(both)
        if not both:
            ctx.obligation_failed('vacuity: no argument string occurred in both a plain and an _RSP statement',
                                  f'plain statements carried {len(seen_plain)} distinct arguments, _RSP statements {len(seen_rsp)}')
        if static_kinds != {True, False}:
            ctx.obligation_failed('vacuity: static link statements did not cover both the plain and the _RSP rule',
                                  repr(sorted(static_kinds)))
    if kind == 'tests':
        run_test_variants(ctx, root, b, kind, sites)
        return
    # tests through `meson test`
    tsites = [s for s in sites if s.position == 'test']
    if tsites:
        env = dict(os.environ, MV_DUMP=dumpdir, PYTHONPATH=common.REPO, LC_ALL='C.UTF-8',
                   PATH=FAKEBIN + os.pathsep + os.environ.get('PATH', ''))
        env.pop('MV_ID', None)
        tbase: T.Dict[str, str] = {}
        for s in tsites:
            tbase.update(env_base(s.env))
        env.update(tbase)
        p = subprocess.run([sys.executable, os.path.join(common.REPO, 'meson.py'), 'test', '--no-rebuild', '-C', b],
                           env=env, stdout=subprocess.PIPE, stderr=subprocess.STDOUT, timeout=300)
        for s in tsites:
            ctx.count()
            ctx.tag(f'e2e:test:{s.mode}')
            recs = read_dump(dumpdir, s.sid)
            if len(recs) != 1:
                ctx.violation(key_of(s), f'test did not run exactly once ({len(recs)} records); meson test rc={p.returncode}',
                              case_of(kind, s, {'log': p.stdout.decode('utf-8', 'replace')[-400:]}))
                continue
            if recs[0]['argv'] != s.args:
                ctx.violation(key_of(s), f'test argv differs: expected {s.args!r}, got {recs[0]["argv"]!r}',
                              case_of(kind, s, {'got': recs[0]['argv']}))
                continue
            want_env = expected_env(s.env, tbase)
            if recs[0]['env'] != want_env:
                ctx.violation(key_of(s), f'test env differs: expected {want_env!r} (meson test itself inherits {tbase!r}), '
                              f'process saw {recs[0]["env"]!r}', case_of(kind, s, {'expected_env': want_env,
                                                                                   'got_env': recs[0]['env']}))
                continue
            ctx.seen_nontrivial(('e2e', key_of(s)))


def _variants(rng, sites: T.List[Site]) -> T.List[dict]:
    """`meson test` invocations: CLI words, the wrapper words expected in front of the program, extra --test-args,
    repeat count, env expected from the setup"""
    import shlex
    from .c03 import rand_string
    wsite = next(s for s in sites if s.sid == 'setup-wrap')
    esite = next(s for s in sites if s.sid == 'setup-envonly')
    cw = ['W0', 'a b', rng.choice(OPTLIKE[1:]) or 'x']          # --wrapper words (after the passthrough dumper)
    ta = [rng.choice(HOSTILE).replace('\n', 'N') or 'e', rng.choice(OPTLIKE[1:]) or 'z']
    ta_cli = '--test-args=' + ' '.join(shlex.quote(x) for x in ta)
    return [
        dict(name='plain', cli=['-j4'], wrap=None, extra=[], repeat=1, env=[]),
        dict(name='wrapper', cli=['--wrapper', '@WRAPPER@', '-j4'], wrap=cw, extra=[], repeat=1, env=[]),
        dict(name='setup-wrap', cli=['--setup', 'wrap', '-j1'], wrap=wsite.args, extra=[], repeat=1, env=[]),
        dict(name='setup-env', cli=['--setup', 'envonly'], wrap=None, extra=[], repeat=1, env=esite.env),
        dict(name='test-args', cli=[ta_cli, '-j4'], wrap=None, extra=ta, repeat=1, env=[]),
        dict(name='repeat', cli=['--repeat', '2', '-j1'], wrap=None, extra=[], repeat=2, env=[]),
        dict(name='setup-wrap+repeat+test-args', cli=['--setup', 'wrap', '--repeat', '2', '-j4', ta_cli],
             wrap=wsite.args, extra=ta, repeat=2, env=[]),
    ]


def run_test_variants(ctx: Ctx, root: str, b: str, kind: str, sites: T.List[Site]) -> None:
    """(a) real `meson test` under every variant, argv of every started process compared with
    wrapper ++ program ++ args ++ test-args exactly; (b)+(c) the same variants in-process through
    TestHarness.get_test_runner with all runners built before anything is compared"""
    import shlex
    tsites = [s for s in sites if s.position == 'test']
    src = os.path.join(root, 'src')
    wd = os.path.join(src, 'wdump.py')
    variants = _variants(ctx.rng, sites)
    for v in variants:
        if v['name'] == 'wrapper':
            wstr = ' '.join(shlex.quote(x) for x in [sys.executable, wd] + v['wrap'])
            v['cli'] = [wstr if x == '@WRAPPER@' else x for x in v['cli']]
    for v in variants:
        dumpdir = os.path.join(root, 'dump-' + v['name'])
        os.makedirs(dumpdir)
        env = dict(os.environ, MV_DUMP=dumpdir, PYTHONPATH=common.REPO, LC_ALL='C.UTF-8',
                   PATH=FAKEBIN + os.pathsep + os.environ.get('PATH', ''))
        env.pop('MV_ID', None)
        p = subprocess.run([sys.executable, os.path.join(common.REPO, 'meson.py'), 'test', '--no-rebuild', '-C', b] + v['cli'],
                           env=env, stdout=subprocess.PIPE, stderr=subprocess.STDOUT, timeout=300)
        log = p.stdout.decode('utf-8', 'replace')[-500:]
        wrecs = []
        for fn in sorted(os.listdir(dumpdir)):
            if fn.startswith('w-'):
                wrecs.append(json.load(open(os.path.join(dumpdir, fn), encoding='utf-8', errors='surrogateescape')))
        for s in tsites:
            ctx.count()
            ctx.tag('e2e:mtest:' + v['name'])
            case = case_of(kind, s, {'variant': v['name'], 'cli': v['cli'], 'wrapper': v['wrap'], 'test_args': v['extra']})
            key = f'test/{v["name"]}:{s.args!r}'.replace(' ', '␣')
            want_tail = s.args + v['extra']
            if v['wrap'] is None:
                recs = read_dump(dumpdir, s.sid)
                got = [r['argv'] for r in recs]
                if got != [want_tail] * v['repeat']:
                    ctx.violation(key, f'meson test ({v["name"]}): test process argv: expected {v["repeat"]} x {want_tail!r}, '
                                  f'got {got!r} (rc={p.returncode})', dict(case, got=got, log=log))
                    continue
            else:
                mine = [r for r in wrecs if f'mvid={s.sid}' in r['argv']]
                got = [r['argv'] for r in mine]
                nw = len(v['wrap'])
                ok = len(got) == v['repeat']
                for g in got:
                    # wrapper words, then the program (python + dumper script), the id word, the arguments, the extra ones
                    ok = ok and g[:nw] == v['wrap'] and len(g) == nw + 3 + len(want_tail) and \
                        g[nw + 2:nw + 3] == [f'mvid={s.sid}'] and g[nw + 3:] == want_tail and g[nw + 1].endswith('dump.py')
                if not ok:
                    ctx.violation(key, f'meson test ({v["name"]}): the wrapper is started with {got!r}; expected '
                                  f'{v["repeat"]} x {v["wrap"]!r} + [python, dump.py, mvid] + {want_tail!r} (rc={p.returncode})',
                                  dict(case, got=got, log=log))
                    continue
                recs = mine
            for k, val in list(s.env) + list(v['env']):
                if any(r['env'].get(k) != val for r in recs):
                    ctx.violation(key, f'meson test ({v["name"]}): env {k} expected {val!r}', dict(case, log=log))
            ctx.seen_nontrivial(('e2e', key))
    mtest_inprocess(ctx, b, kind, tsites, variants)


def mtest_inprocess(ctx: Ctx, b: str, kind: str, tsites: T.List[Site], variants: T.List[dict]) -> None:
    """SingleTestRunner._get_cmd/_get_test_cmd on the unpickled TestSerialisation objects, per variant; every runner
    is constructed before any command is looked at"""
    import argparse
    import copy
    from .c03 import lenc as _lenc, guarded
    from mesonbuild import mtest
    by_name = {s.sid: s for s in tsites}
    lines: T.List[str] = []
    impl: T.List[T.Tuple[dict, str, str]] = []
    cwd = os.getcwd()
    for v in variants:
        try:
            parser = argparse.ArgumentParser()
            mtest.add_arguments(parser)
            opts = parser.parse_args(['--no-rebuild', '-C', b] + v['cli'])
            with mtest.TestHarness(opts) as th:
                before_opt = copy.deepcopy(th.options.wrapper)
                before_setups = {k: copy.deepcopy(ts.exe_wrapper) for k, ts in th.build_data.test_setups.items()}
                runners = [(t, it, th.get_test_runner(t, it)) for it in range(v['repeat']) for t in th.tests]
                # (c) aliasing oracle: building runners must not modify the wrapper lists owned by options / setups
                after_setups = {k: ts.exe_wrapper for k, ts in th.build_data.test_setups.items()}
                if th.options.wrapper != before_opt or after_setups != before_setups:
                    ctx.violation(f'test-wrapper-list-modified:{v["name"]}',
                                  f'constructing {len(runners)} test runners changed a wrapper list owned by the options / '
                                  f'a test setup: before {before_opt!r} {before_setups!r}, after {th.options.wrapper!r} '
                                  f'{after_setups!r}', {'position': 'test', 'variant': v['name'], 'cli': v['cli'],
                                                        'project_kind': kind})
                for t, it, r in runners:
                    ctx.count()
                    ctx.tag('a:mtest-cmd')
                    site = by_name.get(t.name)
                    full = guarded('runner-cmd', lambda: _lenc((r.cmd or []) + r.test.cmd_args + r.options.test_args))
                    wrapper = guarded('get_wrapper', lambda: list(mtest.TestHarness.get_wrapper(r.options)))
                    # model inputs: the wrapper this variant was invoked with, the serialised program and arguments
                    wexp = [] if v['wrap'] is None else None
                    if wexp is None:
                        wexp = wrapper[:2] + v['wrap'] if isinstance(wrapper, list) else []
                    lines.append(f'testcmd {_lenc(wexp)}|{_lenc(t.fname)}|{_lenc(t.cmd_args)}|{_lenc(v["extra"])}')
                    impl.append(({'variant': v['name'], 'test': t.name, 'iteration': it, 'cli': v['cli']}, full, t.name))
                    # oracle (implementation only): wrapper ++ program ++ the arguments of the build definition ++ --test-args
                    if site is not None and not full.startswith('IMPL-SHAPE'):
                        got = [dec(x[1:]) for x in full.split(',')] if full else []
                        nw = 0 if v['wrap'] is None else len(v['wrap']) + 2
                        want_tail = [f'mvid={site.sid}'] + site.args + v['extra']
                        okw = v['wrap'] is None or got[2:nw] == v['wrap']
                        if not (okw and len(got) == nw + 2 + len(want_tail) and got[nw + 2:] == want_tail):
                            ctx.violation(f'test-runner-cmd/{v["name"]}:{site.args!r}'.replace(' ', '␣'),
                                          f'runner {t.name} (iteration {it}) of `meson test {" ".join(v["cli"])}` would start '
                                          f'{got!r}; expected wrapper {v["wrap"]!r}, program, then {want_tail!r}',
                                          case_of(kind, site, {'variant': v['name'], 'cli': v['cli'], 'got': got}))
        except SystemExit as e:
            ctx.violation(f'mtest-exit:{v["name"]}', f'TestHarness exited ({e.code}) for `meson test {" ".join(v["cli"])}`',
                          {'position': 'test', 'variant': v['name'], 'cli': v['cli'], 'project_kind': kind})
        finally:
            os.chdir(cwd)
    if lines and ctx.model_available:
        ans = ctx.driver('quote', lines)
        for (info, full, _n), a in zip(impl, ans):
            if full != a:
                ctx.disagreement({'kind': 'mtest-cmd', 'input': info, 'impl': full, 'model': a})


def multicall_spec(rng) -> dict:
    """several calls of every global / project argument function (and dependency sources) for the same language whose
    batches repeat strings of earlier batches: paired options (`-include H`, `-Xlinker O`), a plain flag, a whole pair
    given twice, a `-D` given twice (CompilerArgs documents that one as de-duplicated)"""
    L = ["project('pm', 'c', 'cpp')"]
    comp: T.Dict[str, T.List[T.List[str]]] = {'c': [], 'cpp': []}     # language -> batches that reach every compile of it
    link: T.Dict[str, T.List[T.List[str]]] = {'c': [], 'cpp': []}
    n = 0

    def hdr(tag):
        nonlocal n
        n += 1
        return f'mv_{tag}{n}.h'

    def lopt(tag):
        nonlocal n
        n += 1
        return f'--mv-{tag}{n}'
    rep_h, rep_l = hdr('rep'), lopt('rep')
    for fn, tag in (('add_project_arguments', 'p'), ('add_global_arguments', 'g')):
        ncalls = rng.randint(2, 4)
        for i in range(ncalls):
            langs = ['c', 'cpp'] if (i == 1 or rng.random() < 0.3) else ['c']
            batch = ['-include', hdr(tag)]
            if rng.random() < 0.6:
                batch += ['-include', hdr(tag)]
            if rng.random() < 0.7:
                batch.append('-fmvdup')
            if i in (0, ncalls - 1):
                batch += ['-include', rep_h]          # the very same pair in two calls
            if rng.random() < 0.5:
                batch.append('-DMVDUP=1')
            L.append(f"{fn}({', '.join(msn(a) for a in batch)}, language: {msl(langs)})")
            for l in langs:
                comp[l].append(batch)
    for fn, tag in (('add_project_link_arguments', 'pl'), ('add_global_link_arguments', 'gl')):
        ncalls = rng.randint(2, 4)
        for i in range(ncalls):
            langs = ['c', 'cpp'] if i == 1 else ['c']
            batch = ['-Xlinker', lopt(tag)]
            if rng.random() < 0.6:
                batch += ['-Xlinker', lopt(tag)]
            if i in (0, ncalls - 1):
                batch += ['-Xlinker', rep_l]
            L.append(f"{fn}({', '.join(msn(a) for a in batch)}, language: {msl(langs)})")
            for l in langs:
                link[l].append(batch)
    # dependencies folded into the project arguments, two of them sharing the option tokens
    dc1, dc2 = ['-include', hdr('pd')], ['-include', hdr('pd'), '-fmvdup']
    dl1, dl2 = ['-Xlinker', lopt('pd')], ['-Xlinker', lopt('pd')]
    L.append(f"pd1 = declare_dependency(compile_args: {msl(dc1)}, link_args: {msl(dl1)})")
    L.append(f"pd2 = declare_dependency(compile_args: {msl(dc2)}, link_args: {msl(dl2)})")
    L.append("add_project_dependencies(pd1, pd2, language: 'c')")
    comp['c'] += [dc1, dc2]
    link['c'] += [dl1, dl2]
    # per-target sources: two dependencies and the target's own keyword arguments
    tc1, tc2 = ['-include', hdr('td')], ['-include', hdr('td')]
    tl1, tl2 = ['-Xlinker', lopt('td')], ['-Xlinker', lopt('td')]
    own_c = ['-include', hdr('t'), '-fmvdup', '-include', hdr('t')]
    own_l = ['-Xlinker', lopt('t'), '-Xlinker', lopt('t')]
    L.append(f"td1 = declare_dependency(compile_args: {msl(tc1)}, link_args: {msl(tl1)})")
    L.append(f"td2 = declare_dependency(compile_args: {msl(tc2)}, link_args: {msl(tl2)})")
    L.append(f"executable('e0', 'main.c', dependencies: [td1, td2], c_args: {msl(own_c)}, link_args: {msl(own_l)})")
    L.append("executable('e1', 'main.c')")
    L.append("executable('e2', 'main2.cpp', 'main.c')")
    targets = {
        'e0': {'c': comp['c'] + [tc1, tc2, own_c], 'link': link['c'] + [tl1, tl2, own_l], 'linker': 'c'},
        'e1': {'c': comp['c'], 'link': link['c'], 'linker': 'c'},
        'e2': {'c': comp['c'], 'cpp': comp['cpp'], 'link': link['cpp'], 'linker': 'cpp'},
    }
    return {'targets': targets, 'meson_build': '\n'.join(L) + '\n'}


def eval_multicall(ctx: Ctx, root: str, b: str, dumpdir: str, kind: str, spec: dict, rules, builds) -> None:
    """every compile / link statement carries each marker string exactly as often as the sources that apply to it give
    it (`-D`: at least once, de-duplication of defines is documented), every header / linker option still directly
    preceded by its `-include` / `-Xlinker`, the strings of one batch in the order they were given"""
    stmts = []
    for st in builds:
        m = re.fullmatch(r'(c|cpp)_(COMPILER|LINKER)(_RSP)?', st['rule'])
        if not m or not st['outs']:
            continue
        out = st['outs'][0]
        name = out.split('.p/')[0] if '.p/' in out else out
        if name in spec['targets']:
            stmts.append((st, name, m.group(1), 'compile' if m.group(2) == 'COMPILER' else 'link'))
    if not stmts:
        raise ValueError('no compile/link statements found for the multicall project')
    lines = []
    for st, *_ in stmts:
        rb = rules.get(st['rule'], [])
        lines.append('edge ' + '|'.join([lenc([k for k, _ in rb]), lenc([v for _, v in rb]), lenc([k for k, _ in st['vars']]),
                                         lenc([v for _, v in st['vars']]), lenc(st['ins']), lenc(st['outs']), enc('command')]))
    ans = ctx.driver('quote', lines)

    def run_one(t):
        i, a = t
        if not a.startswith('ok:'):
            return None
        env = dict(os.environ, MV_DUMP=dumpdir, MV_ID=f'multicall-{i}', PYTHONPATH=common.REPO, LC_ALL='C.UTF-8')
        subprocess.run(['/bin/sh', '-c', dec(a[3:])], cwd=b, env=env, stdin=subprocess.DEVNULL, stdout=subprocess.PIPE,
                       stderr=subprocess.STDOUT, timeout=120)
        recs = read_dump(dumpdir, f'multicall-{i}')
        return recs[0]['argv'] if recs else None
    with ThreadPoolExecutor(8) as ex:
        argvs = list(ex.map(run_one, list(enumerate(ans))))
    for (st, name, lang, stage), argv in zip(stmts, argvs):
        ctx.count()
        ctx.tag(f'e2e:multicall:{stage}')
        t = spec['targets'][name]
        if stage == 'link' and t['linker'] != lang:
            continue
        batches = t['link'] if stage == 'link' else t.get(lang, [])
        case = {'position': 'compile/link args', 'project_kind': kind, 'target': name, 'stage': stage, 'language': lang,
                'batches': batches, 'meson_build': spec['meson_build']}
        key = f'multicall:{name}:{stage}:{lang}:{batches!r}'.replace(' ', '␣')
        if argv is None:
            ctx.violation(key, 'the compile/link statement could not be executed / read', case)
            continue
        universe = {a for bt in batches for a in bt}
        want_count: T.Dict[str, int] = {}
        for bt in batches:
            for a in bt:
                want_count[a] = want_count.get(a, 0) + 1
        msg = None
        for a, n in sorted(want_count.items()):
            got = argv.count(a)
            if a.startswith('-D'):
                if got < 1:
                    msg = f'{a!r} was given {n} times and does not arrive at all'
            elif got != n:
                msg = f'{a!r} was given {n} times by the sources of this command and arrives {got} times'
            if msg:
                break
        if msg is None:
            for i, a in enumerate(argv):
                if a in universe and (a.endswith('.h') or a.startswith('--mv-')):
                    opt = '-include' if a.endswith('.h') else '-Xlinker'
                    if i == 0 or argv[i - 1] != opt:
                        msg = f'{a!r} is no longer directly preceded by its {opt!r} (it follows {argv[i - 1] if i else None!r})'
                        break
        if msg is None:
            # the strings of one batch keep their relative order (operands are unique, so positions are well defined)
            for bt in batches:
                ops = [a for a in bt if (a.endswith('.h') or a.startswith('--mv-')) and want_count[a] == 1]
                pos = [argv.index(a) for a in ops]
                if pos != sorted(pos):
                    msg = f'the arguments of the batch {bt!r} arrive out of order'
                    break
        if msg:
            ctx.violation(key, f'{stage} command of {name!r} ({lang}): {msg}; argv (marker strings only): '
                          f'{[a for a in argv if a in universe]!r}', dict(case, got=[a for a in argv if a in universe]))
        else:
            ctx.seen_nontrivial(('e2e', key))


def argtalk_kwargs() -> T.Dict[str, T.List[str]]:
    """per target function: the argument-carrying keyword names, enumerated from the live interpreter tables
    (`_LANGUAGE_KWS`, `_SHARED_STATIC_ARGS`, the `*_KWS` lists) for the languages this sandbox can compile"""
    langs = ('c', 'cpp')
    fallback = [f'{l}_args' for l in langs]
    fb_ss = [f'{l}_{h}_args' for l in langs for h in ('static', 'shared')]
    try:
        from mesonbuild.interpreter import type_checking as tc
        lang_kws = sorted(k.name for k in tc._LANGUAGE_KWS if k.name.rsplit('_', 1)[0] in langs)
        ss = sorted(k.name for k in tc._SHARED_STATIC_ARGS if k.name.split('_')[0] in langs)
        tables = {'executable': tc.EXECUTABLE_KWS, 'static_library': tc.STATIC_LIB_KWS, 'shared_library': tc.SHARED_LIB_KWS,
                  'shared_module': tc.SHARED_MOD_KWS, 'library': tc.LIBRARY_KWS, 'both_libraries': tc.LIBRARY_KWS}
        out = {}
        for fn, tab in tables.items():
            names = {k.name for k in tab}
            out[fn] = [k for k in lang_kws + ss + ['link_args'] if k in names]
        return out
    except Exception:       # noqa: BLE001 - table layout changed: fall back to the documented names
        return {fn: fallback + (fb_ss if fn in ('library', 'both_libraries') else []) + ['link_args']
                for fn in ('executable', 'static_library', 'shared_library', 'shared_module', 'library', 'both_libraries')}


def argtalk_spec(rng, default_library: str) -> dict:
    """several targets of every kind whose argument keywords carry target-unique markers; some lists are ONE meson
    variable used by several targets, one is grown with += between targets"""
    kws = argtalk_kwargs()
    L = [f"project('pa', 'c', 'cpp', default_options: ['default_library={default_library}'])",
         "common = ['-DTcommon_0', '-DTcommon_1']", "acc = ['-DTacc_0']"]
    acc = ['-DTacc_0']
    targets: T.Dict[str, dict] = {}
    order = [('executable', 'e0'), ('static_library', 's0'), ('both_libraries', 'b0'), ('shared_library', 'h0'),
             ('library', 'l0'), ('shared_module', 'm0'), ('both_libraries', 'b1'), ('executable', 'e1'), ('library', 'l1')]
    for i, (fn, name) in enumerate(order):
        kwargs: T.Dict[str, T.List[str]] = {}
        parts = []
        for kw in kws[fn]:
            mk = (lambda n: f'-Wl,--t{name}_{kw}_{n}') if kw == 'link_args' else (lambda n: f'-DT{name}_{kw}_{n}')
            own = [mk(n) for n in range(rng.randint(1, 2))]
            if kw == 'c_args' and i % 2 == 0:
                kwargs[kw] = ['-DTcommon_0', '-DTcommon_1'] + own
                parts.append(f'{kw}: common + {msl(own)}' if rng.random() < 0.5 else f'{kw}: [common, {", ".join(msn(x) for x in own)}]')
            elif kw == 'c_args' and i % 3 == 1:
                kwargs[kw] = ['-DTcommon_0', '-DTcommon_1']
                parts.append(f'{kw}: common')
            elif kw == 'cpp_args' and i % 2 == 1:
                kwargs[kw] = list(acc)
                parts.append(f'{kw}: acc')
            else:
                kwargs[kw] = own
                parts.append(f'{kw}: {msl(own)}')
        srcs = "'main.c', 'main2.cpp'" if fn == 'executable' else "'lib.c', 'lib2.cpp'"
        L.append(f"{fn}('{name}', {srcs}, {', '.join(parts)})")
        targets[name] = {'fn': fn, 'kwargs': kwargs}
        if i % 2 == 1:
            nxt = f'-DTacc_{len(acc)}'
            acc.append(nxt)
            L.append(f"acc += [{msn(nxt)}]")
    return {'default_library': default_library, 'targets': targets, 'meson_build': '\n'.join(L) + '\n'}


def eval_argtalk(ctx: Ctx, root: str, b: str, dumpdir: str, kind: str, spec: dict, rules, builds) -> None:
    """every compile / link statement of the project must carry exactly the marker arguments its own target's
    definition gives for that language and library half — with multiplicity — and none of any other target's"""
    targets = spec['targets']
    owner: T.Dict[str, T.List[str]] = {}
    for name, t in targets.items():
        for kw, ms in t['kwargs'].items():
            for m in ms:
                owner.setdefault(m, []).append(f'{name}.{kw}')
    stmts = []
    for st in builds:
        m = re.fullmatch(r'(c|cpp)_(COMPILER|LINKER)(_RSP)?|STATIC_LINKER(_RSP)?', st['rule'])
        if not m or not st['outs']:
            continue
        out = st['outs'][0]
        stage = 'compile' if 'COMPILER' in st['rule'] else 'link'
        base = out.split('.p/')[0] if stage == 'compile' and '.p/' in out else out
        if base.startswith('lib') and base.endswith('.a'):
            name, half = base[3:-2], 'static'
        elif base.startswith('lib') and base.endswith('.so'):
            name, half = base[3:-3], 'shared'
        else:
            name, half = base, 'exe'
        if name in targets:
            stmts.append((st, stage, name, half, (m.group(1) or '')))
    if not stmts:
        raise ValueError('no compile/link statements found for the argtalk project')
    lines = []
    for st, *_ in stmts:
        rb = rules.get(st['rule'], [])
        ins = [x for x in st['ins']]
        lines.append('edge ' + '|'.join([lenc([k for k, _ in rb]), lenc([v for _, v in rb]), lenc([k for k, _ in st['vars']]),
                                         lenc([v for _, v in st['vars']]), lenc(ins), lenc(st['outs']), enc('command')]))
    ans = ctx.driver('quote', lines)
    todo = []
    for i, ((st, stage, name, half, lang), a) in enumerate(zip(stmts, ans)):
        if not a.startswith('ok:'):
            raise ValueError('command of a compile/link statement is not valid Ninja text: ' + a)
        todo.append((i, dec(a[3:])))

    def run_one(t):
        i, command = t
        env = dict(os.environ, MV_DUMP=dumpdir, MV_ID=f'argtalk-{i}', PYTHONPATH=common.REPO, LC_ALL='C.UTF-8')
        first = command.split(' ', 1)[0]
        if os.path.basename(first) in ('ccwrap', 'cxxwrap'):
            subprocess.run(['/bin/sh', '-c', command], cwd=b, env=env, stdin=subprocess.DEVNULL, stdout=subprocess.PIPE,
                           stderr=subprocess.STDOUT, timeout=120)
            recs = read_dump(dumpdir, f'argtalk-{i}')
            return recs[0]['argv'] if recs else None
        return 'model'
    with ThreadPoolExecutor(12) as ex:
        argvs = list(ex.map(run_one, todo))
    # statements not started through our compiler stand-in (ar): words by the sh specification of the model
    need = [i for i, a in enumerate(argvs) if a == 'model']
    if need:
        res = ctx.driver('quote', [f'shcmds {enc(todo[i][1])}' for i in need])
        for i, r in zip(need, res):
            argvs[i] = [w for c in r[3:].split(';') for w in ldec(c)] if r.startswith('ok:') else None
    for (st, stage, name, half, lang), argv in zip(stmts, argvs):
        ctx.count()
        ctx.tag(f'e2e:argtalk:{stage}:{half}')
        t = targets[name]
        case = {'position': 'compile/link args', 'project_kind': kind, 'target': name, 'function': t['fn'], 'stage': stage,
                'half': half, 'language': lang, 'definition': t['kwargs'], 'output': st['outs'][0],
                'meson_build': spec['meson_build']}
        key = f'argtalk:{kind}:{name}:{stage}:{half}:{lang}'
        if argv is None:
            ctx.violation(key, 'the compile/link statement could not be executed / read', case)
            continue
        got = sorted(a for a in argv if a in owner)
        kw = t['kwargs']
        if stage == 'compile':
            want = list(kw.get(f'{lang}_args', []))
            if half in ('static', 'shared'):
                want += kw.get(f'{lang}_{half}_args', [])
        elif half == 'static':
            # an archive is not linked: only the absence of other targets' arguments is stated
            want = [a for a in got if any(o.startswith(name + '.') for o in owner[a])]
        else:
            want = list(kw.get('link_args', []))
        if got != sorted(want):
            foreign = [f'{a} (given to {", ".join(owner[a])})' for a in got if a not in want]
            missing = [a for a in want if a not in got]
            ctx.violation(key, f'{stage} command of {t["fn"]}({name!r}) [{half}, {lang or "link"}] carries {got!r}; its definition '
                          f'specifies {sorted(want)!r}' + (f'; arguments of other definitions: {foreign!r}' if foreign else '') +
                          (f'; missing: {missing!r}' if missing else ''), dict(case, got=got, expected=sorted(want)))
        else:
            ctx.seen_nontrivial(('e2e', key + repr(got)))


def check_pickles(ctx: Ctx, b: str, kind: str, jobs) -> None:
    """oracle on the generated artefacts: every `--unpickle FILE` names a file that unpickles to exactly the command
    that references it, and commands that differ do not share a file"""
    import pickle
    by_path: T.Dict[str, T.List[Site]] = {}
    for s, st in jobs:
        if s.position not in ('custom_target', 'run_target', 'generator'):
            continue
        cmdvar = dict(st['vars']).get('COMMAND', '')
        toks = cmdvar.split(' ')
        if '--unpickle' not in toks:
            continue
        i = toks.index('--unpickle')
        # the wrapper's own option, not a word of a wrapped command: directly after `--internal exe`, no `--` before it
        if i + 1 >= len(toks) or toks[max(0, i - 2):i] != ['--internal', 'exe'] or '--' in toks[:i]:
            continue
        path = toks[i + 1]
        ctx.count()
        ctx.tag('e2e:pickle-checked')
        by_path.setdefault(path, []).append(s)
        try:
            with open(path if os.path.isabs(path) else os.path.join(b, path), 'rb') as f:
                es = pickle.load(f)
            got_args = list(es.cmd_args)
            base = env_base(s.env)
            got_env = {k: v for k, v in (es.env.get_env(dict(base)) if es.env else dict(base)).items() if k.startswith('MV_E')}
        except Exception as e:      # noqa: BLE001
            ctx.violation(key_of(s), f'the wrapper file {path} cannot be read back: {type(e).__name__}: {e}', case_of(kind, s, {}))
            continue
        subst, _bs = rules_for(s.position, s.mode, s.sid, 'arguments' if s.position == 'generator' else 'command')
        want = expect_custom(s.args, subst)
        if len(want) != 1:
            continue
        if s.position == 'generator':
            want = [want[0] + list(s.extra)]
        # the words after the dumper program (`py dump.py …`, or the dumper started directly)
        di = next((i for i, a in enumerate(got_args) if a.endswith('dump.py') or a.endswith('my=prog.py')), 1)
        tail = got_args[di + 1:-2] if s.position == 'generator' else got_args[di + 1:]
        want_env = expected_env(s.env, base)
        if tail != want[0] or got_env != want_env:
            ctx.violation(key_of(s), f'the wrapper file named by this command holds another command: arguments {tail!r} '
                          f'env {got_env!r}; the definition says {want[0]!r} {want_env!r}',
                          case_of(kind, s, {'dat': os.path.basename(path), 'file_args': tail, 'file_env': got_env}))
    for path, ss in by_path.items():
        distinct = {(tuple(x.args), repr(x.env), x.mode.split('-')[-1] if 'capture' in x.mode or 'feed' in x.mode
                     else '', x.sid if ('capture' in x.mode or 'feed' in x.mode) else '') for x in ss}
        if len(distinct) > 1:
            a, c = ss[0], next(x for x in ss if (x.args, x.env) != (ss[0].args, ss[0].env) or x.sid != ss[0].sid)
            ctx.violation(f'dat-shared:{a.args!r}:{a.env!r}:{c.args!r}:{c.env!r}'.replace(' ', '␣'),
                          f'different commands are given the same wrapper file {os.path.basename(path)}: '
                          f'{a.position} {a.args!r} env {a.env!r} and {c.position} {c.args!r} env {c.env!r}',
                          case_of(kind, a, {'other_args': c.args, 'other_env': c.env, 'dat': os.path.basename(path)}))


def expect_compile(a: str, per_target: bool) -> str:
    """per-target -D//D arguments have their backslashes doubled; everything else is unchanged"""
    if per_target and a[:2] in ('-D', '/D'):
        return a.replace('\\', '\\\\')
    return a


def check_compile_argv(ctx: Ctx, kind: str, s: Site, argv: T.List[str], proj_args, proj_largs) -> None:
    groups: T.List[T.Tuple[str, T.List[str]]] = []
    if s.position == 'c_args':
        groups.append(('c_args', [expect_compile(a, True) for a in s.args]))
        if proj_args is not None:
            groups.append(('add_project_arguments', [expect_compile(a, False) for a in proj_args.args]))
    else:
        groups.append(('link_args', list(s.args)))
        if proj_largs is not None:
            groups.append(('add_project_link_arguments', list(proj_largs.args)))
    for gname, want in groups:
        msg = ordered_once(argv, want)
        if msg:
            ctx.violation(key_of(s), f'{gname}: {msg}', case_of(kind, s, {'group': gname, 'expected': want, 'argv': argv}))
            return
    ctx.seen_nontrivial(('e2e', key_of(s)))


# ---------------------------------------------------------------- entry points

def run_e2e(ctx: Ctx, scratch: str, extra_strings: T.Optional[T.List[str]] = None, deep: bool = False) -> None:
    if not ctx.model_available:
        ctx.notes.append('e2e skipped: model driver not available (ninjaEval is needed to expand commands)')
        return
    rng = ctx.rng
    extra = [s.replace('\0', '') for s in (extra_strings or [])]
    nmixed = 12 if deep else ctx.scale(3, 14)
    nrsp = 3 if deep else ctx.scale(1, 4)
    plan: T.List[T.Tuple[str, T.List[Site], str]] = []
    idx = 0
    for _ in range(nmixed):
        sites, text = gen_project(rng, idx, 'mixed', extra, 14 if (deep or ctx.deep) else 10)
        plan.append(('mixed', sites, text))
        idx += 1
    for _ in range(nrsp):
        sites, text = gen_project(rng, idx, 'rsp', extra, 4)
        plan.append(('rsp', sites, text))
        idx += 1
    for kind in ('multicall', 'envops', 'rspmix', 'argtalk-both', 'argtalk-static', 'argtalk-shared', 'templates', 'crosstalk', 'tests', 'optlike',
                 'nl-env', 'nl-compile'):
        sites, text = gen_project(rng, idx, kind, extra, 1)
        plan.append((kind, sites, text))
        idx += 1
    roots = []
    for i, _p in enumerate(plan):
        r = os.path.join(scratch, f'e2e{i}')
        os.makedirs(r)
        roots.append(r)

    # `meson setup` of the independent projects runs concurrently; everything touching `ctx` stays in this thread
    def prep(i: int):
        kind, sites, text = plan[i]
        return prepare_project(roots[i], kind, sites, text)
    with ThreadPoolExecutor(8) as ex:
        prepared = list(ex.map(prep, range(len(plan))))
    for i, (kind, sites, text) in enumerate(plan):
        run_project(ctx, roots[i], kind, sites, text, prepared[i])
    ctx.extra['e2e_projects'] = len(plan)


def replay_case(ctx: Ctx, scratch: str, case: dict) -> None:
    """re-run one recorded site in a one-target project"""
    kind = case.get('project_kind', 'mixed')
    s = Site(case.get('sid', 's0'), case['position'], case.get('mode', 'plain'), list(case.get('args', [])),
             [tuple(e) for e in case.get('env', [])], list(case.get('extra_args', [])))
    if case['position'] == 'project':
        text = case['meson_build']
        sites: T.List[Site] = []
    else:
        # regenerate the single definition by a deterministic mini generator
        import random
        class _One(random.Random):
            pass
        sites, text = single_site_project(s, kind)
    root = os.path.join(scratch, 'replay')
    os.makedirs(root)
    before = len(ctx.violations) + len(ctx.known_hits)
    run_project(ctx, root, kind, sites, text)
    print('meson.build:\n' + text)
    print('violations:', json.dumps(ctx.violations, default=repr)[:1500], 'known:', list(ctx.known_hits))


def single_site_project(s: Site, kind: str) -> T.Tuple[T.List[Site], str]:
    L = ["project('r', 'c')", "py = find_program(%s)" % msn(sys.executable), "dump = files('dump.py')"]
    if s.env:
        L.extend(envdef_lines('e', s.env))
    envkw = ', env: e' if s.env else ''
    a = ''.join(', ' + msn(x) for x in s.args)
    sid = s.sid
    if s.position == 'custom_target':
        kw = [f"output: '{sid}.out'"]
        if s.mode == 'feed':
            kw += ["input: 'feed.txt'", 'feed: true']
        if s.mode == 'input':
            kw += ["input: 'feed.txt'"]
        if 'capture' in s.mode:
            kw.append('capture: true')
        if s.mode == 'andand':
            i = s.args.index('&&')
            a = ''.join(', ' + msn(x) for x in s.args[:i]) + ", '&&', py, dump" + ''.join(', ' + msn(x) for x in s.args[i + 1:])
        L.append(f"custom_target('{sid}', {', '.join(kw)}, command: [py, dump{a}]{envkw})")
    elif s.position == 'run_target':
        L.append(f"run_target('{sid}', command: [py, dump{a}]{envkw})")
    elif s.position == 'generator':
        kw = ', capture: true' if s.mode == 'capture' else ''
        L.append(f"gen = generator(py, output: '@BASENAME@.h'{kw}, arguments: [meson.current_source_dir() / 'dump.py'{a}, '@EXTRA_ARGS@', '@INPUT@', '@OUTPUT@'])")
        L.append(f"executable('x{sid}', 'main.c', gen.process('{sid}.in', extra_args: {msl(s.extra)}{envkw}))")
    elif s.position == 'test':
        kw = envkw + (", workdir: meson.current_source_dir()" if s.mode == 'workdir' else '')
        L.append(f"test('{sid}', py, args: [dump, 'mvid={sid}'{a}]{kw})")
    elif s.position == 'c_args':
        L.append(f"executable('{sid}', 'main.c', c_args: {msl(s.args)})")
    elif s.position == 'link_args':
        L.append(f"executable('{sid}', 'main.c', link_args: {msl(s.args)})")
    elif s.position == 'project_args':
        L.append(f"add_project_arguments({msl(s.args)}, language: 'c')")
        L.append("executable('e0', 'main.c')")
        return [s, Site('e0', 'c_args', s.mode, [], [])], '\n'.join(L) + '\n'
    elif s.position == 'project_link_args':
        L.append(f"add_project_link_arguments({msl(s.args)}, language: 'c')")
        L.append("executable('e0', 'main.c')")
        return [s, Site('e0', 'link_args', s.mode, [], [])], '\n'.join(L) + '\n'
    return [s], '\n'.join(L) + '\n'
