"""C12 — `meson test` runs each test once, isolates serial tests and reports truthfully.

Implementation under test (all real code of `mesonbuild/mtest.py`):
  (a) `TestHarness.doit / get_tests / get_test_runner / run_tests / _run_tests`, `SingleTestRunner.__init__ / run /
      _run_cmd`, `TestSubprocess.communicate / wait`, `TestRun*.complete`, `process_test_result`, `summary`, the
      json logger — run in-process under a deterministic asyncio loop with a virtual clock; only
      `_run_subprocess` and `_kill` are replaced by a fake process whose life time is a virtual timer
      (harness/c12_inproc.py);
  (b) the real `meson test --no-rebuild` command line on generated `--backend=none` projects whose test programs
      append their own start / end lines to a log.
Model: `lean/MesonModel/Sched/*.lean` through `mvdriver-sched`: every logged trace must be accepted as a path of
the transition system, and classification / tallies / selection must agree.
Oracle (no Lean in the loop): the property statement evaluated on the event log, testlog.json, the printed totals
and the exit status.
"""
from __future__ import annotations

import itertools
import json
import multiprocessing
import os
import subprocess
import sys
import time
import typing as T

from . import common
from .common import Ctx, enc, enc_list

ID = 'C12'
LEVEL = 'proof'
LEAN_TARGETS = ['MesonModel.Props.C12']
AREAS = ['sched']
PINS = [
    'mesonbuild.mtest:TestHarness._run_tests',
    'mesonbuild.mtest:TestHarness.run_tests',
    'mesonbuild.mtest:TestHarness.doit',
    'mesonbuild.mtest:TestHarness.__init__',
    'mesonbuild.mtest:TestHarness.process_test_result',
    'mesonbuild.mtest:TestHarness.is_bad_result',
    'mesonbuild.mtest:TestHarness.total_failure_count',
    'mesonbuild.mtest:TestHarness.summary',
    'mesonbuild.mtest:TestHarness.get_tests',
    'mesonbuild.mtest:TestHarness.tests_from_args',
    'mesonbuild.mtest:TestHarness.test_suitable',
    'mesonbuild.mtest:TestHarness.test_in_suites',
    'mesonbuild.mtest:TestHarness.split_suite_string',
    'mesonbuild.mtest:TestHarness.get_test_runner',
    'mesonbuild.mtest:TestRunExitCode.complete',
    'mesonbuild.mtest:TestRunTAP.complete',
    'mesonbuild.mtest:TestRun._complete',
    'mesonbuild.mtest:TestRun.start',
    'mesonbuild.mtest:TestResult',
    'mesonbuild.mtest:SingleTestRunner.__init__',
    'mesonbuild.mtest:SingleTestRunner.run',
    'mesonbuild.mtest:SingleTestRunner._run_cmd',
    'mesonbuild.mtest:TestSubprocess.wait',
    'mesonbuild.mtest:TestSubprocess._kill',
    'mesonbuild.mtest:complete',
    'mesonbuild.mtest:complete_all',
    'mesonbuild.mtest:test_slice',
    'mesonbuild.mtest:JsonLogfileBuilder.log',
]
TRUSTED = [
    'asyncio (CPython 3.12): cooperative scheduling — code between two awaits is atomic; Semaphore, wait, Task.cancel',
    'in-process stream: SingleTestRunner._run_subprocess and TestSubprocess._kill are replaced by a fake process '
    '(virtual-clock timer, real StreamReader); real process spawning / process-group killing is exercised only '
    'by the end-to-end stream with real `meson test`',
    'SIGINT / SIGTERM handlers of _run_tests, --gdb, benchmarks, test setups (--setup; so the branch '
    '`timeout_multiplier is None` of the time-limit rule is modelled but reachable only through --setup), --wrapper are outside '
    'the model and are not generated; positional test-name arguments: `[`-classes of fnmatch are outside the validated '
    'domain (names and patterns are made of letters, digits, `*`, `?`, `:`); --interactive only in the '
    'time-limit arithmetic stream',
    'reporting stream: the harness object is built by the real TestHarness constructor (only load_metadata replaced), '
    'its logger list is replaced by a recording logger + a real JsonLogfileBuilder, counters are only read; '
    '`maxfail_reached` is switched on by the stream at chosen points (the rule that chooses the point lives in the '
    'closure run_test and is exercised by the in-process scheduler stream and the real-command streams); the oracle '
    'judges only sequences _run_tests can produce, the other placements are compared with the model only',
    'time-limit arithmetic: multipliers k/4 only (float product exact); limit vs duration on the virtual clock',
    'TAP classification is checked on a hand-labelled set of streams only (C18 owns the TAP parser)',
    'liveness of a test\'s child processes (process group killed on timeout / cancellation) is not in the Lean model: '
    'it is decided by the heartbeat oracle of the end-to-end liveness leg only (harness/c12_live.py)',
]

GEN_PATH = os.path.join(common.LEAN, 'MesonModel', 'Generated', 'SchedTables.lean')
CORPUS = os.path.join(common.VERIF, 'corpus', 'C12')

BAD = {'FAIL', 'TIMEOUT', 'INTERRUPT', 'UNEXPECTEDPASS', 'ERROR'}      # the statement: failed, errored, timed out, unexpectedly passed (+ interrupted)
GROUP = {'OK': 'ok', 'EXPECTEDFAIL': 'xfail', 'FAIL': 'fail', 'ERROR': 'fail', 'INTERRUPT': 'fail',
         'UNEXPECTEDPASS': 'upass', 'SKIP': 'skip', 'IGNORED': 'ignored', 'TIMEOUT': 'timeout'}
COUNT_KEYS = ['ok', 'xfail', 'fail', 'upass', 'skip', 'ignored', 'timeout']

# hand-labelled TAP streams: text -> result the parse leaves (None = all fine)
TAPS: T.List[T.Tuple[str, T.Optional[str]]] = [
    ('1..2\nok 1\nok 2\n', None),
    ('1..2\nok 1\nnot ok 2\n', 'FAIL'),
    ('1..0 # SKIP nothing to do\n', 'SKIP'),
    ('Bail out! broken\n', 'ERROR'),
    ('1..1\nok 1 # SKIP not here\n', 'SKIP'),
    ('1..2\nok 1\n', 'ERROR'),
    ('1..1\nnot ok 1 # TODO later\n', None),
]
TAP_LABEL = dict(TAPS)


# ------------------------------------------------------------------ generated tables

class AdapterError(Exception):
    """the implementation no longer has the shape an adapter relies on (never a verdict, never a crash)"""


def adapter_failed(ctx: Ctx, name: str, detail: T.Any) -> None:
    """a failed adapter = a failed obligation (once per adapter) -> the failing-input search runs"""
    key = 'adapter:' + name
    if not any(o.startswith(key) for o in ctx.obligations_failed):
        ctx.obligation_failed(key, str(detail)[:300])
    ctx.tag('adapter-failed:' + name)


class ReportHarness:
    """a real `TestHarness` built by its real constructor (only `load_metadata` is replaced: no build directory),
    with the logger list replaced by a recording logger and a real `JsonLogfileBuilder`.  Nothing is assumed about
    how the harness stores its counters: they are only ever *read*, through `c12_inproc.read_counts`."""

    def __init__(self, wd: str, jsonlog: bool = True):
        import argparse
        import contextlib
        import io
        from mesonbuild import mtest
        from . import c12_inproc
        self.mtest = mtest
        try:
            class Harness(mtest.TestHarness):
                def load_metadata(self) -> None:
                    class BD:
                        project_name = 'p'
                        test_setups: dict = {}
                        test_setup_default_name = ''
                    self.build_data = BD()
                    self.tests = []
            parser = argparse.ArgumentParser(prog='meson test')
            mtest.add_arguments(parser)
            opts = parser.parse_args(['--no-rebuild', '-C', wd, '--num-processes', '1'])
            opts.logbase = None
            with contextlib.redirect_stdout(io.StringIO()):
                self.h = Harness(opts)

            outer = self

            class Rec(mtest.TestLogger):
                def log(self, harness, result) -> None:
                    outer.logged.append(result.res.name)
            self.logged: T.List[str] = []
            self.jpath = os.path.join(wd, f'report-{os.getpid()}.json') if jsonlog else None
            loggers: T.List[T.Any] = [Rec()]
            if self.jpath:
                loggers.append(mtest.JsonLogfileBuilder(self.jpath))
            self.jlog = loggers[-1] if self.jpath else None
            self.h.loggers[:] = loggers
            self.test = c12_inproc.make_tests(mtest, {'tests': [{'name': 'x', 'suite': ['p'], 'par': True}]})[0]
        except Exception as e:
            raise AdapterError(f'constructing TestHarness: {type(e).__name__}: {e}')

    def process(self, resname: str) -> T.Optional[str]:
        """one real `process_test_result` call on a real TestRun whose classification is `resname`"""
        mtest = self.mtest
        try:
            run = mtest.TestRun(self.test, {}, 'x', None, True, False, False)
            run.start(['x'])
            run.res = mtest.TestResult[resname]
            run.returncode = 0
            if run.res is not mtest.TestResult[resname]:
                raise AdapterError('TestRun.res cannot be set')
        except AdapterError:
            raise
        except Exception as e:
            raise AdapterError(f'building a TestRun: {type(e).__name__}: {e}')
        try:
            self.h.process_test_result(run)
        except SystemExit:
            return 'exit'
        return None

    def reach_maxfail(self) -> None:
        """what `run_test` does when --maxfail is reached (the flag only; cancellation is the scheduler's part)"""
        try:
            self.h.maxfail_reached = True
            if self.h.maxfail_reached is not True:
                raise AdapterError('maxfail_reached does not read back True')
        except AdapterError:
            raise
        except Exception as e:
            raise AdapterError(f'maxfail_reached: {type(e).__name__}: {e}')

    def counts(self) -> T.Dict[str, int]:
        from . import c12_inproc
        c = c12_inproc.read_counts(self.h)
        if isinstance(c, str):
            raise AdapterError(c)
        return c

    def observe(self) -> dict:
        from . import c12_inproc
        out: dict = {'counts': self.counts(), 'logged': list(self.logged)}
        try:
            out['total_failures'] = int(self.h.total_failure_count())
            out['summary_text'] = self.h.summary()
            out['printed'] = c12_inproc.parse_summary(out['summary_text'])
            out['collected'] = [r.res.name for r in self.h.collected_failures]
            out['flag'] = bool(self.h.maxfail_reached)
        except Exception as e:
            raise AdapterError(f'reading the report: {type(e).__name__}: {e}')
        if self.jlog is not None:
            try:
                self.jlog.close()
                jl = []
                for line in open(self.jpath, encoding='utf-8'):
                    if line.strip():
                        j = json.loads(line)
                        jl.append((j['result'], bool(j['is_fail'])))
                out['json'] = jl
            except Exception as e:
                raise AdapterError(f'testlog.json: {type(e).__name__}: {e}')
            finally:
                try:
                    os.unlink(self.jpath)
                except OSError:
                    pass
        return out


def gen_tables(ctx: Ctx) -> None:
    from mesonbuild import mtest
    from . import c12_inproc
    TR = mtest.TestResult
    members = [m.name for m in TR]

    def lst(xs):
        return '[' + ', '.join('"%s"' % x for x in xs) + ']'

    base = common.scratch_dir('mverif-c12g-')
    try:
        # which counter `process_test_result` bumps for each member, and whether `total_failure_count` counts it:
        # observed on a harness built by the real constructor (counters are read, never written)
        names = [a for _k, a in c12_inproc.COUNTER_ATTRS]
        key_of = {k: a for k, a in c12_inproc.COUNTER_ATTRS}
        table = []
        counted: T.Dict[str, T.Set[bool]] = {}
        for m in TR:
            rh = ReportHarness(base, jsonlog=False)
            before = rh.counts()
            if rh.process(m.name) == 'exit':
                table.append((m.name, 'exit'))
                continue
            after = rh.counts()
            hit = [key_of[k] for k in after if after[k] - before[k] == 1]
            other = [k for k in after if after[k] - before[k] not in (0, 1)]
            table.append((m.name, hit[0] if len(hit) == 1 and not other else 'multiple' if hit or other else 'none'))
            if len(hit) == 1:
                counted.setdefault(hit[0], set()).add(int(rh.h.total_failure_count()) == 1)
        # total_failure_count: the counters it sums ("inconsistent" if members of one counter disagree)
        tf = [n for n in names if counted.get(n) == {True}] + \
             [n + ':inconsistent' for n in names if counted.get(n) == {True, False}]
    finally:
        common.rmtree(base)
    lines = [
        '/- GENERATED by harness/c12.py gen_tables from the live `mesonbuild.mtest` module; do not edit. -/',
        '', 'namespace MesonModel.Sched.Generated', '',
        '/-- `[m.name for m in TestResult]` -/',
        'def testResultMembers : List String := ' + lst(members), '',
        '/-- members with `is_bad()` -/',
        'def isBadMembers : List String := ' + lst([m.name for m in TR if m.is_bad()]), '',
        '/-- members with `is_ok()` -/',
        'def isOkMembers : List String := ' + lst([m.name for m in TR if m.is_ok()]), '',
        '/-- members with `is_finished()` -/',
        'def isFinishedMembers : List String := ' + lst([m.name for m in TR if m.is_finished()]), '',
        '/-- counter incremented by `TestHarness.process_test_result` for each member ("exit" = sys.exit branch) -/',
        'def tallyTable : List (String × String) := [' + ', '.join('("%s", "%s")' % p for p in table) + ']', '',
        '/-- counters summed by `total_failure_count()` -/',
        'def totalFailureCounters : List String := ' + lst(sorted(tf)), '',
        '/-- `GNU_SKIP_RETURNCODE` -/',
        'def gnuSkipReturncode : Int := %d' % mtest.GNU_SKIP_RETURNCODE, '',
        '/-- `GNU_ERROR_RETURNCODE` -/',
        'def gnuErrorReturncode : Int := %d' % mtest.GNU_ERROR_RETURNCODE, '',
        'end MesonModel.Sched.Generated', '']
    text = '\n'.join(lines)
    old = open(GEN_PATH, encoding='utf-8').read() if os.path.exists(GEN_PATH) else None
    if old != text:
        tmp = GEN_PATH + f'.{os.getpid()}.tmp'
        with open(tmp, 'w', encoding='utf-8') as f:
            f.write(text)
        os.replace(tmp, GEN_PATH)
        ctx.notes.append('SchedTables.lean regenerated (content changed)')


# ------------------------------------------------------------------ the documented rules, restated (oracle side)

def o_split(s: str) -> T.Tuple[str, str]:
    i = s.find(':')
    return (s, '') if i < 0 else (s[:i], s[i + 1:])


def o_suite_match(sel: str, test_suites: T.List[str]) -> bool:
    """Unit-tests.md / mtest comment: `name` = (sub)project OR suite of that name; `:suite` = that suite in any
    project; `project:suite` = both."""
    p, s = o_split(sel)
    for ps in test_suites:
        tp, ts = o_split(ps)
        if s == '':
            if p == tp or p == ts:
                return True
        elif p == '':
            if ts == s:
                return True
        elif (tp, ts) == (p, s):
            return True
    return False


def o_arg_match(arg: str, t: dict) -> bool:
    """Unit-tests.md: `meson test A D` = tests of those names; `(sub)project_name:` = every test of that project;
    `(sub)project_name:test_name` = that test of that project; wildcards allowed in project and test names.
    (`:name` = `name` in any project, per the docstring of tests_from_args.)"""
    import fnmatch
    if ':' in arg:
        prj, name = arg.split(':', 1)
    else:
        prj, name = '', arg
    return fnmatch.fnmatchcase(t.get('prj', 'p'), prj or '*') and fnmatch.fnmatchcase(t['name'], name or '*')


def o_candidates(case: dict) -> T.List[int]:
    """--suite keeps only members of a listed suite, --no-suite drops members of a listed suite"""
    out = []
    for i, t in enumerate(case['tests']):
        if any(o_suite_match(s, t['suite']) for s in case.get('nosuites', [])):
            continue
        if case.get('suites') and not any(o_suite_match(s, t['suite']) for s in case['suites']):
            continue
        out.append(i)
    return out


def o_args_refused(case: dict) -> bool:
    """an argument that names no test is an error (the command must not succeed on a wrong name)"""
    cand = o_candidates(case)
    return any(not any(o_arg_match(a, case['tests'][i]) for i in cand) for a in case.get('args', []))


def o_selected(case: dict) -> T.List[int]:
    """suite filters, then positional names: a test is selected iff SOME argument names it — once, in list order"""
    out = o_candidates(case)
    if case.get('args'):
        out = [i for i in out if any(o_arg_match(a, case['tests'][i]) for a in case['args'])]
    return out


def o_classify_exit(rc: int, sf: bool, ee: T.Optional[int]) -> T.Set[str]:
    """the documented rule; the set has two members only where the documentation is ambiguous
    (expected_exitcode equal to 77 or 99)"""
    def inv(r):
        if sf and r == 'OK':
            return 'UNEXPECTEDPASS'
        if sf and r == 'FAIL':
            return 'EXPECTEDFAIL'
        return r
    gnu = 'SKIP' if rc == 77 else 'ERROR' if rc == 99 else None
    if rc == (ee or 0):
        return {inv('OK')} | ({gnu} if gnu and ee else set())
    return {inv(gnu or 'FAIL')}


def o_classify_tap(text: str, rc: int, sf: bool) -> T.Optional[str]:
    if text not in TAP_LABEL:
        return None
    r = TAP_LABEL[text]
    if rc != 0 and r not in BAD:
        r = 'ERROR'
    r = r or 'OK'
    if sf and r == 'OK':
        return 'UNEXPECTEDPASS'
    if sf and r == 'FAIL':
        return 'EXPECTEDFAIL'
    return r


def behaviour(case: dict, idx: int, it: int):
    b = case.get('beh', {}).get(f'{idx}:{it}') or case.get('beh', {}).get(str(idx))
    t = case['tests'][idx]
    if b is None:
        b = [t['dur'], t['rc'], t.get('out', '')]
    return b[0], b[1], (b[2] if len(b) > 2 else '')


def eff_timeout(t: dict, case: T.Optional[dict] = None) -> T.Optional[float]:
    """documented: `timeout: 0` / negative = no limit; `--timeout-multiplier m` scales it, m <= 0 = no limit"""
    to = t.get('to')
    if to is None or to <= 0:
        return None
    m = case.get('tmult') if case else None
    if m is None:
        return to
    return to * m if m > 0 else None


def oracle_run(case: dict, res: dict) -> T.List[T.Tuple[str, str]]:
    """the property statement on one in-process run; returns (kind, message) for every violated clause"""
    bad: T.List[T.Tuple[str, str]] = []
    sel = res.get('selected')
    if isinstance(sel, str):
        return bad          # selection raised (too many slices): nothing ran; selection is checked elsewhere
    if res.get('error'):
        bad.append(('harness-error', f'meson test did not complete: {res["error"]}'))
        return bad
    tests = case['tests']
    R = case.get('repeat', 1)
    jobs = case['jobs']
    maxfail = case.get('maxfail', 0)
    events = res['events']
    alive: T.Dict[T.Tuple[int, int], float] = {}
    spawned: T.Dict[T.Tuple[int, int], int] = {}
    ended: T.Dict[T.Tuple[int, int], T.Tuple[str, T.Any, float]] = {}
    results: T.Dict[T.Tuple[int, int], T.Tuple[str, int]] = {}
    bad_before: T.Dict[T.Tuple[int, int], int] = {}
    end_time: T.Dict[T.Tuple[int, int], float] = {}
    cut_times: T.Set[float] = set()
    last_t = 0.0
    nbad = 0
    for (kind, i, it, t, extra) in events:
        k = (i, it)
        if kind == 'spawn':
            last_t = t
            if i not in sel or not (0 <= it < R):
                bad.append(('unselected-started', f'test {i} iteration {it} started but was not selected'))
            spawned[k] = spawned.get(k, 0) + 1
            if spawned[k] > 1:
                bad.append(('started-twice', f'test {i} started twice in repetition {it}'))
            for (j, jt) in alive:
                if not tests[j]['par'] or not tests[i]['par']:
                    bad.append(('serial-overlap', f'test {i} (parallel={tests[i]["par"]}) started while test {j} '
                                f'(parallel={tests[j]["par"]}) was running'))
            alive[k] = t
            if len(alive) > jobs:
                bad.append(('job-bound', f'{len(alive)} tests running with --num-processes {jobs}'))
        elif kind in ('exit', 'kill'):
            last_t = t
            if k in alive:
                ended[k] = (kind, extra, t - alive[k])
                end_time[k] = t
                del alive[k]
        elif kind == 'result':
            if k in results:
                bad.append(('reported-twice', f'test {i} iteration {it} reported twice'))
            if k not in spawned:
                bad.append(('phantom-result', f'result for test {i} iteration {it} which never started'))
            if k in alive:
                bad.append(('early-result', f'result for test {i} iteration {it} while its process still runs'))
            results[k] = tuple(extra)
            bad_before[k] = nbad
            if extra[0] in BAD:
                nbad += 1
                if maxfail > 0 and nbad >= maxfail:
                    cut_times.add(last_t)    # the implementation may cut here or at a later bad result
    if alive:
        bad.append(('left-running', f'tests still running when meson test returned: {sorted(alive)}'))
    nbad_total = sum(1 for r in results.values() if r[0] in BAD)
    cut_allowed = (maxfail > 0 and nbad_total >= maxfail) or (R > 1 and nbad_total >= 1)
    want = [(i, it) for it in range(R) for i in sel]
    missing = [k for k in want if k not in spawned]
    if missing and not cut_allowed:
        bad.append(('not-started', f'selected tests never started although the run was not cut short: {missing[:6]}'))
    # classification of every started test
    for k, n in spawned.items():
        i, it = k
        t = tests[i]
        dur, rc, out = behaviour(case, i, it)
        to = eff_timeout(t, case)
        if k not in results:
            bad.append(('not-reported', f'test {i} iteration {it} started but no result was reported'))
            continue
        got, grc = results[k]
        how = ended.get(k)
        if how is None:
            continue
        if how[0] == 'exit':
            if to is not None and how[2] > to:
                bad.append(('timeout-ignored', f'test {i} ran {how[2]}s past its {to}s limit'))
            if t.get('proto', 'exitcode') == 'tap':
                exp = o_classify_tap(out, rc, t.get('sf', False))
                exp_set = {exp} if exp else None
            else:
                exp_set = o_classify_exit(rc, t.get('sf', False), t.get('ee'))
            # a run that --maxfail has already cut short may report a test that was still being
            # collected as INTERRUPT (it is cancelled in the instant between its exit and its report)
            cut_now = maxfail > 0 and bad_before.get(k, 0) >= maxfail
            if exp_set is not None and got not in exp_set and not (cut_now and got == 'INTERRUPT'):
                if not (to is not None and how[2] == to and got == 'TIMEOUT'):   # exact tie: either is right
                    bad.append(('misclassified', f'test {i} exit status {rc} should_fail={t.get("sf", False)} '
                                f'expected_exitcode={t.get("ee")} reported {got}, documented rule says {sorted(exp_set)}'))
            if grc != rc and got != 'TIMEOUT':
                bad.append(('returncode', f'test {i} exited {rc}, reported returncode {grc}'))
        else:  # killed by the harness
            if to is not None and abs(how[2] - to) < 1e-9:
                if got != 'TIMEOUT':
                    bad.append(('misclassified', f'test {i} killed at its time limit but reported {got}'))
            else:
                if got != 'INTERRUPT':
                    bad.append(('misclassified', f'test {i} killed before its limit, reported {got}'))
                if not cut_allowed:
                    bad.append(('killed', f'test {i} was killed after {how[2]}s although the run was not cut short'))
    # tallies, printed totals, json log, exit status
    tally = {k: 0 for k in COUNT_KEYS}
    for r, _rc in results.values():
        tally[GROUP.get(r, 'ok')] += 1
    if res.get('counts') is not None and res['counts'] != tally:
        bad.append(('tally', f'harness counters {res["counts"]} differ from the tally of the reported results {tally}'))
    if sel and sum(res['summary'].values()) != len(results):
        bad.append(('totals-add-up', f'printed totals {res["summary"]} add up to {sum(res["summary"].values())} but '
                    f'{len(results)} tests were run and reported'))
    printed = {k: res['summary'].get(k, 0) for k in COUNT_KEYS}
    if printed != tally and sel:
        bad.append(('printed-totals', f'printed totals {res["summary"]} differ from the tally of the reported results {tally}'))
    if sel and ('ok' not in res['summary'] or 'fail' not in res['summary']):
        bad.append(('printed-totals', 'summary lacks the Ok / Fail rows'))
    if 'json' in res:
        want_j = sorted((tests[i]['name'], it, r, rc) for (i, it), (r, rc) in results.items())
        got_j = sorted((j['name'].split(':')[-1], j['iter'], j['result'], j['returncode']) for j in res['json'])
        if want_j != got_j:
            bad.append(('testlog-json', f'testlog.json {got_j[:4]} differs from the reported results {want_j[:4]}'))
        for j in res['json']:
            if j['is_fail'] != (j['result'] in BAD):
                bad.append(('testlog-json', f'is_fail wrong for {j}'))
    want_exit = 1 if nbad_total else 0
    if res.get('exit') != want_exit:
        bad.append(('exit-status', f'exit status {res.get("exit")} but {nbad_total} bad results'))
    return bad


def oracle_slices(sel_all: T.List[int], per_slice: T.List[T.Any], n: int) -> T.Optional[str]:
    """--slice i/n over i = 1..n partitions the selected tests (n <= number of tests)"""
    if any(isinstance(s, str) for s in per_slice):
        return None if n > len(sel_all) else f'--slice i/{n} refused although {len(sel_all)} tests are selected'
    if n > len(sel_all):
        return None
    flat = [x for s in per_slice for x in s]
    if sorted(flat) != sorted(sel_all):
        return f'slices 1..{n} give {per_slice}, not a partition of {sel_all}'
    if len(set(flat)) != len(flat):
        return f'slices 1..{n} overlap: {per_slice}'
    return None


# ------------------------------------------------------------------ model protocol

def trace_line(case: dict, res: dict) -> T.Optional[str]:
    sel = res['selected']
    if isinstance(sel, str) or not sel:
        return None
    pos = {i: p for p, i in enumerate(sel)}
    n = len(sel)
    evs = []
    for (kind, i, it, _t, extra) in res['events']:
        if i not in pos:
            return None
        k = it * n + pos[i]
        if kind == 'spawn':
            evs.append(f's{k}')
        elif kind == 'result':
            evs.append(f'r{k}:{extra[0]}')
    par = ' '.join('1' if case['tests'][i]['par'] else '0' for i in sel)
    return f'trace {case["jobs"]}|{case.get("repeat", 1)}|{case.get("maxfail", 0)}|{par}|{" ".join(evs)}'


def select_line(case: dict) -> str:
    tests = ';'.join(f'{enc(t["name"])}:{enc(t.get("prj", "p"))}:{enc_list(t["suite"])}' for t in case['tests'])
    sl = case.get('slice')
    if case.get('args'):
        return 'selectargs %s|%s|%s|%s|%s|%s|%s' % (
            enc('p'), enc_list(case.get('suites', [])), enc_list(case.get('nosuites', [])), '',
            ('%d/%d' % tuple(sl)) if sl else '', tests, enc_list(case['args']))
    return 'select %s|%s|%s|%s|%s|%s' % (enc('p'), enc_list(case.get('suites', [])), enc_list(case.get('nosuites', [])),
                                        '', ('%d/%d' % tuple(sl)) if sl else '', tests)


def compare_with_model(ctx: Ctx, case: dict, res: dict, ans_trace: T.Optional[str], ans_sel: str) -> None:
    sel = res['selected']
    want_sel = 'ERR:tooManySlices' if isinstance(sel, str) else ' '.join(map(str, sel))
    if isinstance(sel, str) and sel != 'ERR:MesonException':
        want_sel = sel
    if ans_sel != want_sel:
        ctx.disagreement({'kind': 'select', 'case': case, 'impl': want_sel, 'model': ans_sel})
    if ans_trace is None:
        return
    if not ans_trace.startswith('ok '):
        ctx.disagreement({'kind': 'trace-rejected', 'case': case, 'model': ans_trace, 'events': res['events'][:60]})
        return
    # final state of the model against what the harness reports
    body = ans_trace[3:]
    st = body[body.index('st=[') + 4: body.index(']')].split(' ')
    rest = dict(p.split('=', 1) for p in (body[:body.index('st=[')] + body[body.index(']') + 1:]).split() if '=' in p)
    n = len(sel)
    pos = {i: p for p, i in enumerate(sel)}
    results = {}
    for (kind, i, it, _t, extra) in res['events']:
        if kind == 'result':
            results[it * n + pos[i]] = extra[0]
    impl_st = [('D:' + results[k]) if k in results else '-' for k in range(len(st))]
    model_st = [s if s.startswith('D:') else '-' for s in st]
    impl_tally = ','.join(str(res['counts'][k]) for k in COUNT_KEYS) if res.get('counts') is not None else rest.get('tally')
    impl_jobs = str(res.get('eff_jobs')) if res.get('eff_jobs') is not None else rest.get('jobs')
    if impl_st != model_st or rest.get('tally') != impl_tally or rest.get('exit') != str(res.get('exit')) or \
            rest.get('jobs') != impl_jobs or rest.get('main') != 'finished':
        ctx.disagreement({'kind': 'final-state', 'case': case, 'model': ans_trace,
                          'impl': {'st': impl_st, 'tally': impl_tally, 'exit': res.get('exit'), 'jobs': res.get('eff_jobs')}})
    # the reporting state: maxfail_reached, collected_failures, and the printed totals against the number of results
    impl_rep = {}
    if res.get('flag') is not None:
        impl_rep['flag'] = str(int(res['flag']))
        impl_rep['maxfail_reached'] = str(int(res['flag']))
    if res.get('collected') is not None:
        impl_rep['collected'] = ','.join(res['collected']) or '-'
    if res.get('summary'):
        impl_rep['printed_total'] = str(sum(res['summary'].values()))
    if any(rest.get(k) != v for k, v in impl_rep.items()):
        ctx.disagreement({'kind': 'report-state', 'case': case, 'model': {k: rest.get(k) for k in impl_rep},
                          'impl': impl_rep})


# ------------------------------------------------------------------ generators

RCS = [0, 0, 0, 1, 1, 2, 77, 99, 127, 255, -11]
DURS = [0, 0, 1, 1, 2, 3, 5, 8]
SUITES = [['p'], ['p:a'], ['p:b'], ['p:a', 'p:b'], ['q:a'], ['q'], ['a:p'], ['p:a', 'q:b']]
SUITE_SELS = ['a', 'b', 'p', 'q', ':a', ':b', 'p:a', 'q:a', 'p:', 'p:b', 'zz', ':zz', 'a:p']


def mk_test(i: int, par: bool, dur: int, rc: int = 0, **kw) -> dict:
    t = {'name': f't{i}', 'prj': 'p', 'suite': ['p'], 'par': par, 'dur': dur, 'rc': rc}
    t.update(kw)
    return t


def arg_pool(tests: T.List[dict]) -> T.List[str]:
    """positional arguments in every documented form: exact names, wildcards, `project:`, `project:name`, `:name`"""
    names = [t['name'] for t in tests]
    pool = list(names) + ['t*', 't?', '*', 'p:', 'q:', '*:', 't1*', '*1', 'p:t*', 'q:t*', '*:t?', 'zz', 'q:zz']
    pool += [':' + n for n in names[:3]] + ['p:' + n for n in names[:3]] + ['q:' + n for n in names[:2]]
    return pool


def rand_args(rng, tests: T.List[dict]) -> T.List[str]:
    """1-3 arguments, biased to overlapping ones (a name together with a pattern that also matches it)"""
    pool = arg_pool(tests)
    k = rng.random()
    if k < 0.4:
        t = rng.choice(tests)
        a = [t['name'], rng.choice(['t*', '*', t.get('prj', 'p') + ':', ':' + t['name'], t.get('prj', 'p') + ':' + t['name'], 't?'])]
        rng.shuffle(a)
        if rng.random() < 0.3:
            a.append(rng.choice(pool[:-2]))
        return a
    if k < 0.5:
        n = rng.choice(tests)['name']
        return [n, n]
    return [rng.choice(pool if rng.random() < 0.15 else pool[:-2]) for _ in range(rng.randint(1, 3))]


def rand_case(rng, big: bool = False) -> dict:
    n = rng.randint(1, 12 if big else 7)
    pser = rng.choice([0.0, 0.15, 0.3, 0.6, 1.0])
    style = rng.choice(['mixed', 'ties', 'zeros', 'sandwich', 'mixed'])
    tests = []
    for i in range(n):
        par = rng.random() >= pser
        if style == 'ties':
            dur = rng.choice([1, 2])
        elif style == 'zeros':
            dur = rng.choice([0, 0, 1])
        elif style == 'sandwich':
            dur = rng.choice([7, 9]) if par else rng.choice([0, 1])
        else:
            dur = rng.choice(DURS)
        t = mk_test(i, par, dur, rng.choice(RCS))
        if rng.random() < 0.25:
            t['sf'] = True
        if rng.random() < 0.12:
            t['ee'] = rng.choice([0, 1, 3, 77, 99])
        if rng.random() < 0.3:
            t['to'] = rng.choice([0, -1, 1, 2, 3, 30])
        if rng.random() < 0.12:
            t['proto'] = 'tap'
            t['out'] = rng.choice(TAPS)[0]
            t['rc'] = rng.choice([0, 0, 0, 1])
            t.pop('ee', None)
        if rng.random() < 0.4:
            t['suite'] = list(rng.choice(SUITES))
        tests.append(t)
    case: dict = {'tests': tests, 'jobs': rng.choice([1, 2, 2, 3, 3, 4, 5]), 'repeat': rng.choice([1, 1, 1, 2, 3]),
                  'maxfail': rng.choice([0, 0, 0, 1, 1, 2, 3])}
    if rng.random() < 0.25:
        case['suites'] = [rng.choice(SUITE_SELS) for _ in range(rng.randint(1, 2))]
    if rng.random() < 0.15:
        case['nosuites'] = [rng.choice(SUITE_SELS)]
    if rng.random() < 0.15:
        nsl = rng.randint(1, n + 1)
        case['slice'] = [rng.randint(1, nsl), nsl]
    if rng.random() < 0.15:
        case['tmult'] = rng.choice([-1.0, 0.0, 0.5, 1.0, 1.5, 2.0, 2.5])
    if rng.random() < 0.2:
        for t in tests:
            if rng.random() < 0.3:
                t['prj'] = 'q'
        case['args'] = rand_args(rng, tests)
    if case['repeat'] > 1 and rng.random() < 0.5:
        beh = {}
        for i in range(n):
            for it in range(case['repeat']):
                if rng.random() < 0.3 and tests[i].get('proto', 'exitcode') == 'exitcode':
                    beh[f'{i}:{it}'] = [rng.choice(DURS), rng.choice(RCS), '']
        case['beh'] = beh
    return case


def exhaustive_cases(maxn: int) -> T.Iterable[dict]:
    """every parallel/serial pattern x every duration vector over {0,1,2} x jobs 1..3 for up to `maxn` tests"""
    for n in range(1, maxn + 1):
        for pars in itertools.product([True, False], repeat=n):
            for durs in itertools.product([0, 1, 2], repeat=n):
                for jobs in (1, 2, 3):
                    yield {'tests': [mk_test(i, pars[i], durs[i]) for i in range(n)], 'jobs': jobs, 'repeat': 1,
                           'maxfail': 0}


def adversarial_cases() -> T.Iterable[dict]:
    """serial tests between long parallel ones, ties, maxfail while others run, failure under --repeat"""
    for jobs in range(1, 6):
        yield {'tests': [mk_test(0, True, 9), mk_test(1, True, 9), mk_test(2, False, 1), mk_test(3, True, 9),
                         mk_test(4, False, 0), mk_test(5, True, 1)], 'jobs': jobs, 'repeat': 1, 'maxfail': 0}
        yield {'tests': [mk_test(i, i % 3 != 1, 2) for i in range(8)], 'jobs': jobs, 'repeat': 2, 'maxfail': 0}
        yield {'tests': [mk_test(0, True, 5), mk_test(1, True, 1, 1), mk_test(2, True, 5), mk_test(3, True, 1),
                         mk_test(4, False, 1), mk_test(5, True, 1)], 'jobs': jobs, 'repeat': 1, 'maxfail': 1}
        yield {'tests': [mk_test(0, True, 2), mk_test(1, False, 1, 1), mk_test(2, True, 1)], 'jobs': jobs,
               'repeat': 3, 'maxfail': 0}
        yield {'tests': [mk_test(0, True, 3, 1), mk_test(1, True, 3, 2), mk_test(2, True, 3, 99), mk_test(3, True, 4)],
               'jobs': jobs, 'repeat': 1, 'maxfail': 2}
        for args in (['t1', 't*'], ['*', 't2'], ['p:', 't0'], ['t0', 'p:t0'], ['t?', 't1', ':t1'], ['q:', '*2']):
            yield {'tests': [mk_test(0, True, 1), mk_test(1, True, 2, 1), mk_test(2, False, 1, prj='q'), mk_test(3, True, 0)],
                   'jobs': jobs, 'repeat': 1 + jobs % 2, 'maxfail': 0, 'args': args}
        # the N-th failure arrives while longer tests are in flight; a timeout among the killed; repeat + maxfail
        for mf in (1, 2, 3):
            yield {'tests': [mk_test(0, True, 9), mk_test(1, True, 1, 1), mk_test(2, True, 9, 0, sf=True),
                             mk_test(3, True, 2, 99), mk_test(4, True, 3, 2), mk_test(5, True, 9, 0, to=3),
                             mk_test(6, True, 0, 77), mk_test(7, True, 9)], 'jobs': max(jobs, 2) + 3, 'repeat': 1,
                   'maxfail': mf}
            yield {'tests': [mk_test(0, True, 4), mk_test(1, True, 1, 1), mk_test(2, True, 4, 1)],
                   'jobs': jobs + 1, 'repeat': 2, 'maxfail': mf}
        yield {'tests': [mk_test(0, True, 5, 0, to=2), mk_test(1, False, 5, 0, to=5), mk_test(2, True, 1, 0, to=1),
                         mk_test(3, True, 0, 77, sf=True), mk_test(4, True, 1, 99, sf=True)], 'jobs': jobs,
               'repeat': 1, 'maxfail': 0}


def corpus_cases() -> T.List[dict]:
    out = []
    if os.path.isdir(CORPUS):
        for f in sorted(os.listdir(CORPUS)):
            if f.endswith('.json'):
                try:
                    out.append(json.load(open(os.path.join(CORPUS, f))))
                except Exception:
                    pass
    return out


# ------------------------------------------------------------------ in-process execution (worker pool)

_WD: T.Dict[T.Tuple[int, str], str] = {}


def _worker(arg: T.Tuple[str, dict, bool]) -> dict:
    base, case, logs = arg
    from . import c12_inproc
    pid = os.getpid()
    wd = _WD.get((pid, base))
    if wd is None:
        if multiprocessing.current_process().name != 'MainProcess':
            for k in list(os.environ):      # the harness copies and logs the whole environment for every test
                if k not in ('PATH', 'HOME', 'LANG'):
                    del os.environ[k]
        wd = os.path.join(base, f'w{pid}')
        os.makedirs(os.path.join(wd, 'meson-logs'), exist_ok=True)
        _WD[(pid, base)] = wd
    try:
        return c12_inproc.run_case(case, wd, want_logs=logs)
    except BaseException as e:   # never kill the pool
        return {'error': 'worker:' + type(e).__name__ + ':' + str(e)[:200], 'selected': [], 'events': [],
                'counts': {}, 'summary': {}, 'exit': None}


def run_cases(cases: T.List[dict], base: str, logs: bool = True) -> T.List[dict]:
    if len(cases) < 40:
        return [_worker((base, c, logs)) for c in cases]
    nproc = min(12, os.cpu_count() or 2)
    ctxmp = multiprocessing.get_context('fork')
    with ctxmp.Pool(nproc) as pool:
        return pool.map(_worker, [(base, c, logs) for c in cases], chunksize=16)


def report(ctx: Ctx, kind: str, msg: str, case: dict) -> None:
    if kind.startswith('KNOWN:'):
        ctx.violation(kind[6:], msg, {'stream': 'inproc', 'case': case, 'kind': kind})
        ctx.tag('known:' + kind[6:])
    else:
        ctx.violation(vkey(kind, case), msg, {'stream': 'inproc', 'case': case, 'kind': kind})


def vkey(kind: str, case: dict) -> str:
    return 'inproc:' + kind + ':' + json.dumps(case, sort_keys=True, separators=(',', ':'))


def check_batch(ctx: Ctx, cases: T.List[dict], base: str, tagname: str) -> int:
    """run, oracle, model; returns number of traces the model validated"""
    results = run_cases(cases, base)
    lines: T.List[str] = []
    slots: T.List[T.Tuple[int, int]] = []
    for case, res in zip(cases, results):
        ctx.count()
        for ae in res.get('adapter_error') or []:
            adapter_failed(ctx, 'inproc-' + ae.split(':')[0], ae)
        for kind, msg in oracle_run(case, res):
            report(ctx, kind, msg, case)
        # oracle: selection rule
        if not isinstance(res.get('selected'), str) and not res.get('error', None):
            want = None if o_args_refused(case) else o_selected(case)
            sl = case.get('slice')
            if sl and want is not None:
                want = want[sl[0] - 1::sl[1]] if sl[1] <= len(want) else None
            if case.get('args'):
                ctx.tag('opt:name-args')
                if want is not None and any(sum(1 for a in case['args'] if o_arg_match(a, case['tests'][i])) > 1 for i in want):
                    ctx.tag('opt:name-args-overlapping')
            if want is not None and res['selected'] != want:
                ctx.violation(vkey('selection', case), f'selected {res["selected"]}, documented rule selects {want}',
                              {'stream': 'inproc', 'case': case, 'kind': 'selection'})
        tl = None if res.get('error') else trace_line(case, res)
        a = len(lines)
        if tl is not None:
            lines.append(tl)
        lines.append(select_line(case))
        slots.append((a if tl is not None else -1, len(lines) - 1))
        ctx.tag(tagname)
        ctx.tag('jobs:%d' % case['jobs'])
        if case.get('repeat', 1) > 1:
            ctx.tag('opt:repeat')
        if case.get('maxfail', 0):
            ctx.tag('opt:maxfail')
            if res.get('flag'):
                ctx.tag('maxfail:reached')
                if any(e[0] == 'result' and e[4][0] == 'INTERRUPT' for e in res.get('events', [])):
                    ctx.tag('maxfail:reached-with-tests-in-flight')
        if case.get('tmult') is not None:
            ctx.tag('opt:timeout-multiplier')
        for (kind, *_r) in res.get('events', []):
            if kind == 'kill':
                ctx.tag('event:kill')
        evs = res.get('events', [])
        rs = sorted({e[4][0] for e in evs if e[0] == 'result'})
        for r in rs:
            ctx.tag('result:' + r)
        if len(evs) > 2:
            ctx.seen_nontrivial(tuple((e[0], e[1], e[2], e[4][0] if e[0] == 'result' else None) for e in evs) +
                                (case['jobs'],))
    validated = 0
    if ctx.model_available:
        answers = ctx.driver('sched', lines)
        for (case, res), (ti, si) in zip(zip(cases, results), slots):
            if res.get('error'):
                continue
            compare_with_model(ctx, case, res, answers[ti] if ti >= 0 else None, answers[si])
            if ti >= 0 and answers[ti].startswith('ok '):
                validated += 1
    for case, res in list(zip(cases, results))[:2]:
        ctx.sample({'case': case, 'events': [list(e) for e in res.get('events', [])][:12], 'exit': res.get('exit')}, limit=6)
    return validated


# ------------------------------------------------------------------ direct passes (classification, tallies, selection)

def direct_classification(ctx: Ctx) -> None:
    """every (wait outcome, exit status, expected_exitcode, should_fail) through the real TestRun classes"""
    from mesonbuild import mtest
    from . import c12_inproc
    rcs = [-15, -11, -1, 0, 1, 2, 3, 76, 77, 78, 98, 99, 100, 125, 126, 127, 128, 255, 256]
    ees = [None, 0, 1, 3, 77, 99]
    cases = []
    for w in ('exit', 'timeout', 'cancel'):
        for rc in rcs:
            for ee in ees:
                for sf in (False, True):
                    cases.append(('exit', w, rc, ee, sf))
    pre = {'exit': mtest.TestResult.RUNNING, 'timeout': mtest.TestResult.TIMEOUT, 'cancel': mtest.TestResult.INTERRUPT}
    lines = []
    impl = []
    for (_p, w, rc, ee, sf) in cases:
        t = c12_inproc.make_tests(mtest, {'tests': [{'name': 'x', 'suite': ['p'], 'par': True, 'sf': sf, 'ee': ee}]})[0]
        run = mtest.TestRun(t, {}, 'x', None, True, False, False)
        run.start(['x'])
        run.res = pre[w]
        run.returncode = rc
        run.complete()
        got = run.res.value
        impl.append(got)
        lines.append('classify exit|%s|%d|%s|%d' % (w, rc, '' if ee is None else str(ee), int(sf)))
        ctx.count()
        ctx.tag('direct:classify')
        if w == 'exit':
            exp = o_classify_exit(rc, sf, ee)
            if got not in exp:
                ctx.violation(f'classify:rc={rc}:sf={sf}:ee={ee}',
                              f'exit status {rc} should_fail={sf} expected_exitcode={ee} classified {got}, rule says {sorted(exp)}',
                              {'stream': 'classify', 'rc': rc, 'sf': sf, 'ee': ee})
        elif w == 'timeout' and got != 'TIMEOUT':
            ctx.violation(f'classify:timeout:rc={rc}:sf={sf}:ee={ee}', f'timed-out test classified {got}',
                          {'stream': 'classify', 'w': w, 'rc': rc, 'sf': sf, 'ee': ee})
    # TAP completion: every parse result x rc x sf
    tapcases = []
    for r in ['RUNNING', 'FAIL', 'ERROR', 'SKIP', 'TIMEOUT', 'INTERRUPT']:
        for rc in (0, 1, 77, 99):
            for sf in (False, True):
                tapcases.append((r, rc, sf))
    for (r, rc, sf) in tapcases:
        t = c12_inproc.make_tests(mtest, {'tests': [{'name': 'x', 'suite': ['p'], 'par': True, 'sf': sf, 'proto': 'tap'}]})[0]
        run = mtest.TestRun(t, {}, 'x', None, True, False, False)
        run.start(['x'])
        run.res = mtest.TestResult[r]
        run.returncode = rc
        run.complete()
        impl.append(run.res.value)
        lines.append('classify tap|%s|%d|%d' % (r, rc, int(sf)))
        ctx.count()
    if ctx.model_available:
        for line, a, b in zip(lines, impl, ctx.driver('sched', lines)):
            if a != b:
                ctx.disagreement({'kind': 'classify', 'line': line, 'impl': a, 'model': b})


def oracle_report(ops: T.List[str], obs: dict) -> T.List[T.Tuple[str, str]]:
    """the statement on one driven reporting run: 'the printed totals and testlog.json equal the tally of those
    classifications, and the exit status is non-zero iff some test failed, errored, timed out or unexpectedly
    passed' — for the results processed, wherever the --maxfail flag came on"""
    bad = []
    rs = [o for o in ops if o != '!']
    tally = {k: 0 for k in COUNT_KEYS}
    for r in rs:
        tally[GROUP[r]] += 1
    if obs['counts'] != tally:
        bad.append(('tally', f'harness counters {obs["counts"]} differ from the tally {tally} of the processed results'))
    printed = {k: obs['printed'].get(k, 0) for k in COUNT_KEYS}
    if printed != tally:
        bad.append(('printed-totals', f'printed totals {obs["printed"]} differ from the tally {tally} of the processed results'))
    if sum(obs['printed'].values()) != len(rs):
        bad.append(('totals-add-up', f'printed totals add up to {sum(obs["printed"].values())} but {len(rs)} results were processed'))
    if 'ok' not in obs['printed'] or 'fail' not in obs['printed']:
        bad.append(('printed-totals', 'summary lacks the Ok / Fail rows'))
    if obs['logged'] != rs:
        bad.append(('logged', f'loggers were handed {obs["logged"]}, processed {rs}'))
    if 'json' in obs:
        if [j[0] for j in obs['json']] != rs:
            bad.append(('testlog-json', f'testlog.json has {[j[0] for j in obs["json"]]}, processed {rs}'))
        for r, isf in obs['json']:
            if isf != (r in BAD):
                bad.append(('testlog-json', f'is_fail={isf} for result {r}'))
    want_exit = 1 if any(r in BAD for r in rs) else 0
    if (1 if obs['total_failures'] > 0 else 0) != want_exit:
        bad.append(('exit-status', f'total_failure_count {obs["total_failures"]} (exit status '
                    f'{1 if obs["total_failures"] > 0 else 0}) for processed results {rs}'))
    return bad


def reachable_ops(ops: T.List[str]) -> bool:
    """can `_run_tests` produce this sequence for some --maxfail N >= 1?  `run_test` switches the flag on right after
    it processed a bad result with fail_count >= N, i.e. after a bad result when at least one FAIL / ERROR / INTERRUPT
    has been counted.  Only such sequences are judged by the oracle; the others are compared with the model only."""
    nfail, last = 0, None
    for o in ops:
        if o == '!':
            if last is None or last not in BAD or nfail < 1:
                return False
        else:
            last = o
            if GROUP[o] == 'fail':
                nfail += 1
    return True


def report_ops(ctx: Ctx) -> T.List[T.List[str]]:
    """result sequences with the --maxfail flag coming on at every point: exhaustive for up to 2 results, every
    flag position on a fixed mixed sequence, then random"""
    from mesonbuild import mtest
    rng = ctx.rng
    names = [m.name for m in mtest.TestResult if m.is_finished()]
    out: T.List[T.List[str]] = [[]]
    for n in (1, 2):
        for rs in itertools.product(names, repeat=n):
            for pos in range(-1, n + 1):
                ops = list(rs)
                if pos >= 0:
                    ops.insert(pos, '!')
                out.append(ops)
    mixed = ['OK', 'FAIL', 'INTERRUPT', 'TIMEOUT', 'INTERRUPT', 'SKIP', 'ERROR', 'INTERRUPT', 'EXPECTEDFAIL',
             'UNEXPECTEDPASS', 'IGNORED', 'INTERRUPT']
    for pos in range(len(mixed) + 1):
        out.append(mixed[:pos] + ['!'] + mixed[pos:])
    for _ in range(ctx.scale(400, 4000)):
        rs = [rng.choice(names + ['INTERRUPT', 'INTERRUPT', 'FAIL']) for _ in range(rng.randint(0, 12))]
        for _k in range(rng.choice([0, 1, 1, 1, 2])):
            spots = [i + 1 for i in range(len(rs)) if reachable_ops(rs[:i + 1] + ['!'])]
            if spots and rng.random() < 0.75:
                rs.insert(rng.choice(spots), '!')       # where `run_test` can switch the flag on
            else:
                rs.insert(rng.randint(0, len(rs)), '!')
        out.append(rs)
    return out


def direct_report(ctx: Ctx, base: str) -> None:
    """the real `process_test_result / is_bad_result / summary / total_failure_count / JsonLogfileBuilder.log` driven
    with result sequences that include the maxfail transition, on a harness built by the real constructor"""
    from .c12_inproc import SUMMARY_KEYS
    order = list(SUMMARY_KEYS.values())
    lines, impl, cases = [], [], []
    for ops in report_ops(ctx):
        try:
            rh = ReportHarness(base)
            ended = None
            for o in ops:
                if o == '!':
                    rh.reach_maxfail()
                else:
                    ended = rh.process(o) or ended
            obs = rh.observe()
        except AdapterError as e:
            adapter_failed(ctx, 'report', e)
            if sum(1 for o in ctx.obligations_failed if o.startswith('adapter:')) and ctx.dist.get('adapter-failed:report', 0) > 20:
                break       # the shape changed: no point in repeating the same failure thousands of times
            continue
        ctx.count()
        ctx.tag('direct:report')
        if '!' in ops:
            ctx.tag('direct:report-flag')
            i = ops.index('!')
            if 'INTERRUPT' in ops[i:]:
                ctx.tag('direct:report-interrupt-after-flag')
        if reachable_ops(ops):
            ctx.tag('direct:report-reachable')
        for kind, msg in (oracle_report(ops, obs) if reachable_ops(ops) else []):
            ctx.violation('report:' + kind + ':' + ','.join(ops), msg, {'stream': 'report', 'ops': ops, 'kind': kind,
                                                                        'observed': {k: v for k, v in obs.items() if k != 'summary_text'}})
        c = obs['counts']
        rows = ' '.join(f'{order.index(k)}:{v}' for k, v in sorted(obs['printed'].items(), key=lambda kv: order.index(kv[0])))
        impl.append('%s;%d;%s;%s;%d;%s;%d' % (
            ','.join(str(c[k]) for k in COUNT_KEYS), 1 if obs['total_failures'] > 0 else 0, rows,
            ','.join(obs['collected']) or '-', int(obs['flag']), ','.join(obs['logged']) or '-',
            sum(obs['printed'].values())))
        lines.append('report 0|' + ' '.join(ops))
        cases.append(ops)
    if ctx.model_available and lines:
        for line, a, b in zip(lines, impl, ctx.driver('sched', lines)):
            if a != b:
                ctx.disagreement({'kind': 'report', 'line': line, 'impl': a, 'model': b})


def o_limit(to: T.Optional[int], mult: T.Optional[float], interactive: bool = False) -> T.Optional[float]:
    """Unit-tests.md: `timeout: 0` or a negative value = infinite duration; `--timeout-multiplier` scales the limit,
    `<= 0` disables it; interactive runs have no time limit"""
    if interactive or to is None or to <= 0:
        return None
    if mult is None:
        return float(to)
    if mult <= 0:
        return None
    return to * mult


def direct_limits(ctx: Ctx, base: str) -> None:
    """`SingleTestRunner.__init__` time-limit arithmetic on the real class (through the real `get_test_runner`), then
    one-test runs of the real harness: a test that outlives its limit is TIMEOUT, one that ends before is classified
    by its exit status, a disabled limit never fires"""
    import argparse
    import contextlib
    import io
    from fractions import Fraction
    from mesonbuild import mtest
    from . import c12_inproc
    wd = os.path.join(base, 'lim')
    os.makedirs(os.path.join(wd, 'meson-logs'), exist_ok=True)
    tos = [None, -5, -1, 0, 1, 2, 3, 30]
    mults = [None, -1.0, 0.0, 0.25, 0.5, 1.0, 1.5, 2.0, 2.5]
    lines, impl = [], []

    def frac(m: T.Optional[float]) -> str:
        if m is None:
            return ''
        f = Fraction(m)
        return f'{f.numerator}/{f.denominator}'

    for to in tos:
        for m in mults:
            for inter in (False, True):
                case = {'tests': [mk_test(0, True, 0, to=to)], 'jobs': 1, 'tmult': m}
                try:
                    class Harness(mtest.TestHarness):
                        def load_metadata(self) -> None:
                            class BD:
                                project_name = 'p'
                                test_setups: dict = {}
                                test_setup_default_name = ''
                            self.build_data = BD()
                            self.tests = c12_inproc.make_tests(mtest, case)
                    parser = argparse.ArgumentParser()
                    mtest.add_arguments(parser)
                    opts = parser.parse_args(c12_inproc.cli_args(case, wd) + (['--interactive'] if inter else []))
                    opts.logbase = None
                    with contextlib.redirect_stdout(io.StringIO()):
                        with Harness(opts) as th:
                            runner = th.get_test_runner(th.tests[0], 0)
                            got = runner.timeout
                    if got is not None and not isinstance(got, (int, float)):
                        raise AdapterError(f'SingleTestRunner.timeout is {type(got).__name__}')
                except AdapterError as e:
                    adapter_failed(ctx, 'limit', e)
                    continue
                except Exception as e:
                    adapter_failed(ctx, 'limit', f'{type(e).__name__}: {e}')
                    continue
                ctx.count()
                ctx.tag('direct:limit')
                want = o_limit(to, m, inter)
                if (got is None) != (want is None) or (got is not None and float(got) != want):
                    ctx.violation(f'limit:to={to}:mult={m}:interactive={inter}',
                                  f'timeout: {to} with --timeout-multiplier {m} (interactive={inter}) gives the limit '
                                  f'{got}, documented rule says {want}',
                                  {'stream': 'limit', 'to': to, 'mult': m, 'interactive': inter})
                lines.append('limit %d|%s|%s|0' % (int(inter), '' if to is None else to, frac(m)))
                if got is None:
                    impl.append('none')
                else:
                    f = Fraction(got)
                    fm = Fraction(m) if m is not None else Fraction(1)
                    # the model keeps the multiplier's denominator
                    impl.append(f'{f * fm.denominator}/{fm.denominator}' if (f * fm.denominator).denominator == 1 else f'{f}')
    # whole runs: limit against duration
    runs: T.List[dict] = []
    for to in tos:
        for m in mults:
            for dur in (0, 1, 2, 3, 5, 8, 76):
                if dur == 76 and to != 30:
                    continue
                for rc, sf in ((0, False), (1, False), (1, True)):
                    runs.append({'tests': [mk_test(0, True, dur, rc, to=to, sf=sf)], 'jobs': 1, 'repeat': 1, 'maxfail': 0,
                                 'tmult': m})
    if not ctx.deep:
        runs = [r for i, r in enumerate(runs) if i % 3 == ctx.seed % 3]
    results = run_cases(runs, base)
    lines2 = []
    got2 = []
    for case, res in zip(runs, results):
        ctx.count()
        ctx.tag('direct:limit-run')
        for kind, msg in oracle_run(case, res):
            report(ctx, kind, msg, case)
        if res.get('error') or res.get('adapter_error'):
            continue
        t = case['tests'][0]
        rr = [e[4][0] for e in res['events'] if e[0] == 'result']
        lines2.append('limit 0|%s|%s|%d' % ('' if t['to'] is None else t['to'], frac(case['tmult']), t['dur']))
        got2.append((case, rr[0] if len(rr) == 1 else repr(rr)))
    if ctx.model_available:
        for line, a, b in zip(lines, impl, ctx.driver('sched', lines)):
            if a != b.split(';')[0]:
                ctx.disagreement({'kind': 'limit', 'line': line, 'impl': a, 'model': b})
        for line, (case, got), b in zip(lines2, got2, ctx.driver('sched', lines2)):
            w = b.split(';')[1]
            t = case['tests'][0]
            by_exit = sorted(o_classify_exit(t['rc'], t.get('sf', False), None))
            want = ['TIMEOUT'] if w == 'timedOut' else by_exit if w == 'exited' else ['TIMEOUT'] + by_exit
            if got not in want:
                ctx.disagreement({'kind': 'limit-run', 'line': line, 'case': case, 'impl': got, 'model': b})


def direct_selection(ctx: Ctx, base: str) -> None:
    """get_tests() alone: suite rule on all selector x suite-list pairs, slices for every n"""
    from mesonbuild import mtest
    from . import c12_inproc
    import argparse
    import contextlib
    import io
    rng = ctx.rng
    wd = os.path.join(base, 'sel')
    os.makedirs(os.path.join(wd, 'meson-logs'), exist_ok=True)

    def selected(case: dict):
        class Harness(mtest.TestHarness):
            def load_metadata(self) -> None:
                class BD:
                    project_name = 'p'
                    test_setups: dict = {}
                    test_setup_default_name = ''
                self.build_data = BD()
                self.tests = c12_inproc.make_tests(mtest, case)
        parser = argparse.ArgumentParser()
        mtest.add_arguments(parser)
        opts = parser.parse_args(c12_inproc.cli_args(case, wd))
        opts.logbase = None
        names = {t['name']: i for i, t in enumerate(case['tests'])}
        with contextlib.redirect_stdout(io.StringIO()):
            with Harness(opts) as th:
                try:
                    return [names[t.name] for t in th.get_tests()]
                except Exception as e:
                    return c12_inproc.sel_err(e)

    # (1) the three-way rule directly
    lines, impl = [], []
    suites_all = sorted({s for ss in SUITES for s in ss} | {'p:a:b', ':a', 'p:', ''})
    for sel in SUITE_SELS + ['', ':', 'p:a:b', 'a:']:
        for ps in suites_all:
            class TS:
                suite = [ps]
            got = mtest.TestHarness.test_in_suites(TS(), [sel])
            impl.append(str(int(got)))
            lines.append(f'suite {enc(sel)}|{enc(ps)}')
            ctx.count()
            if sel not in ('', ':') and ps not in ('',):
                if got != o_suite_match(sel, [ps]):
                    ctx.violation(f'suite:{sel}:{ps}', f'--suite {sel!r} on test suite {ps!r}: selected={got}',
                                  {'stream': 'suite', 'sel': sel, 'suite': ps})
    # (1b) positional arguments: every single argument and every pair of the pool on a fixed two-project test list
    fixed = [mk_test(0, True, 0), mk_test(1, True, 0), mk_test(2, True, 0, prj='q'), mk_test(10, True, 0),
             mk_test(11, True, 0, prj='q')]
    pool = arg_pool(fixed)
    arglists = [[a] for a in pool] + [[a, b] for a in pool for b in pool]
    if not ctx.deep:
        arglists = arglists[:len(pool)] + [al for k, al in enumerate(arglists[len(pool):]) if k % 4 == ctx.seed % 4]
    for al in arglists:
        case = {'tests': fixed, 'jobs': 1, 'args': al}
        got = selected(case)
        ctx.count()
        ctx.tag('direct:select-argpairs')
        lines.append(select_line(case))
        impl.append(got if isinstance(got, str) else ' '.join(map(str, got)))
        if o_args_refused(case):
            if not isinstance(got, str):
                ctx.violation(vkey('selection', case), f'arguments {al}: a name matches no test, yet {got} were selected',
                              {'stream': 'select', 'case': case})
        elif got != o_selected(case):
            ctx.violation(vkey('selection', case), f'arguments {al} selected {got}, documented meaning selects '
                          f'{o_selected(case)} (each named test once, in order)', {'stream': 'select', 'case': case})
    # (1c) the matcher alone (model: `*`, `?`, literals)
    import fnmatch as _fn
    for pat in ['*', 't*', 't?', '*1', 't1*', 't1', '?1', '**', '*t*1', '', 't??', 'q']:
        for sname in ['', 't', 't1', 't10', 't11', 'q', 'p', 'tt1', '1']:
            lines.append(f'glob {enc(pat)}|{enc(sname)}')
            impl.append(str(int(_fn.fnmatchcase(sname, pat))))
    # (2) whole selections with slices
    for _ in range(ctx.scale(150, 1500)):
        n = rng.randint(1, 9)
        case = {'tests': [mk_test(i, True, 0, suite=list(rng.choice(SUITES))) for i in range(n)], 'jobs': 1}
        if rng.random() < 0.5:
            case['suites'] = [rng.choice(SUITE_SELS) for _ in range(rng.randint(1, 2))]
        if rng.random() < 0.3:
            case['nosuites'] = [rng.choice(SUITE_SELS)]
        if rng.random() < 0.4:
            for t in case['tests']:
                if rng.random() < 0.3:
                    t['prj'] = 'q'
            case['args'] = rand_args(rng, case['tests'])
            ctx.tag('direct:select-args')
        base_sel = selected(case)
        want = o_selected(case)
        ctx.count()
        ctx.tag('direct:select')
        if o_args_refused(case):
            # nothing may run on a wrong name; the refusal itself is compared with the model below
            lines.append(select_line(case))
            impl.append(' '.join(map(str, base_sel)) if not isinstance(base_sel, str) else base_sel)
            if not isinstance(base_sel, str):
                ctx.violation(vkey('selection', case), f'argument list {case["args"]} has a name that matches no test, '
                              f'yet {base_sel} were selected', {'stream': 'select', 'case': case})
            continue
        if base_sel != want:
            ctx.violation(vkey('selection', case), f'selected {base_sel}, documented rule selects {want}',
                          {'stream': 'select', 'case': case})
        lines.append(select_line(case))
        impl.append(' '.join(map(str, base_sel)) if not isinstance(base_sel, str) else base_sel)
        for nsl in range(1, len(want) + 2):
            per = []
            for i in range(1, nsl + 1):
                c2 = dict(case)
                c2['slice'] = [i, nsl]
                s = selected(c2)
                per.append(s)
                lines.append(select_line(c2))
                impl.append(s if isinstance(s, str) else ' '.join(map(str, s)))
                ctx.count()
            msg = oracle_slices(want, per, nsl)
            if msg:
                c2 = dict(case)
                c2['slice_n'] = nsl
                ctx.violation(vkey('slices', c2), msg, {'stream': 'slices', 'case': case, 'n': nsl})
    if ctx.model_available:
        for line, a, b in zip(lines, impl, ctx.driver('sched', lines)):
            if a != b:
                ctx.disagreement({'kind': 'select', 'line': line, 'impl': a, 'model': b})


# ------------------------------------------------------------------ end-to-end: real `meson test`

TEST_SCRIPT = r'''#!/usr/bin/env python3
import os, signal, sys, time
tid, dur, rc, log = sys.argv[1], float(sys.argv[2]), int(sys.argv[3]), sys.argv[4]
out = sys.argv[5] if len(sys.argv) > 5 else ''
it = os.environ.get('MESON_TEST_ITERATION', '1')
def w(tag):
    fd = os.open(log, os.O_WRONLY | os.O_APPEND | os.O_CREAT, 0o644)
    os.write(fd, ('%s %s %s %.6f\n' % (tag, tid, it, time.time())).encode())
    os.close(fd)
def term(sig, frm):
    w('K')
    os._exit(143)
signal.signal(signal.SIGTERM, term)
w('S')
if out:
    sys.stdout.write(out.replace('\\n', '\n'))
    sys.stdout.flush()
time.sleep(dur)
w('E')
os._exit(rc)
'''


def e2e_project(rng, nmax: int) -> dict:
    n = rng.randint(3, nmax)
    tests = []
    for i in range(n):
        par = rng.random() < 0.65
        dur = rng.choice([0.0, 0.05, 0.1, 0.2, 0.3]) if par else rng.choice([0.0, 0.05, 0.15])
        t = mk_test(i, par, dur, rng.choice([0, 0, 0, 1, 2, 77, 99, 3]))
        t['suite'] = list(rng.choice([['a'], ['b'], ['a', 'b'], []]))
        if rng.random() < 0.25:
            t['sf'] = True
        if rng.random() < 0.1:
            t['ee'] = 3
        if rng.random() < 0.12:
            t['to'] = 1
            t['dur'] = 8.0         # far beyond the limit: must be terminated
        elif rng.random() < 0.3:
            t['to'] = 20           # far above the duration
        if rng.random() < 0.12:
            t['proto'] = 'tap'
            t['out'] = rng.choice(TAPS)[0]
            t['rc'] = rng.choice([0, 0, 1])
            t.pop('ee', None)
        tests.append(t)
    return {'tests': tests}


def write_project(src: str, proj: dict, log: str) -> None:
    os.makedirs(src, exist_ok=True)
    with open(os.path.join(src, 't.py'), 'w') as f:
        f.write(TEST_SCRIPT)
    lines = ["project('p')", f"py = find_program('{sys.executable}')", "s = files('t.py')"]
    for i, t in enumerate(proj['tests']):
        kw = [f"is_parallel: {'true' if t['par'] else 'false'}"]
        if t['suite']:
            kw.append('suite: [' + ', '.join(f"'{s}'" for s in t['suite']) + ']')
        if t.get('sf'):
            kw.append('should_fail: true')
        if t.get('ee') is not None:
            kw.append(f"expected_exitcode: {t['ee']}")
        if t.get('to') is not None:
            kw.append(f"timeout: {t['to']}")
        if t.get('proto') == 'tap':
            kw.append("protocol: 'tap'")
        args = [f"'{i}'", f"'{t['dur']}'", f"'{t['rc']}'", f"'{log}'"]
        if t.get('out'):
            args.append("'" + t['out'].replace('\n', '\\\\n') + "'")
        lines.append(f"test('{t['name']}', py, args: [s, {', '.join(args)}], {', '.join(kw)})")
    with open(os.path.join(src, 'meson.build'), 'w') as f:
        f.write('\n'.join(lines) + '\n')


def meson_cmd(args: T.List[str], cwd: str, timeout: int = 300) -> subprocess.CompletedProcess:
    env = dict(os.environ)
    env['PYTHONPATH'] = common.REPO
    env.pop('MESON_TESTTHREADS', None)
    env.pop('MESON_NUM_PROCESSES', None)
    return subprocess.run([sys.executable, os.path.join(common.REPO, 'meson.py')] + args, cwd=cwd, env=env,
                          stdout=subprocess.PIPE, stderr=subprocess.STDOUT, text=True, timeout=timeout)


def e2e_selected(proj: dict, opts: dict) -> T.List[int]:
    case = {'tests': [dict(t, suite=[('p:' + s) for s in t['suite']] or ['p']) for t in proj['tests']],
            'suites': opts.get('suites', []), 'nosuites': opts.get('nosuites', []), 'args': opts.get('args', [])}
    return o_selected(case)


def e2e_oracle(proj: dict, opts: dict, p: subprocess.CompletedProcess, loglines: T.List[str], jl: T.List[dict],
               sel: T.List[int]) -> T.List[T.Tuple[str, str]]:
    from .c12_inproc import parse_summary
    bad = []
    tests = proj['tests']
    jobs, R, maxfail = opts['jobs'], opts.get('repeat', 1), opts.get('maxfail', 0)
    alive: T.Dict[T.Tuple[int, int], bool] = {}
    started: T.Dict[T.Tuple[int, int], int] = {}
    ended: T.Dict[T.Tuple[int, int], str] = {}
    # a test killed so hard that it could not write its K line has an unknown end: keep it out of the overlap
    # bookkeeping (no false alarm), it still counts as started
    has_end = {(int(l.split()[1]), int(l.split()[2]) - 1) for l in loglines if l[:1] in 'EK'}
    for line in loglines:
        tag, tid, it, _ts = line.split()
        k = (int(tid), int(it) - 1)
        if tag == 'S':
            started[k] = started.get(k, 0) + 1
            if started[k] > 1:
                bad.append(('started-twice', f'test {k[0]} started twice in repetition {k[1]}'))
            if k[0] not in sel:
                bad.append(('unselected-started', f'test {k[0]} started but was not selected'))
            for j in alive:
                if not tests[j[0]]['par'] or not tests[k[0]]['par']:
                    bad.append(('serial-overlap', f'test {k[0]} started while test {j[0]} was running '
                                f'(parallel: {tests[k[0]]["par"]}, {tests[j[0]]["par"]})'))
            if k in has_end:
                alive[k] = True
            if len(alive) > jobs:
                bad.append(('job-bound', f'{len(alive)} tests running with --num-processes {jobs}'))
        else:
            ended[k] = tag
            alive.pop(k, None)
    by = {}
    for j in jl:
        by[(j['name'].split(':')[-1], j['iter'])] = j
    results = {}
    notrep: T.List[T.Tuple[int, int]] = []
    for k in started:
        t = tests[k[0]]
        j = by.get((t['name'], k[1]))
        if j is None:
            notrep.append(k)
            continue
        results[k] = j['result']
        got = j['result']
        if t.get('to') == 1:
            if got != 'TIMEOUT' and got != 'INTERRUPT':
                bad.append(('misclassified', f'test {k[0]} exceeds its 1s limit but is reported {got}'))
            if ended.get(k) == 'E':
                bad.append(('timeout-ignored', f'test {k[0]} ran to its end ({t["dur"]}s) despite timeout 1'))
        elif ended.get(k) == 'E':
            if t.get('proto') == 'tap':
                exp = o_classify_tap(t['out'], t['rc'], t.get('sf', False))
                exp_set = {exp} if exp else None
            else:
                exp_set = o_classify_exit(t['rc'], t.get('sf', False), t.get('ee'))
            if exp_set is not None and got not in exp_set and not (maxfail > 0 and got == 'INTERRUPT'):
                bad.append(('misclassified', f'test {k[0]} exit status {t["rc"]} should_fail={t.get("sf", False)} '
                            f'reported {got}, documented rule says {sorted(exp_set)}'))
            if j['returncode'] != t['rc']:
                bad.append(('returncode', f'test {k[0]} exited {t["rc"]} but testlog.json says {j["returncode"]}'))
        else:
            if got != 'INTERRUPT':
                bad.append(('misclassified', f'test {k[0]} was terminated early but reported {got}'))
    # a test killed before its interpreter could write its start line (slow machine) still is a started test
    name_idx = {t['name']: i for i, t in enumerate(tests)}
    early_killed = 0
    for (nm, it), j in by.items():
        k = (name_idx.get(nm, -1), it)
        if k not in started:
            if j['result'] in ('TIMEOUT', 'INTERRUPT'):
                early_killed += 1
                results[k] = j['result']
            else:
                bad.append(('phantom-result', f'testlog.json reports {nm} iteration {it} ({j["result"]}) which never started'))
    if len(jl) != len(started) + early_killed:
        bad.append(('testlog-json', f'{len(jl)} entries in testlog.json for {len(started)} started tests'))
    nbad = sum(1 for r in results.values() if r in BAD)
    cut_allowed = (maxfail > 0 and nbad >= maxfail) or (R > 1 and nbad >= 1)
    for k in notrep:
        bad.append(('not-reported', f'test {k[0]} iteration {k[1]} started but is not in testlog.json'))
    missing = [(i, it) for it in range(R) for i in sel if (i, it) not in started and (i, it) not in results]
    if missing and not cut_allowed:
        bad.append(('not-started', f'selected tests never started although the run was not cut short: {missing[:6]}'))
    tally = {k: 0 for k in COUNT_KEYS}
    for r in results.values():
        tally[GROUP.get(r, 'ok')] += 1
    ps = parse_summary(p.stdout)
    if sel and {k: ps.get(k, 0) for k in COUNT_KEYS} != tally:
        bad.append(('printed-totals', f'printed totals {ps} differ from the tally of testlog.json {tally}'))
    want_exit = 1 if nbad else 0
    if p.returncode != want_exit:
        bad.append(('exit-status', f'exit status {p.returncode} with {nbad} bad results'))
    return bad


RACE_A = r'''#!/usr/bin/env python3
import os, signal, sys, time
flag, n, k = sys.argv[1], int(sys.argv[2]), int(sys.argv[3])
def term(sig, frm):
    buf = []
    for i in range(1, n + 1):
        buf.append('ok %d\n' % i)
        if len(buf) == 500:
            os.write(1, ''.join(buf).encode()); buf = []
        if i == n - k:
            if buf:
                os.write(1, ''.join(buf).encode()); buf = []
            open(flag, 'w').close()
    if buf:
        os.write(1, ''.join(buf).encode())
    os._exit(0)
signal.signal(signal.SIGTERM, term)
os.write(1, ('1..%d\n' % n).encode())
time.sleep(60)
'''
RACE_B = r'''#!/usr/bin/env python3
import os, sys, time
flag = sys.argv[1]
while not os.path.exists(flag):
    time.sleep(0.0002)
os._exit(1)
'''


def e2e_cancel_race(ctx: Ctx, runs: int) -> None:
    """regression for the (repaired) lost-result defect with the real command: TAP test `a` (timeout 1) floods its
    output while it is being terminated; test `b` fails at that moment, so `--maxfail 1` cancels the run while `a` is
    being killed / collected.  `a` was started, so it must be reported."""
    base = common.scratch_dir('mverif-c12r-')
    try:
        src, bld = os.path.join(base, 'src'), os.path.join(base, 'b')
        os.makedirs(src)
        flag = os.path.join(base, 'flag')
        open(os.path.join(src, 'a.py'), 'w').write(RACE_A)
        open(os.path.join(src, 'b.py'), 'w').write(RACE_B)
        for i in range(runs):
            k = [1000, 0, 3000][i % 3]
            open(os.path.join(src, 'meson.build'), 'w').write(
                "project('p')\npy = find_program('%s')\n"
                "test('a', py, args: [files('a.py'), '%s', '20000', '%d'], protocol: 'tap', timeout: 1)\n"
                "test('b', py, args: [files('b.py'), '%s'])\n" % (sys.executable, flag, k, flag))
            common.rmtree(bld)
            p = meson_cmd(['setup', '--backend=none', bld, src], base)
            if p.returncode != 0:
                raise common.ToolFailure('meson setup failed: ' + p.stdout[-600:])
            if os.path.exists(flag):
                os.unlink(flag)
            p = meson_cmd(['test', '--no-rebuild', '-C', bld, '--maxfail', '1', '--num-processes', '2'], base)
            jl = {}
            jpath = os.path.join(bld, 'meson-logs', 'testlog.json')
            if os.path.exists(jpath):
                for line in open(jpath, encoding='utf-8'):
                    if line.strip():
                        j = json.loads(line)
                        jl[j['name'].split(':')[-1]] = j['result']
            ctx.count()
            ctx.tag('e2e:cancel-race')
            from .c12_inproc import parse_summary
            ps = parse_summary(p.stdout)
            case = {'stream': 'e2e-cancel-race', 'k': k, 'testlog': jl, 'printed': ps, 'exit': p.returncode}
            if not os.path.exists(flag):
                continue        # `a` never got as far as being terminated (machine too slow): nothing to judge
            if 'a' not in jl:
                ctx.violation('e2e:not-reported:cancel-race', 'test a (TAP, timeout 1) was started and terminated at its '
                              'limit while --maxfail 1 cancelled the run, but it is neither in testlog.json nor in the '
                              f'totals: testlog.json {jl}, printed {ps}', case)
            elif jl['a'] not in ('TIMEOUT', 'INTERRUPT'):
                ctx.violation('e2e:misclassified:cancel-race', f'test a exceeded its limit but is reported {jl["a"]}', case)
            tally = {k2: 0 for k2 in COUNT_KEYS}
            for r in jl.values():
                tally[GROUP.get(r, 'ok')] += 1
            if {k2: ps.get(k2, 0) for k2 in COUNT_KEYS} != tally:
                ctx.violation('e2e:printed-totals:cancel-race', f'printed totals {ps} differ from testlog.json {jl}', case)
    finally:
        common.rmtree(base)


def inflight_project(rng) -> T.Tuple[dict, dict]:
    """a project for `--maxfail N` with tests in flight: long parallel sleepers listed first (they are running when
    the N-th failure arrives and must be terminated), N quick failures, and a few tests of the other classes"""
    nsleep = rng.randint(2, 4)
    maxfail = rng.choice([1, 1, 2])
    tests: T.List[dict] = []
    for _ in range(nsleep):
        t = mk_test(len(tests), True, 30.0, 0)
        if rng.random() < 0.3:
            t['sf'] = True
        tests.append(t)
    for j in range(maxfail):
        tests.append(mk_test(len(tests), True, 0.6 + 0.4 * j, rng.choice([1, 2, 99])))
    extra = [mk_test(0, True, 0.0, 0), mk_test(0, True, 0.05, 77), mk_test(0, True, 0.0, 1, sf=True),
             mk_test(0, True, 0.1, 0, sf=True), mk_test(0, True, 0.0, 3, ee=3)]
    rng.shuffle(extra)
    for t in extra[:rng.randint(1, 4)]:
        t['name'] = f't{len(tests)}'
        tests.append(t)
    for t in tests:
        t['suite'] = []
    return {'tests': tests}, {'jobs': len(tests) + rng.randint(0, 2), 'maxfail': maxfail}


def e2e_maxfail_inflight(ctx: Ctx, nruns: int) -> None:
    """real `meson test --maxfail N` cut short while other tests are running: the printed summary is compared with
    testlog.json (and with the test programs' own start log): every started test is in testlog.json, the printed
    totals equal the tally of the testlog.json results and add up to their number, exit status 1"""
    rng = ctx.rng
    base = common.scratch_dir('mverif-c12m-')
    try:
        for ri in range(nruns):
            proj, o = inflight_project(rng)
            src, bld, log = os.path.join(base, f'p{ri}'), os.path.join(base, f'b{ri}'), os.path.join(base, f'log{ri}.txt')
            write_project(src, proj, log)
            p = meson_cmd(['setup', '--backend=none', bld, src], base)
            if p.returncode != 0:
                raise common.ToolFailure('meson setup failed: ' + p.stdout[-600:])
            p = meson_cmd(['test', '--no-rebuild', '-C', bld, '--num-processes', str(o['jobs']),
                           '--maxfail', str(o['maxfail'])], base)
            loglines = open(log).read().split('\n')[:-1] if os.path.exists(log) else []
            jl = []
            jpath = os.path.join(bld, 'meson-logs', 'testlog.json')
            if os.path.exists(jpath):
                for line in open(jpath, encoding='utf-8'):
                    if line.strip():
                        j = json.loads(line)
                        jl.append({'name': j['name'], 'result': j['result'], 'returncode': j['returncode'],
                                   'iter': int(j['env'].get('MESON_TEST_ITERATION', '1')) - 1})
            ctx.count()
            ctx.tag('e2e:maxfail-inflight')
            ninter = sum(1 for j in jl if j['result'] == 'INTERRUPT')
            ctx.tag('e2e:maxfail-inflight-interrupted-tests', ninter)
            if not ninter:
                ctx.tag('e2e:maxfail-inflight-vacuous')      # machine too slow / too fast: nothing was in flight
            sel = list(range(len(proj['tests'])))
            case = {'stream': 'e2e-maxfail-inflight', 'project': proj, 'opts': o, 'seed': ctx.seed}
            from .c12_inproc import parse_summary
            ps = parse_summary(p.stdout)
            bad = e2e_oracle(proj, o, p, loglines, jl, sel)
            if jl and sum(ps.values()) != len(jl):
                bad.append(('totals-add-up', f'printed totals {ps} add up to {sum(ps.values())} but testlog.json '
                            f'reports {len(jl)} tests: {[(j["name"].split(":")[-1], j["result"]) for j in jl]}'))
            for kind, msg in bad:
                ctx.violation('e2e:' + kind + ':' + json.dumps([proj, o], sort_keys=True), msg,
                              dict(case, kind=kind, stdout=p.stdout[-800:], log=loglines[:40]))
            if bad:
                return
    finally:
        common.rmtree(base)


def e2e_stream(ctx: Ctx, nproj: int, nruns: int) -> None:
    rng = ctx.rng
    base = common.scratch_dir('mverif-c12-')
    try:
        for pi in range(nproj):
            proj = e2e_project(rng, 8)
            src = os.path.join(base, f'p{pi}')
            bld = os.path.join(base, f'b{pi}')
            log = os.path.join(base, f'log{pi}.txt')
            write_project(src, proj, log)
            p = meson_cmd(['setup', '--backend=none', bld, src], base)
            if p.returncode != 0:
                raise common.ToolFailure('meson setup failed: ' + p.stdout[-600:])
            runs = [{'jobs': rng.randint(1, 4)}]
            for _ in range(nruns - 1):
                o = {'jobs': rng.randint(1, 5)}
                k = rng.random()
                if k < 0.25:
                    o['repeat'] = 2
                elif k < 0.45:
                    o['maxfail'] = rng.randint(1, 2)
                elif k < 0.65:
                    o['suites'] = [rng.choice(['a', 'b', 'p:a', ':b', 'p'])]
                elif k < 0.75:
                    o['nosuites'] = [rng.choice(['a', 'b'])]
                runs.append(o)
            # positional names: one run with overlapping arguments (a name and a pattern / project form covering it)
            tn = rng.choice(proj['tests'])['name']
            runs.append({'jobs': rng.randint(1, 4), 'args': rng.choice([[tn, 't*'], ['*', tn], ['p:', tn], [tn, 'p:' + tn],
                                                                         ['t?', ':' + tn]])})
            # slices: every i for one n
            nsl = rng.randint(2, 3)
            runs += [{'jobs': 3, 'slice': [i, nsl]} for i in range(1, nsl + 1)]
            slice_names: T.List[T.List[str]] = []
            for o in runs:
                if os.path.exists(log):
                    os.unlink(log)
                args = ['test', '--no-rebuild', '-C', bld, '--num-processes', str(o['jobs'])]
                if o.get('repeat'):
                    args += ['--repeat', str(o['repeat'])]
                if o.get('maxfail'):
                    args += ['--maxfail', str(o['maxfail'])]
                for s in o.get('suites', []):
                    args += ['--suite', s]
                for s in o.get('nosuites', []):
                    args += ['--no-suite', s]
                if o.get('slice'):
                    args += ['--slice', '%d/%d' % tuple(o['slice'])]
                args += o.get('args', [])
                if o.get('args'):
                    ctx.tag('e2e:name-args')
                p = meson_cmd(args, base)
                loglines = open(log).read().split('\n')[:-1] if os.path.exists(log) else []
                jl = []
                jpath = os.path.join(bld, 'meson-logs', 'testlog.json')
                if os.path.exists(jpath) and loglines:
                    for line in open(jpath, encoding='utf-8'):
                        if line.strip():
                            j = json.loads(line)
                            jl.append({'name': j['name'], 'result': j['result'], 'returncode': j['returncode'],
                                       'iter': int(j['env'].get('MESON_TEST_ITERATION', '1')) - 1})
                sel = e2e_selected(proj, o)
                if o.get('slice'):
                    i, n = o['slice']
                    if n > len(sel):
                        continue
                    names = sorted({l.split()[1] for l in loglines if l.startswith('S ')})
                    slice_names.append(names)
                    sel_run = sorted(int(x) for x in names)      # partition is checked below; per-run checks use what ran
                else:
                    sel_run = sel
                ctx.count()
                ctx.tag('e2e:run')
                case = {'stream': 'e2e', 'project': proj, 'opts': o, 'seed': ctx.seed}
                e2e_bad = e2e_oracle(proj, o, p, loglines, jl, sel_run)
                for kind, msg in e2e_bad:
                    key = kind[6:] if kind.startswith('KNOWN:') else 'e2e:' + kind + ':' + json.dumps([proj, o], sort_keys=True)
                    ctx.violation(key, msg, dict(case, kind=kind, stdout=p.stdout[-800:], log=loglines[:40]))
                if e2e_bad and len(ctx.violations) >= 3:
                    return          # enough failing inputs; do not spend minutes on a broken tree
                # the model must accept the logged trace as well
                # the test programs' own log orders S lines after the harness-level start and E lines before
                # the harness-level report; that is harmless for the model unless the order of reports and
                # starts decides a cut (--repeat / --maxfail with a bad result), so those runs are not replayed
                cut_run = (o.get('repeat', 1) > 1 or o.get('maxfail', 0) > 0) and any(j['result'] in BAD for j in jl)
                if ctx.model_available and sel_run and loglines and not cut_run:
                    pos = {i: q for q, i in enumerate(sel_run)}
                    evs = []
                    res_by = {(j['name'].split(':')[-1], j['iter']): j['result'] for j in jl}
                    for line in loglines:
                        tag, tid, it, _ = line.split()
                        tid, it = int(tid), int(it) - 1
                        if tid not in pos:
                            evs = None
                            break
                        k = it * len(sel_run) + pos[tid]
                        if tag == 'S':
                            evs.append(f's{k}')
                        else:
                            r = res_by.get((proj['tests'][tid]['name'], it))
                            if r:
                                evs.append(f'r{k}:{r}')
                    if evs is not None:
                        par = ' '.join('1' if proj['tests'][i]['par'] else '0' for i in sel_run)
                        line = f'trace {o["jobs"]}|{o.get("repeat", 1)}|{o.get("maxfail", 0)}|{par}|{" ".join(evs)}'
                        a = ctx.driver('sched', [line])[0]
                        if a.startswith('ok '):
                            ctx.extra['traces_validated_against_impl'] = ctx.extra.get('traces_validated_against_impl', 0) + 1
                            ctx.tag('e2e:trace-accepted')
                        else:
                            ctx.disagreement({'kind': 'e2e-trace-rejected', 'case': case, 'model': a, 'line': line})
            if slice_names and len(slice_names) == nsl:
                allsel = sorted(str(i) for i in e2e_selected(proj, {}))
                flat = sorted(x for s in slice_names for x in s)
                if flat != allsel:
                    ctx.violation('e2e:slices:' + json.dumps(proj, sort_keys=True),
                                  f'--slice i/{nsl} for all i ran {slice_names}, not a partition of {allsel}',
                                  {'stream': 'e2e', 'project': proj, 'n': nsl})
    finally:
        common.rmtree(base)


# ------------------------------------------------------------------ run / search / replay

def run(ctx: Ctx) -> None:
    rng = ctx.rng
    ctx.rule = ('in-process traces of the real scheduler: corpus, every parallel/serial pattern x durations {0,1,2} x jobs 1..3 '
                'up to 3 (quick) / 4 (thorough) tests, adversarial families for jobs 1..5, random cases with '
                '--repeat/--maxfail/--suite/--slice/timeouts/should_fail/TAP; a trace is non-trivial when it has more '
                'than two events, counted distinct by (event sequence with results, jobs). Plus exhaustive '
                'classification table, reporting-state runs (result sequences x every point at which --maxfail is reached, on a '
                'harness built by the real constructor, with a real testlog.json writer), time-limit arithmetic grid '
                '(timeout x --timeout-multiplier x --interactive x duration), suite/slice selections, and real `meson test` '
                'runs incl. --maxfail cutting a run with tests in flight (printed summary against testlog.json).')
    ctx.assumptions += TRUSTED
    base = common.scratch_dir('mverif-c12i-')
    validated = 0
    try:
        validated += check_batch(ctx, corpus_cases() + list(adversarial_cases()), base, 'gen:corpus+adversarial')
        validated += check_batch(ctx, list(exhaustive_cases(ctx.scale(3, 4))), base, 'gen:exhaustive')
        validated += check_batch(ctx, [rand_case(rng) for _ in range(ctx.scale(2500, 30000))], base, 'gen:random')
        validated += check_batch(ctx, [rand_case(rng, big=True) for _ in range(ctx.scale(500, 6000))], base, 'gen:random-big')
        direct_classification(ctx)
        direct_report(ctx, base)
        direct_limits(ctx, base)
        direct_selection(ctx, base)
    finally:
        common.rmtree(base)
    ctx.extra['traces_validated_against_impl'] = ctx.extra.get('traces_validated_against_impl', 0) + validated
    e2e_stream(ctx, ctx.scale(1, 10), ctx.scale(3, 7))
    e2e_cancel_race(ctx, ctx.scale(2, 6))
    e2e_maxfail_inflight(ctx, ctx.scale(2, 8))
    from . import c12_live
    c12_live.run_leg(ctx, ctx.deep)
    ctx.exhaustive = False
    if os.environ.get('VERIF_C12_DEBUG'):
        for d in ctx.disagreements[:10]:
            print('DISAGREEMENT', json.dumps(d, default=repr)[:3000])


def neighbours(rng, case: dict) -> T.Iterable[dict]:
    yield case
    for jobs in range(1, 6):
        c = json.loads(json.dumps(case))
        c['jobs'] = jobs
        yield c
    for _ in range(40):
        c = json.loads(json.dumps(case))
        for t in c['tests']:
            if rng.random() < 0.5:
                t['dur'] = rng.choice(DURS)
            if rng.random() < 0.2:
                t['par'] = not t['par']
            if rng.random() < 0.2:
                t['rc'] = rng.choice(RCS)
        c['maxfail'] = rng.choice([0, c.get('maxfail', 0), 1])
        c['repeat'] = rng.choice([1, c.get('repeat', 1), 2])
        yield c


def search(ctx: Ctx, disagreements: T.List[dict]) -> None:
    """failing-input search: the oracle alone, around the disagreeing cases and on a deeper random family"""
    rng = ctx.rng
    base = common.scratch_dir('mverif-c12s-')
    try:
        cases: T.List[dict] = []
        for d in disagreements[:20]:
            c = d.get('case')
            if isinstance(c, dict) and 'tests' in c:
                cases += list(neighbours(rng, c))
        cases += list(adversarial_cases())
        cases += [rand_case(rng, big=True) for _ in range(6000)]
        results = run_cases(cases, base)
        for case, res in zip(cases, results):
            for kind, msg in oracle_run(case, res):
                report(ctx, kind, msg, case)
            if ctx.violations:
                return
        # classification / tally tables directly
        model = ctx.model_available
        ctx.model_available = False
        try:
            direct_classification(ctx)
            direct_report(ctx, base)
            direct_limits(ctx, base)
            direct_selection(ctx, base)
        finally:
            ctx.model_available = model
    finally:
        common.rmtree(base)


def replay(ctx: Ctx, rep: dict) -> None:
    case = rep.get('case', {})
    print('replay:', rep.get('what'))
    if case.get('stream') == 'inproc' or 'tests' in case:
        c = case.get('case', case)
        base = common.scratch_dir('mverif-c12r-')
        try:
            res = run_cases([c], base)[0]
            print('case:', json.dumps(c))
            print('events:')
            for e in res.get('events', []):
                print('  ', e)
            print('counts:', res.get('counts'), 'printed:', res.get('summary'), 'exit:', res.get('exit'), 'error:', res.get('error'))
            print('oracle:', oracle_run(c, res))
            tl = trace_line(c, res)
            if tl and ctx.model_available:
                print('model :', ctx.driver('sched', [tl])[0])
        finally:
            common.rmtree(base)
    elif case.get('stream') == 'e2e-liveness':
        from . import c12_live
        c12_live.run_leg(ctx, True)
        print('violations:', [v['what'] for v in ctx.violations])
    elif case.get('stream') == 'e2e-maxfail-inflight':
        e2e_maxfail_inflight(ctx, 4)
        print('violations:', [v['what'] for v in ctx.violations])
    elif case.get('stream') == 'report':
        base = common.scratch_dir('mverif-c12r-')
        try:
            rh = ReportHarness(base)
            for o in case['ops']:
                rh.reach_maxfail() if o == '!' else rh.process(o)
            obs = rh.observe()
            print('ops:', case['ops'])
            print('observed:', {k: v for k, v in obs.items() if k != 'summary_text'})
            print('oracle:', oracle_report(case['ops'], obs))
            if ctx.model_available:
                print('model :', ctx.driver('sched', ['report 0|' + ' '.join(case['ops'])])[0])
        except AdapterError as e:
            print('adapter failed:', e)
        finally:
            common.rmtree(base)
    elif case.get('stream') == 'limit':
        print('documented rule:', o_limit(case['to'], case['mult'], case['interactive']))
    elif case.get('stream') == 'e2e-cancel-race':
        e2e_cancel_race(ctx, 3)
        print('violations:', [v['what'] for v in ctx.violations])
    elif case.get('stream') == 'classify':
        print('oracle rule:', sorted(o_classify_exit(case['rc'], case['sf'], case.get('ee'))))
        if ctx.model_available:
            print('model:', ctx.driver('sched', ['classify exit|exit|%d|%s|%d' % (
                case['rc'], '' if case.get('ee') is None else case['ee'], int(case['sf']))]))
    else:
        print(json.dumps(case)[:2000])
