"""C18 byte-level leg: from the BYTES a TAP test program writes to the events / verdict meson reports.

What the other legs of C18 cannot see is the layer between the program's stdout and TAPParser:
`mtest.read_decode` (StreamReader.readuntil + decode + CRLF folding), `queue_iter`, `TestSubprocess`
(`stdout_lines`, `communicate`), `SingleTestRunner._run_cmd/_run_subprocess`.  Three paths, same oracle:

  a1  real `read_decode` + `queue_iter` + `TestRunTAP.parse/complete` on a real `asyncio.StreamReader`
      (limit harvested from the live code) fed with controlled chunking          — many cases, deterministic
  a2  real `SingleTestRunner.run` spawning a real child that writes the bytes to a real pipe with a
      controlled write/flush/sleep pattern                                        — fewer cases
  b   real `meson setup` + `meson test` on a generated project, results read from testlog.json / junit

Spec of the layer (stated from mtest's behaviour, independent of its code): the line stream is the byte stream
cut after every b'\\n' (a last unterminated piece is a line too); each line is decoded as UTF-8 if it is valid
UTF-8, else as ISO-8859-1; "\\r\\n" counts as "\\n"; a lone "\\r" is ordinary white space; no byte is lost.
The oracle is the regex-free reference TAP consumer of harness/c18.py applied to the structured lines the
generator rendered into those bytes, plus "joining the lines gives back the bytes".

Lines whose content is longer than the StreamReader limit are handed over in pieces by the unchanged code
(LimitOverrunError branch).  For such lines the oracle demands what the property fixes — one subtest with the
right number and status, the verdict, no byte lost — and accepts a truncated name/explanation (a prefix) and
extra unknown-line events; the generator only puts inert filler there.  That the tail of such a line can be
mis-read as TAP is a recorded finding (key SPLIT_KEY).
"""
from __future__ import annotations

import argparse
import ast
import asyncio
import inspect
import json
import os
import subprocess
import sys
import textwrap
import typing as T
import unittest.mock
import xml.etree.ElementTree as et

from . import common
from .common import Ctx

SPLIT_KEY = 'overlong-line-split-tail-parsed-as-TAP'

EMIT = textwrap.dedent('''\
    import json, os, sys, time
    data = open(sys.argv[1], 'rb').read()
    spec = json.loads(sys.argv[2])
    pos = 0
    def put(b):
        while b:
            b = b[os.write(1, b):]
    for n, ms in spec:
        put(data[pos:pos + n]); pos += n
        if ms:
            time.sleep(ms / 1000.0)
    put(data[pos:])
    sys.exit(int(sys.argv[3]))
    ''')


# ------------------------------------------------------------------ the limit, from the live code

def static_limit(M) -> T.Optional[int]:
    """`limit=` passed to create_subprocess_exec in SingleTestRunner._run_subprocess, if it is a literal"""
    try:
        tree = ast.parse(textwrap.dedent(inspect.getsource(M.SingleTestRunner._run_subprocess)))
    except (OSError, TypeError, SyntaxError):
        return None
    for node in ast.walk(tree):
        if isinstance(node, ast.Call) and getattr(node.func, 'attr', '') == 'create_subprocess_exec':
            for kw in node.keywords:
                if kw.arg == 'limit':
                    try:
                        return int(ast.literal_eval(kw.value))
                    except (ValueError, SyntaxError):
                        try:
                            return int(eval(compile(ast.Expression(kw.value), '<limit>', 'eval'), {'asyncio': asyncio}))
                        except Exception:
                            return None
    return None


class _H:
    def log_subtest(self, *a: T.Any) -> None:
        pass

    def log_start_test(self, *a: T.Any) -> None:
        pass


def mk_serialisation(M, fname: T.List[str], name: str):
    from mesonbuild.backend.backends import TestSerialisation, TestProtocol
    from mesonbuild.mesonlib import EnvironmentVariables
    from mesonbuild import coredata
    return TestSerialisation(
        name=name, project_name='p', suite=['p'], fname=fname, is_cross_built=False, exe_wrapper=None,
        needs_exe_wrapper=False, is_parallel=True, cmd_args=[], env=EnvironmentVariables(), expected_fail=False,
        expected_exitcode=0, timeout=60, workdir=None, extra_paths=[], protocol=TestProtocol.TAP, priority=0,
        cmd_is_built=False, cmd_is_exe=False, depends=[], version=coredata.version, verbose=False,
        exe_fname=fname[0])


def mk_options(M) -> argparse.Namespace:
    parser = argparse.ArgumentParser()
    M.add_arguments(parser)
    return parser.parse_args(['--no-rebuild', '--num-processes', '1'])


async def _pipe_run(M, options, cmd: T.List[str], seen_limit: T.List[int]):
    real = asyncio.create_subprocess_exec

    async def spy(*a: T.Any, **kw: T.Any):
        p = await real(*a, **kw)
        if p.stdout is not None:
            seen_limit.append(getattr(p.stdout, '_limit', -1))
        return p
    test = mk_serialisation(M, cmd, 'bytes')
    runner = M.SingleTestRunner(test, dict(os.environ), 'bytes', options)
    with unittest.mock.patch.object(asyncio, 'create_subprocess_exec', spy):
        return await runner.run(_H())


def harvest_limit(M, workdir: str) -> int:
    """the StreamReader limit of a test's stdout pipe: observed on one real run, cross-checked with the source"""
    emit = os.path.join(workdir, 'emit.py')
    data = os.path.join(workdir, 'probe.bin')
    with open(data, 'wb') as f:
        f.write(b'ok\n')
    seen: T.List[int] = []
    asyncio.run(_pipe_run(M, mk_options(M), [sys.executable, emit, data, '[]', '0'], seen))
    st = static_limit(M)
    dyn = seen[0] if seen and seen[0] > 0 else None
    if dyn is None:
        dyn = st if st is not None else asyncio.streams._DEFAULT_LIMIT  # type: ignore[attr-defined]
    return dyn


# ------------------------------------------------------------------ byte streams with known meaning

def dec(raw: bytes) -> str:
    """the documented decoding of one line"""
    try:
        return raw.decode('utf-8')
    except UnicodeDecodeError:
        return raw.decode('iso-8859-1')


JUNK = [b'\xff', b'\xfe\xff', b'\xc3', b'\x80', b'\x00', b'\xe2\x82', b'\xc3\xa9', b'\xe2\x82\xac', b'\r', b'\x00\x00', b'\xed\xa0\x80']


class BLine(T.NamedTuple):
    raw: bytes            # content without terminator
    item: T.Any           # c18.Item with decoded text
    is_test: bool


def b_test(C, ok: bool, num: T.Optional[int], name: bytes, directive: T.Optional[str], expl: bytes) -> BLine:
    raw = b'ok' if ok else b'not ok'
    if num is not None:
        raw += b' %d' % num
    if name:
        raw += b' ' + name
    if directive is not None:
        raw += b' # ' + directive.encode()
        if expl:
            raw += b' ' + expl
    codec = 'utf-8'
    try:
        raw.decode('utf-8')
    except UnicodeDecodeError:
        codec = 'iso-8859-1'
    nm, ex = name.decode(codec), expl.decode(codec)
    return BLine(raw, C.Item('test', dec(raw), (ok, num, nm, directive, (ex or None) if directive is not None else None)), True)


def b_other(C, kind: str, raw: bytes, a: T.Any = None) -> BLine:
    return BLine(raw, C.Item(kind, dec(raw), a), False)


def pad_to(raw_prefix: bytes, total: int) -> bytes:
    return raw_prefix + b'x' * max(0, total - len(raw_prefix))


def gen_case(C, rng, limit: int, long_len: T.Optional[int], small: bool = False) -> dict:
    """a mostly valid TAP byte stream; `long_len` = content length of one designated line (None: all short)"""
    lines: T.List[BLine] = []
    v13 = rng.random() < 0.4
    if v13:
        lines.append(b_other(C, 'version', b'TAP version 13', 13))
    n = rng.randint(1, 3 if small else 7)
    plan_at = rng.choice(['early', 'late', 'none'])
    planned = rng.choice([n, n, n, n + 1, max(0, n - 1)])
    if plan_at == 'early':
        lines.append(b_other(C, 'plan', b'1..%d' % planned, (planned, None, None)))
    allow_yaml = v13 and long_len is None
    for i in range(n):
        r = rng.random()
        ok = rng.random() < 0.65
        num = None if rng.random() < 0.5 else i + 1
        name = rng.choice([b'', b'abc', b'first test', b'x-1', b'sp  aced'])
        if rng.random() < 0.25:
            name = b'a' + rng.choice(JUNK) + b'b'
        directive = None if r < 0.6 else rng.choice(['SKIP', 'skip', 'TODO', 'todo', 'SKIPPED'])
        expl = rng.choice([b'', b'why', b'not yet']) if directive is not None else b''
        if directive is not None and expl and rng.random() < 0.2:
            expl = b'c' + rng.choice(JUNK[:8]) + b'd'
        lines.append(b_test(C, ok, num, name, directive, expl))
        if allow_yaml and rng.random() < 0.25:
            lines.append(b_other(C, 'ystart', b'  ---', '  '))
            for _ in range(rng.randint(0, 2)):
                lines.append(b_other(C, 'ybody', b'  ' + rng.choice([b'k: v', b'ok 9 hidden', b'msg: "\xff"', b'1..3'])))
            lines.append(b_other(C, 'yend', b'  ...'))
        r2 = rng.random()
        if r2 < 0.15:
            lines.append(b_other(C, 'diag', b'# ' + rng.choice([b'note', b'ok 1', b'\xff\xfe', b'caf\xc3\xa9'])))
        elif r2 < 0.22:
            lines.append(b_other(C, 'blank', rng.choice([b'', b'  ', b'\t'])))
        elif r2 < 0.28:
            lines.append(b_other(C, 'junk', rng.choice([b'hello', b'PASS: x', b'Ok 1', b'\xffok', b'\x00ok 1'])))
        elif r2 < 0.31:
            lines.append(b_other(C, 'bail', b'Bail out! stop', 'stop'))
    if plan_at == 'late':
        lines.append(b_other(C, 'plan', b'1..%d' % planned, (planned, None, None)))
    long_idx = None
    if long_len is not None:
        kind = rng.choice(['test-name', 'test-name', 'test-expl', 'diag', 'junk'])
        ok = rng.random() < 0.5
        if kind == 'test-name':
            pre = (b'ok' if ok else b'not ok') + b' - '
            raw = pad_to(pre, long_len)
            bl = BLine(raw, C.Item('test', dec(raw), (ok, None, dec(raw[len(pre) - 2:]), None, None)), True)
            if len(raw) <= len(pre):   # tiny lengths: a bare status line
                raw = (b'ok' if ok else b'not ok')
                bl = BLine(raw, C.Item('test', dec(raw), (ok, None, '', None, None)), True)
        elif kind == 'test-expl':
            d = rng.choice(['SKIP', 'TODO'])
            pre = (b'ok' if ok else b'not ok') + b' t # ' + d.encode() + b' '
            raw = pad_to(pre, max(long_len, len(pre) + 1))
            bl = BLine(raw, C.Item('test', dec(raw), (ok, None, 't', d, dec(raw[len(pre):]))), True)
        elif kind == 'diag':
            raw = pad_to(b'# ', long_len)
            bl = b_other(C, 'diag', raw)
        else:
            raw = pad_to(b'x', long_len)
            bl = b_other(C, 'junk', raw)
        where = rng.choice(['first', 'middle', 'last'])
        first = 1 if (lines and lines[0].item.kind == 'version') else 0
        long_idx = first if where == 'first' else (len(lines) if where == 'last' else rng.randint(first, len(lines)))
        lines.insert(long_idx, bl)
    style = rng.choice([b'\n', b'\n', b'\r\n', None])
    data = b''
    terms: T.List[bytes] = []
    for i, bl in enumerate(lines):
        t = style if style is not None else rng.choice([b'\n', b'\r\n'])
        if i == len(lines) - 1 and rng.random() < 0.3 and bl.raw.strip() != b'':
            t = b''
        terms.append(t)
        data += bl.raw + t
    return {'lines': lines, 'terms': terms, 'data': data, 'long_idx': long_idx}


def chunkings(rng, data: bytes, limit: int) -> T.List[T.List[bytes]]:
    n = len(data)
    out: T.List[T.List[bytes]] = [[data]]

    def cut(points: T.Iterable[int]) -> T.List[bytes]:
        ps = sorted(set(p for p in points if 0 < p < n))
        res, prev = [], 0
        for p in ps + [n]:
            res.append(data[prev:p])
            prev = p
        return [c for c in res if c]
    if n <= 400:
        out.append(cut(range(1, n)))
    for size in (7, 4096, limit, limit + 1):
        if size < n:
            out.append(cut(range(size, n, size)))
    nl = [i for i, b in enumerate(data) if b == 10]
    out.append(cut(nl))                      # right before every newline (splits \r | \n too)
    out.append(cut([i + 1 for i in nl]))     # right after every newline
    out.append(cut([i for i in nl if i > 0 and data[i - 1] == 13]))
    out.append(cut(rng.sample(range(1, n), min(n - 1, rng.randint(1, 6))) if n > 1 else []))
    uniq, seen = [], set()
    for c in out:
        k = tuple(len(x) for x in c)
        if c and k not in seen:
            seen.add(k)
            uniq.append(c)
    return uniq


# ------------------------------------------------------------------ oracle

def norm(s: str) -> str:
    return s.replace('\r\n', '\n')


def expected_text(case: dict) -> str:
    return ''.join(dec(bl.raw + t) for bl, t in zip(case['lines'], case['terms']))


def final_nl(s: str) -> str:
    """the stdout meson records (TestRun.stdo after completion) gets a final newline when it lacks one"""
    return s if (not s or s.endswith('\n')) else s + '\n'


def judge(C, case: dict, limit: int, got_tests: T.List[tuple], got_errors: T.List[str], got_bad: T.Optional[bool],
          rc: int, got_text: T.Optional[str], extra: T.Optional[dict] = None, recorded: bool = False) -> T.Optional[str]:
    """compare what meson reported with the reference consumer applied to the generator's lines"""
    items = [bl.item for bl in case['lines']]
    want = C.reference(items)
    over = [len(bl.raw) + (1 if t == b'\r\n' else 0) > limit for bl, t in zip(case['lines'], case['terms'])]
    fin = final_nl if recorded else (lambda x: x)
    if got_text is not None and norm(got_text) != fin(norm(expected_text(case))):
        a, b = norm(got_text), fin(norm(expected_text(case)))
        i = next((k for k in range(min(len(a), len(b))) if a[k] != b[k]), min(len(a), len(b)))
        return (f'bytes lost or altered between the test program and the parser: {len(b)} characters written, '
                f'{len(a)} received, first difference at offset {i}')
    over_tests = set()
    ti = 0
    for bl, o in zip(case['lines'], over):
        if bl.is_test:
            if o:
                over_tests.add(ti)
            ti += 1
    wt = want['tests']
    if any(over):
        # pieces of an over-long line: extra events may only be unknown lines; subtests keep number and status
        if len(got_tests) != len(wt):
            return (f'each ok/not ok line must yield one subtest: {len(wt)} test lines written, '
                    f'{len(got_tests)} subtests reported: {[(t[0], t[2]) for t in got_tests]}')
    for i, (w, g) in enumerate(zip(wt, got_tests)):
        if i in over_tests:
            okname = w[1].startswith(g[1])
            okex = (w[3] or '').startswith(g[3] or '')
            if (w[0], w[2]) != (g[0], g[2]) or not okname or not okex:
                return f'subtest {i + 1} of an over-long line: expected number/status {(w[0], w[2])}, got {(g[0], g[2])}'
        elif tuple(w) != tuple(g):
            return f'subtest {i + 1}: expected {w!r}, got {g!r}'
    if len(got_tests) != len(wt):
        return f'expected {len(wt)} subtests, got {len(got_tests)}'
    if sorted(got_errors) != want['errors']:
        return f'error events differ: expected {want["errors"]}, got {sorted(got_errors)}'
    if extra is not None:
        for k in ('plans', 'bails', 'versions'):
            if want[k] != extra[k]:
                return f'{k} differ: expected {want[k]!r}, got {extra[k]!r}'
        if not any(over) and want['unknown'] != extra['unknown']:
            return f'unknown-line events differ: expected {want["unknown"]}, got {extra["unknown"]}'
    if got_bad is not None:
        bad = any(t[2] in ('FAIL', 'UNEXPECTEDPASS') for t in wt) or bool(want['errors']) or bool(want['bails']) or rc != 0
        if bad != got_bad:
            return f'verdict: reported bad={got_bad}, but subtests/errors/exit status say bad={bad}'
    return None


def case_repr(case: dict, chunks: T.Optional[T.List[int]] = None, rc: int = 0) -> dict:
    d = case['data']
    import base64, zlib
    return {'data_zlib_b64': base64.b64encode(zlib.compress(d, 9)).decode('ascii'),
            'data_summary': [f'{bl.raw[:40]!r}{"+" + str(len(bl.raw) - 40) + " more bytes" if len(bl.raw) > 40 else ""} term={t!r}'
                             for bl, t in zip(case['lines'], case['terms'])],
            'line_lengths': [len(bl.raw) for bl in case['lines']], 'chunks': chunks, 'returncode': rc, 'leg': 'bytes'}


def key_of(case: dict, chunks: T.Optional[T.List[int]]) -> str:
    import hashlib
    h = hashlib.sha256(case['data']).hexdigest()[:12]
    return f'bytes:{h}:{len(case["data"])}:{"-".join(map(str, (chunks or [])[:6]))}'


# ------------------------------------------------------------------ path a1: StreamReader with controlled chunking

class _RecQueue(asyncio.Queue):  # type: ignore[type-arg]
    def __init__(self) -> None:
        super().__init__()
        self.rec: T.List[str] = []

    async def put(self, item: T.Any) -> None:
        if item is not None:
            self.rec.append(item)
        await super().put(item)


async def a1_one(M, limit: int, chunks: T.List[bytes], rc: int, yield_between: bool):
    import types
    reader = asyncio.StreamReader(limit=limit)
    q = _RecQueue()
    test = types.SimpleNamespace(protocol=M.TestProtocol.TAP, expected_fail=False, expected_exitcode=0,
                                 project_name='p', name='t', workdir=None)
    tr = M.TestRun(test, {}, 't', None, False, False, False)
    tr.start(['prog'])
    parse_task = asyncio.ensure_future(tr.parse(_H(), M.queue_iter(q)))
    rd_task = asyncio.ensure_future(M.read_decode(reader, q, M.ConsoleUser.LOGGER))
    for c in chunks:
        reader.feed_data(c)
        if yield_between:
            for _ in range(3):
                await asyncio.sleep(0)
    reader.feed_eof()
    text = await asyncio.wait_for(rd_task, 20)
    await asyncio.wait_for(parse_task, 20)
    tr.returncode = rc
    tr.complete()
    return tr, q.rec, text


def observe_tr(C, tr) -> T.Tuple[T.List[tuple], T.List[str]]:
    tests = [(t.number, t.name, t.result.name, t.explanation) for t in tr.results]
    errs = [C.err_kind(m) for m in tr.additional_error.split('TAP parsing error: ') if m]
    return tests, errs


def run_a1(C, M, ctx: Ctx, limit: int) -> None:
    rng = ctx.rng
    lens = [None, None, None, 1, 100, limit - 1, limit, limit + 1, 3 * limit + 17]
    todo: T.List[T.Tuple[dict, T.List[bytes], int, bool]] = []
    for _ in range(ctx.scale(160, 1500)):
        ll = rng.choice(lens)
        case = gen_case(C, rng, limit, ll)
        cs = chunkings(rng, case['data'], limit)
        for ch in (cs if (ll is None or ll <= 100) else rng.sample(cs, min(len(cs), 4))):
            todo.append((case, ch, rng.choice([0, 0, 0, 1]), rng.random() < 0.8))

    tie: T.List[T.Tuple[dict, T.List[int], T.List[str]]] = []

    async def main() -> None:
        for case, ch, rc, yb in todo:
            sizes = [len(c) for c in ch]
            try:
                tr, rec, text = await a1_one(M, limit, ch, rc, yb)
            except Exception as ex:
                ctx.violation(key_of(case, sizes), f'byte path raised {type(ex).__name__}: {str(ex)[:100]}', case_repr(case, sizes, rc))
                continue
            ctx.count()
            ctx.tag('bytes:a1')
            if case['long_idx'] is not None and len(case['lines'][case['long_idx']].raw) > limit:
                ctx.tag('bytes:a1-overlong')
            tests, errs = observe_tr(C, tr)
            evs = list(M.TAPParser().parse(iter(rec)))
            ob = C.observed(M, evs)
            extra = {k: ob[k] for k in ('plans', 'bails', 'versions', 'unknown')}
            msg = judge(C, case, limit, tests, errs, tr.res.is_bad(), rc, text, extra)
            if msg is None and ob['tests'] != tests:
                msg = 'subtests recorded by TestRunTAP differ from the events of the lines it was given'
            if msg:
                ctx.violation(key_of(case, sizes), msg, case_repr(case, sizes, rc))
            if not any(len(bl.raw) + 2 > limit for bl in case['lines']):
                tie.append((case, sizes, rec))
    asyncio.run(main())
    # correspondence with the Lean specification `outputLines` (lines that fit the reader's buffer)
    if ctx.model_available and tie:
        answers = ctx.driver('tap', ['lines ' + common.enc(expected_text(c)) for c, _s, _r in tie])
        for (case, sizes, rec), ans in zip(tie, answers):
            ctx.count()
            ctx.tag('kind:lines')
            mine = ','.join(common.enc(l) for l in rec)
            if mine != ans:
                ctx.disagreement({'kind': 'lines', 'input': case_repr(case, sizes), 'impl': mine[:300], 'model': ans[:300]})


# ------------------------------------------------------------------ known finding: tail of an over-long line read as TAP

def split_witness(limit: int) -> T.Tuple[bytes, int]:
    head = b'ok 1 - ' + b'x' * (limit + 1 - 7)
    return head + b'not ok 2 tail\n', len(head)


def run_split_witness(C, M, ctx: Ctx, limit: int, workdir: str, options) -> None:
    data, cut = split_witness(limit)

    async def a1() -> int:
        tr, _rec, _t = await a1_one(M, limit, [data[:cut], data[cut:]], 0, True)
        return len(tr.results)
    n = asyncio.run(a1())
    ctx.count()
    what = ('one over-long `ok` line, first chunk longer than the pipe reader limit: its tail "not ok 2 tail" is read as a '
            'second, failing subtest')
    if n != 1:
        ctx.violation(SPLIT_KEY, what, {'line': f"b'ok 1 - ' + b'x'*{limit + 1 - 7} + b'not ok 2 tail\\n'", 'chunks': [cut, len(data) - cut],
                                        'path': 'read_decode on StreamReader', 'subtests': n})
    # the same over a real pipe (write, flush, pause, write)
    path = os.path.join(workdir, 'split.bin')
    with open(path, 'wb') as f:
        f.write(data)
    tr = asyncio.run(_pipe_run(M, options, [sys.executable, os.path.join(workdir, 'emit.py'), path,
                                           json.dumps([[cut, 300]]), '0'], []))
    ctx.count()
    if len(tr.results) != 1:
        ctx.violation(SPLIT_KEY, what, {'path': 'real pipe', 'subtests': len(tr.results), 'result': tr.res.name})


# ------------------------------------------------------------------ path a2: real child, real pipe

def chunk_spec(rng, n: int, limit: int) -> T.List[T.List[int]]:
    r = rng.random()
    if r < 0.3 or n < 2:
        return []                                   # one write of everything
    if r < 0.5:
        size = rng.choice([1, 7, 100]) if n < 2000 else rng.choice([4096, limit, limit + 1])
        return [[size, 0] for _ in range(min(n // size, 400))]
    pts = sorted(rng.sample(range(1, n), min(n - 1, rng.randint(1, 4))))
    spec, prev = [], 0
    for p in pts:
        spec.append([p - prev, rng.choice([0, 0, 5, 30])])
        prev = p
    return spec


def run_a2(C, M, ctx: Ctx, limit: int, workdir: str, options) -> T.List[T.Tuple[dict, T.List[T.List[int]], int, str]]:
    rng = ctx.rng
    lens = [None, None, 100, limit - 1, limit, limit + 1, 3 * limit + 17]
    jobs = []
    for i in range(ctx.scale(28, 200)):
        ll = lens[i % len(lens)]
        case = gen_case(C, rng, limit, ll, small=True)
        path = os.path.join(workdir, f'd{i}.bin')
        with open(path, 'wb') as f:
            f.write(case['data'])
        jobs.append((case, chunk_spec(rng, len(case['data']), limit), rng.choice([0, 0, 0, 1]), path))
    emit = os.path.join(workdir, 'emit.py')

    async def one(sem: asyncio.Semaphore, job) -> None:
        case, spec, rc, path = job
        sizes = [s[0] for s in spec]
        async with sem:
            try:
                tr = await _pipe_run(M, options, [sys.executable, emit, path, json.dumps(spec), str(rc)], [])
            except Exception as ex:
                ctx.violation(key_of(case, sizes), f'real-pipe path raised {type(ex).__name__}: {str(ex)[:100]}', case_repr(case, sizes, rc))
                return
        ctx.count()
        ctx.tag('bytes:a2')
        tests, errs = observe_tr(C, tr)
        msg = judge(C, case, limit, tests, errs, tr.res.is_bad(), rc, tr.stdo, recorded=True)
        if msg is None and tr.returncode != rc:
            msg = f'exit status {rc} reported as {tr.returncode}'
        if msg:
            ctx.violation(key_of(case, sizes), 'real pipe: ' + msg, case_repr(case, sizes, rc))

    async def main() -> None:
        sem = asyncio.Semaphore(8)
        await asyncio.gather(*(one(sem, j) for j in jobs))
    asyncio.run(main())
    return jobs


# ------------------------------------------------------------------ path b: real `meson test`

def sticky_cases(C) -> T.List[dict]:
    """the streams of c18_state.sticky_items (one-shot errors, flags, counters, TAP version) as program output"""
    from . import c18_state
    out = []
    for items in c18_state.sticky_items(C):
        lines = [BLine(it.text.encode('utf-8'), it, it.kind == 'test') for it in items]
        out.append({'lines': lines, 'terms': [b'\n'] * len(lines), 'data': b''.join(bl.raw + b'\n' for bl in lines),
                    'long_idx': None})
    return out


def result_class(want: dict, rc: int) -> T.Set[str]:
    """the classification rule of the property on the reference consumer's reading of the stream"""
    bad_sub = any(t[2] in ('FAIL', 'UNEXPECTEDPASS') for t in want['tests'])
    err = bool(want['errors']) or bool(want['bails'])
    if bad_sub and err:
        return {'FAIL', 'ERROR'}
    if bad_sub:
        return {'FAIL'}
    if err or rc != 0:
        return {'ERROR'}
    return {'SKIP'} if all(t[2] == 'SKIP' for t in want['tests']) else {'OK'}


def run_b(C, M, ctx: Ctx, limit: int, workdir: str, jobs) -> None:
    src = os.path.join(workdir, 'src')
    bld = os.path.join(workdir, 'bld')
    os.makedirs(src, exist_ok=True)
    sample = jobs[:ctx.scale(14, 60)]
    # several protocol:'tap' tests in ONE `meson test` run: every state-exercising stream twice (thrice when deep),
    # the second round in reverse order, so each is parsed after — and while — different other streams
    st = sticky_cases(C)
    rounds = [st, st[::-1]] + ([st[len(st) // 2:] + st[:len(st) // 2]] if ctx.deep else [])
    k = 0
    for rnd in rounds:
        for case in rnd:
            path = os.path.join(workdir, f's{k}.bin')
            with open(path, 'wb') as f:
                f.write(case['data'])
            sample.append((case, [], 0, path))
            k += 1
    ctx.extra['tap_tests_in_one_meson_test_run'] = len(sample)
    mb = ["project('c18bytes')", f"py = find_program('{sys.executable}')"]
    for i, (case, spec, rc, path) in enumerate(sample):
        mb.append(f"test('t{i}', py, args: ['{os.path.join(workdir, 'emit.py')}', '{path}', '{json.dumps(spec)}', '{rc}'], protocol: 'tap')")
    with open(os.path.join(src, 'meson.build'), 'w') as f:
        f.write('\n'.join(mb) + '\n')
    env = dict(os.environ)
    env['PYTHONPATH'] = common.REPO
    meson = [sys.executable, os.path.join(common.REPO, 'meson.py')]
    r = subprocess.run(meson + ['setup', '--backend=none', bld, src], env=env, stdout=subprocess.PIPE,
                       stderr=subprocess.STDOUT, text=True, timeout=300)
    if r.returncode != 0:
        raise common.ToolFailure('meson setup of the C18 byte-leg project failed:\n' + r.stdout[-800:])
    subprocess.run(meson + ['test', '-C', bld, '--no-rebuild', '--num-processes', '4'], env=env,
                   stdout=subprocess.PIPE, stderr=subprocess.STDOUT, text=True, timeout=600)
    logp = os.path.join(bld, 'meson-logs', 'testlog.json')
    if not os.path.exists(logp):
        raise common.ToolFailure('meson test wrote no testlog.json')
    res = {}
    for line in open(logp, encoding='utf-8'):
        j = json.loads(line)
        res[j['name'].split(':')[-1].strip()] = j
    suites = {}
    jp = os.path.join(bld, 'meson-logs', 'testlog.junit.xml')
    if os.path.exists(jp):
        try:
            for s in et.parse(jp).getroot().iter('testsuite'):
                suites[s.get('name', '').split('.')[-1]] = [tc.get('name', '') for tc in s.iter('testcase')]
        except et.ParseError:
            # subtest names with NUL / C1 bytes make the junit file ill-formed XML; not a C18 matter, noted
            ctx.notes.append('testlog.junit.xml not well-formed (control characters in subtest names); junit subtest count skipped')
    for i, (case, spec, rc, path) in enumerate(sample):
        j = res.get(f't{i}')
        sizes = [s[0] for s in spec]
        ctx.count()
        ctx.tag('bytes:b')
        if j is None:
            ctx.violation(key_of(case, sizes), f'meson test reported nothing for t{i}', case_repr(case, sizes, rc))
            continue
        want = C.reference([bl.item for bl in case['lines']])
        bad = any(t[2] in ('FAIL', 'UNEXPECTEDPASS') for t in want['tests']) or bool(want['errors']) or bool(want['bails']) or rc != 0
        msg = None
        if norm(j.get('stdout', '')) != final_nl(norm(expected_text(case))):
            msg = 'stdout recorded in testlog.json differs from the bytes the program wrote'
        elif bool(j['is_fail']) != bad:
            msg = f'meson test reported {j["result"]} (is_fail={j["is_fail"]}), subtests/errors/exit status say bad={bad}'
        elif not any(len(bl.raw) + 2 > limit for bl in case['lines']) and j['result'] not in result_class(want, rc):
            msg = f'meson test reported {j["result"]}, subtests/errors/exit status call for {sorted(result_class(want, rc))}'
        elif f't{i}' in suites and len(want['tests']) > 0 and len(suites[f't{i}']) != len(want['tests']):
            msg = f'junit lists {len(suites[f"t{i}"])} subtests for {len(want["tests"])} test lines'
        if msg:
            ctx.violation(key_of(case, sizes), 'meson test: ' + msg, case_repr(case, sizes, rc))


# ------------------------------------------------------------------ entry

def run(C, M, ctx: Ctx) -> None:
    wd = common.scratch_dir('mverif-c18-')
    try:
        with open(os.path.join(wd, 'emit.py'), 'w') as f:
            f.write(EMIT)
        options = mk_options(M)
        limit = harvest_limit(M, wd)
        ctx.extra['stream_reader_limit'] = limit
        ctx.extra['stream_reader_limit_in_source'] = static_limit(M)
        run_a1(C, M, ctx, limit)
        run_split_witness(C, M, ctx, limit, wd, options)
        jobs = run_a2(C, M, ctx, limit, wd, options)
        run_b(C, M, ctx, limit, wd, jobs)
    finally:
        common.rmtree(wd)


def _write(wd: str, data: bytes) -> str:
    path = os.path.join(wd, 'replay.bin')
    with open(path, 'wb') as f:
        f.write(data)
    return path


def replay(C, M, ctx: Ctx, case: dict) -> None:
    """re-run one recorded byte case through path a1 (and a real pipe) and print what meson reports"""
    import base64, zlib
    if not case.get('data_zlib_b64'):
        print('no byte stream in this replay file:', json.dumps(case)[:600])
        return
    data = zlib.decompress(base64.b64decode(case['data_zlib_b64']))
    wd = common.scratch_dir('mverif-c18-')
    try:
        with open(os.path.join(wd, 'emit.py'), 'w') as f:
            f.write(EMIT)
        limit = harvest_limit(M, wd)
        sizes = case.get('chunks') or [len(data)]
        chunks, pos = [], 0
        for s in sizes:
            chunks.append(data[pos:pos + s])
            pos += s
        if pos < len(data):
            chunks.append(data[pos:])

        async def go():
            return await a1_one(M, limit, [c for c in chunks if c], case.get('returncode', 0), True)
        tr, rec, text = asyncio.run(go())
        print('bytes:', data[:300])
        print('lines handed to the parser:', rec[:20])
        print('subtests:', [(t.number, t.name[:30], t.result.name) for t in tr.results], 'verdict:', tr.res.name)
        pieces = [p + b'\n' for p in data.split(b'\n')]
        pieces[-1] = pieces[-1][:-1]
        print('no byte lost:', norm(text) == norm(''.join(dec(l) for l in pieces if l)))
        tr2 = asyncio.run(_pipe_run(M, mk_options(M), [sys.executable, os.path.join(wd, 'emit.py'),
                                                       _write(wd, data), '[]', str(case.get('returncode', 0))], []))
        print('real pipe: subtests:', [(t.number, t.name[:30], t.result.name) for t in tr2.results], 'verdict:', tr2.res.name)
    finally:
        common.rmtree(wd)
