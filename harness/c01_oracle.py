"""C01 — the property's own predicates, evaluated on the REAL parser/interpreter only (no Lean model).

Each oracle returns a list of (key, what, case) violations.  Keys of known findings are stable strings
(listed in known_findings.txt); other keys carry the failing input.
"""
from __future__ import annotations

import copy
import typing as T

from . import c01_gen

Viol = T.Tuple[str, str, dict]


# ---------------------------------------------------------------- immutability (values never change through another name)

def assigned_names(mp, node) -> T.Optional[T.Set[str]]:
    """names a statement may (re)bind, syntactically; None = unknown (dynamic set_variable/unset_variable)"""
    out: T.Set[str] = set()
    dyn = False

    def walk(n) -> None:
        nonlocal dyn
        if n is None:
            return
        t = type(n)
        if t in (mp.AssignmentNode, mp.PlusAssignmentNode):
            out.add(n.var_name.value)
            walk(n.value)
        elif t is mp.ForeachClauseNode:
            for v in n.varnames:
                out.add(v.value)
            walk(n.items)
            walk(n.block)
        elif t is mp.CodeBlockNode:
            for l in n.lines:
                walk(l)
        elif t is mp.IfClauseNode:
            for i in n.ifs:
                walk(i.condition)
                walk(i.block)
            if not isinstance(n.elseblock, mp.EmptyNode):
                walk(n.elseblock.block)
        elif t is mp.FunctionNode:
            if n.func_name.value == 'subdir':
                dyn = True      # the file runs in this variable table
            if n.func_name.value in ('set_variable', 'unset_variable'):
                a = n.args.arguments
                if a and type(a[0]) is mp.StringNode and not a[0].is_fstring:
                    out.add(a[0].value)
                else:
                    dyn = True
            walk(n.args)
        elif t is mp.MethodNode:
            walk(n.source_object)
            walk(n.args)
        elif t is mp.ArgumentNode:
            for a in n.arguments:
                walk(a)
            for k, v in n.kwargs.items():
                walk(k)
                walk(v)
        elif t in (mp.ArrayNode, mp.DictNode):
            walk(n.args)
        elif isinstance(n, mp.BinaryOperatorNode):
            walk(n.left)
            walk(n.right)
        elif isinstance(n, mp.UnaryOperatorNode):
            walk(n.value)
        elif t is mp.IndexNode:
            walk(n.iobject)
            walk(n.index)
        elif t is mp.TernaryNode:
            walk(n.condition)
            walk(n.trueblock)
            walk(n.falseblock)
        elif t is mp.ParenthesizedNode:
            walk(n.inner)
    walk(node)
    return None if dyn else out


def deep_eq(a: T.Any, b: T.Any) -> bool:
    """type-exact structural equality (no `True == 1`), dict order included"""
    if type(a) is not type(b):
        return False
    if isinstance(a, list):
        return len(a) == len(b) and all(deep_eq(x, y) for x, y in zip(a, b))
    if isinstance(a, dict):
        return len(a) == len(b) and all(k1 == k2 and deep_eq(v1, v2) for (k1, v1), (k2, v2) in zip(a.items(), b.items()))
    if isinstance(a, tuple):
        return a == b
    return a == b


def run_stepwise(im, code: str, ast, files: T.Optional[T.Dict[str, str]] = None) -> T.Tuple[str, T.List[Viol]]:
    """evaluate the program one top-level statement at a time (same semantics as evaluate_codeblock on the
    whole block); after every statement every name the statement does not assign must still hold a value
    structurally identical to the deep copy taken before it"""
    viol: T.List[Viol] = []
    im.reset()
    if files is not None:
        im.reset_tree(files)
    mp = im.mparser
    im.record_calls = True
    try:
        return _run_stepwise(im, code, ast, mp, viol)
    finally:
        im.record_calls = False
        try:
            viol += judge_calls(im, code)
        except (MemoryError, RecursionError):
            pass


def _run_stepwise(im, code: str, ast, mp, viol: T.List[Viol]) -> T.Tuple[str, T.List[Viol]]:
    try:
        for i, st in enumerate(ast.lines):
            before = im.snapshot()
            names = assigned_names(mp, st)
            try:
                im.arm()        # time limit for the interpreter only, per top-level statement
                try:
                    im.interp.evaluate_codeblock(ast, start=i, end=i + 1)
                finally:
                    im.disarm()
            finally:
                if not im.saw_live_alias and im.live_alias():
                    im.saw_live_alias = True
                if names is not None:
                    after = im.interp.variables
                    for k, v0 in before.items():
                        if k in names:
                            continue
                        if k not in after:
                            viol.append((f'immut:{code!r}', f'statement {i + 1} removed variable {k!r} it does not assign',
                                         {'program': code, 'statement': i + 1, 'name': k}))
                            continue
                        cur = im.norm(im.unhold(after[k]))
                        if not deep_eq(cur, v0):
                            viol.append((f'immut:{code!r}', f'statement {i + 1} changed the value seen through {k!r}',
                                         {'program': code, 'statement': i + 1, 'name': k, 'before': repr(v0), 'after': repr(cur)}))
    except BaseException as e:
        im.disarm()
        if isinstance(e, (KeyboardInterrupt, SystemExit)):
            raise
        from .c01_impl import err_class
        ln = getattr(e, 'lineno', None)
        return f'ERR:{err_class(e)}:{ln if isinstance(ln, int) else 0}|{im.canon_msgs()}', viol
    im.disarm()
    vs = {k: im.unhold(v) for k, v in im.interp.variables.items()}
    return 'OK|' + ';'.join(f'{k}={im.canon(vs[k])}' for k in sorted(vs)) + '|' + im.canon_msgs(), viol


# ---------------------------------------------------------------- helpers

def ev(im, code: str) -> T.Tuple[bool, T.Optional[dict], str]:
    """(ok, variables, canonical answer); parse errors count as not ok with answer 'PARSE'"""
    try:
        ast = im.parse(code)
    except Exception as e:
        return False, None, 'PARSE:' + type(e).__name__
    try:
        ans, vs = im.run_ast(ast)
    except (MemoryError, RecursionError):
        return False, None, 'ERR:MemoryError:0|'
    return vs is not None, vs, ans


ERRORING = ['undefined_variable', '1 / 0', '[][0]', "message('evaluated')", "{'a': 1}['b']", "'x'.to_int()", "1 + 'a'",
            "nosuch()", "[1].nope()"]


def oracle_short_circuit(im, rng, n: int) -> T.List[Viol]:
    """`false and X` is false and `true or X` is true whatever X is — X is never evaluated"""
    out: T.List[Viol] = []
    g = c01_gen.Gen(rng)
    for _ in range(n):
        g.env = {}
        left = g.sub('bool', rng.choice([1, 2, 3]), 4)
        ok, vs, _ = ev(im, f'v = {left}\n')
        if not ok or not isinstance(vs['v'], bool):
            continue
        bad = rng.choice(ERRORING)
        if vs['v'] is False:
            code = f'x = {left} and {bad}\n'
            want = False
        else:
            code = f'x = {left} or {bad}\n'
            want = True
        ok2, vs2, ans = ev(im, code)
        if not ok2 or vs2.get('x') is not want or im.messages:
            out.append((f'short-circuit:{code!r}', 'right operand of and/or was evaluated (or result wrong)',
                        {'program': code, 'answer': ans}))
        # and the operand IS evaluated when the left side does not decide
        code3 = f'x = {left} or {bad}\n' if vs['v'] is False else f'x = {left} and {bad}\n'
        ok3, _vs3, ans3 = ev(im, code3)
        if ok3:
            out.append((f'short-circuit-eager:{code3!r}', 'right operand not evaluated although the left does not decide',
                        {'program': code3, 'answer': ans3}))
    return out


def int_src(n: int) -> str:
    return str(n) if n >= 0 else f'-{-n}'


def oracle_divmod(im, rng, n: int) -> T.List[Viol]:
    out: T.List[Viol] = []
    pool = [0, 1, -1, 2, -2, 3, -3, 7, -7, 10, -10, 2 ** 31, -2 ** 31, 2 ** 63 + 1, 10 ** 20 + 7]
    for _ in range(n):
        a = rng.choice(pool) if rng.random() < 0.5 else rng.randint(-1000, 1000)
        b = rng.choice(pool) if rng.random() < 0.4 else rng.randint(-20, 20)
        code = f'q = {int_src(a)} / {int_src(b)}\nr = {int_src(a)} % {int_src(b)}\n'
        ok, vs, ans = ev(im, code)
        if b == 0:
            if ok:
                out.append((f'div-zero:{a}', 'division by zero did not fail', {'program': code, 'answer': ans}))
            continue
        if not ok:
            out.append((f'divmod:{a}:{b}', 'integer division failed', {'program': code, 'answer': ans}))
            continue
        q, r = vs['q'], vs['r']
        good = type(q) is int and type(r) is int and b * q + r == a and ((0 <= r < b) if b > 0 else (b < r <= 0))
        if not good:
            out.append((f'divmod:{a}:{b}', f'q={q} r={r} is not floor division / modulo with the divisor\'s sign',
                        {'program': code, 'q': q, 'r': r}))
    return out


TYPED_SAMPLES = {
    'int': ['0', '1', '5', '-2'],
    'bool': ['true', 'false'],
    'str': ["''", "'a'", "'1'", "'true'"],
    'array': ['[]', '[1]', "['a']", '[true]'],
    'dict': ['{}', "{'a': 1}"],
}
STRICT_OPS = ['+', '-', '*', '/', '%', '==', '!=', '<', '<=', '>', '>=']


def oracle_cross_type(im, rng, full: bool) -> T.List[Viol]:
    """strict typing: a binary arithmetic/comparison operator on operands of different types is an error
    (documented exception: `array + x` appends x)"""
    out: T.List[Viol] = []
    for lt, ls in TYPED_SAMPLES.items():
        for rt, rs in TYPED_SAMPLES.items():
            if lt == rt:
                continue
            for l in (ls if full else ls[:2]):
                for r in (rs if full else rs[:2]):
                    for op in STRICT_OPS:
                        if lt == 'array' and op == '+':
                            continue
                        code = f'x = {l} {op} {r}\n'
                        ok, vs, ans = ev(im, code)
                        if ok:
                            key = 'int-op-bool' if (lt, rt) == ('int', 'bool') else f'cross-type:{code!r}'
                            out.append((key, f'`{lt} {op} {rt}` is accepted (no type error)',
                                        {'program': code, 'result': repr(vs.get('x'))}))
    # the remaining operand positions: containers, unary operators, truth values, method/function arguments
    for code in ["x = 1 in 'a'\n", "x = 1 not in 'a'\n", "x = 1 in {'a': 1}\n", "x = ['a'] in {'a': 1}\n", "x = {'a': 1}[0]\n",
                 "x = [1]['0']\n", "x = 'a'['0']\n", "x = [1][[0]]\n", "x = 1 in 1\n", "x = true[0]\n", "x = range(3)['0']\n",
                 "x = -'a'\n", "x = -true\n", "x = -[1]\n", "x = not 1\n", "x = not ''\n", "x = not []\n",
                 "x = 1 and true\n", "x = '' or true\n", "x = true and 1\n", "x = false or 'a'\n", "x = [] and true\n",
                 "if 1\n  x = 1\nendif\n", "if ''\n  x = 1\nendif\n", "x = 0 ? 1 : 2\n", "x = 'a' ? 1 : 2\n",
                 "x = 'a'.contains(1)\n", "x = 'a'.startswith(true)\n", "x = 'a'.join([1])\n", "x = 'a'.join('b', 2)\n",
                 "x = [1].get('0')\n", "x = {'a': 1}.has_key(1)\n", "x = {'a': 1}.get(1)\n", "x = 'a'.substring('1')\n",
                 "x = 'a'.split(1)\n", "x = 'a'.replace('a', 1)\n", "x = true.to_string(1, 2)\n", "x = 1.to_string(fill: '3')\n",
                 "x = 1.to_string(format: 1)\n", "x = 'x'.strip(1)\n", "x = '1'.version_compare(1)\n", "x = [1, 2].slice('0', 1)\n",
                 "x = [1, 2].slice(0, 1, step: 'a')\n", "x = range('3')\n", "x = range(1, '3')\n", "set_variable(1, 2)\n",
                 "x = get_variable(1)\n", "x = is_variable(1)\n", "unset_variable(1)\n", "assert('true')\n", "assert(1)\n",
                 "assert(true, 1)\n", "subdir(1)\n", "x = subproject(1)\n", "x = {1: 2}\n", "x = {true: 2}\n"]:
        ok, vs, ans = ev(im, code)
        if ok:
            out.append((f'cross-type:{code!r}', 'an operand / argument of the wrong type is accepted', {'program': code, 'answer': ans}))
    for code in ["x = [1, 2][true]\n", "x = 'ab'[true]\n", "x = [1, 2].get(true)\n", "x = 'abc'.substring(true)\n",
                 "x = range(3)[true]\n", "x = range(true)\n", "x = [1, 2, 3].slice(false, true)\n"]:
        ok, vs, ans = ev(im, code)
        if ok:
            out.append(('bool-as-int-argument', 'a bool is accepted where an int index / argument is required',
                        {'program': code, 'answer': ans}))
    # element comparison inside containers must not convert either
    for code, key in [("x = [1] == [true]\n", 'container-eq-bool-int'), ("x = 1 in [true]\n", 'container-eq-bool-int'),
                      ("x = {'a': 1} == {'a': true}\n", 'container-eq-bool-int'), ("x = [true].contains(1)\n", 'container-eq-bool-int'),
                      ("x = ['1'] == [1]\n", 'container-eq-str-int'), ("x = '1' in [1]\n", 'container-eq-str-int')]:
        ok, vs, ans = ev(im, code)
        if ok and vs.get('x') is True:
            out.append((key, 'values of different types compare equal inside a container', {'program': code}))
    return out


def src_of(v: T.Any) -> str:
    if isinstance(v, bool):
        return 'true' if v else 'false'
    if isinstance(v, int):
        return int_src(v)
    if isinstance(v, str):
        return "'" + v.replace('\\', '\\\\').replace("'", "\\'").replace('\n', '\\n') + "'"
    if isinstance(v, list):
        return '[' + ', '.join(src_of(x) for x in v) + ']'
    return '{' + ', '.join(f'{src_of(k)}: {src_of(x)}' for k, x in v.items()) + '}'


def rand_value(rng, depth: int = 0) -> T.Any:
    r = rng.random()
    if r < 0.3:
        return rng.randint(-5, 50)
    if r < 0.45:
        return rng.random() < 0.5
    if r < 0.75 or depth >= 2:
        return rng.choice(['', 'a', 'b', 'ab', 'x y', 'Z', '1'])
    if r < 0.9:
        return [rand_value(rng, depth + 1) for _ in range(rng.randint(0, 3))]
    return {k: rand_value(rng, depth + 1) for k in rng.sample(['a', 'b', 'c', 'Z', ''], rng.randint(0, 3))}


def oracle_index(im, rng, n: int) -> T.List[Viol]:
    """`a[i]` for i in [-len, len) is the element (negative counts from the end); anything else is an error"""
    out: T.List[Viol] = []
    for _ in range(n):
        if rng.random() < 0.7:
            seq: T.Any = [rand_value(rng, 1) for _ in range(rng.randint(0, 5))]
        else:
            seq = ''.join(rng.choice('abcxyz019 ') for _ in range(rng.randint(0, 5)))
        ln = len(seq)
        i = rng.randint(-ln - 2, ln + 1)
        code = f's = {src_of(seq)}\nx = s[{int_src(i)}]\n'
        ok, vs, ans = ev(im, code)
        if -ln <= i < ln:
            want = seq[i + ln] if i < 0 else seq[i]
            if not ok or not deep_eq(vs['x'], want):
                out.append((f'index:{code!r}', f'index {i} of a sequence of length {ln} gave the wrong element',
                            {'program': code, 'answer': ans}))
        elif ok:
            out.append((f'index-bounds:{code!r}', f'out-of-range index {i} (length {ln}) did not fail',
                        {'program': code, 'answer': ans}))
    return out


def oracle_keys(im, rng, n: int) -> T.List[Viol]:
    out: T.List[Viol] = []
    alphabet = ['a', 'b', 'B', 'aa', 'ab', '', 'z', 'Z', '_', '1', '10', '2', 'a b', 'é', '€', 'key', 'Key']
    for _ in range(n):
        keys = rng.sample(alphabet, rng.randint(0, 7))
        d = {k: rng.randint(0, 9) for k in keys}
        code = f'd = {src_of(d)}\nk = d.keys()\nv = d.values()\n'
        ok, vs, ans = ev(im, code)
        if not ok:
            out.append((f'keys:{code!r}', 'dict.keys() failed', {'program': code, 'answer': ans}))
            continue
        k = vs['k']
        cps = [[ord(c) for c in s] for s in k]
        if any(cps[i] > cps[i + 1] for i in range(len(cps) - 1)) or sorted(k) != sorted(keys) or len(k) != len(keys):
            out.append((f'keys:{code!r}', 'dict.keys() is not the sorted list of the keys', {'program': code, 'keys': k}))
        if vs['v'] != [d[x] for x in k]:
            out.append((f'values:{code!r}', 'dict.values() is not in keys() order', {'program': code, 'values': vs['v']}))
    return out


ESCAPES = [('\\\\', '\\'), ("\\'", "'"), ('\\a', '\a'), ('\\b', '\b'), ('\\f', '\f'), ('\\n', '\n'), ('\\r', '\r'),
           ('\\t', '\t'), ('\\v', '\v'), ('\\101', 'A'), ('\\x41', 'A'), ('\\u20ac', '€'), ('\\U0001F600', '😀'),
           ('\\N{EURO SIGN}', '€'), ('\\q', '\\q'), ('\\0', '\0'), ('\\7', '\7')]


def oracle_escapes(im) -> T.List[Viol]:
    """escape sequences are decoded in '...' and left alone in '''...'''"""
    out: T.List[Viol] = []
    for esc, val in ESCAPES:
        code = f"x = 'p{esc}q'\n"
        ok, vs, ans = ev(im, code)
        if not ok or vs['x'] != 'p' + val + 'q':
            out.append((f'escape:{esc}', f'escape {esc} in a single-quoted string is not decoded as documented',
                        {'program': code, 'answer': ans}))
        if "'" in esc:
            continue
        code = f"x = '''p{esc}q'''\n"
        ok, vs, ans = ev(im, code)
        if not ok or vs['x'] != 'p' + esc + 'q':
            out.append((f'raw:{esc}', f'{esc} inside a triple-quoted string is not kept verbatim',
                        {'program': code, 'answer': ans}))
    return out


# ---------------------------------------------------------------- parser laws (precedence, associativity, rejections)

REJECTED = ['x = 1 < 2 < 3\n', 'x = 1 == 1 == true\n', 'x = 1 < 2 == true\n', "x = 'a' in ['a'] in [true]\n",
            'x = 1 != 2 >= 3\n',
            'x = - - 1\n', 'x = not not true\n', 'x = - not true\n', 'x = not - 1\n', 'x = --1\n',
            'x = true ? (false ? 1 : 2) : 3\n', 'x = true ? 1 : false ? 2 : 3\n', 'x = true ? 1 : (false ? 2 : 3)\n',
            'x = true ? [false ? 1 : 2] : 3\n']


class T_:
    """intended tree of an operator expression"""
    def __init__(self, kind: str, *kids: T.Any, val: T.Any = None):
        self.kind = kind
        self.kids = kids
        self.val = val


LEVEL = {'or': 6, 'and': 5, '==': 4, '!=': 4, '<': 4, '<=': 4, '>': 4, '>=': 4, 'in': 4, 'not in': 4,
         '+': 3, '-': 3, '*': 2, '/': 2, '%': 2, 'not': 1, 'neg': 1, 'tern': 7}


def rand_tree(rng, d: int) -> T_:
    if d <= 0 or rng.random() < 0.25:
        return T_('lit', val=rng.choice(['1', '2', '3', 'true', 'false', 'a', 'b', "'s'", '[1]']))
    op = rng.choice(['or', 'and', '==', '!=', '<', '<=', '>', '>=', 'in', 'not in', '+', '-', '*', '/', '%', '+', '-', '*',
                     'not', 'neg', 'tern'])
    if op in ('not', 'neg'):
        return T_(op, rand_tree(rng, d - 1))
    if op == 'tern':
        return T_(op, rand_tree_no_tern(rng, d - 1), rand_tree_no_tern(rng, d - 1), rand_tree_no_tern(rng, d - 1))
    return T_(op, rand_tree(rng, d - 1), rand_tree(rng, d - 1))


def rand_tree_no_tern(rng, d: int) -> T_:
    for _ in range(50):
        t = rand_tree(rng, d)
        if not has_tern(t):
            return t
    return T_('lit', val='1')


def has_tern(t: T_) -> bool:
    return t.kind == 'tern' or any(has_tern(k) for k in t.kids)


def level(t: T_) -> int:
    return 0 if t.kind == 'lit' else LEVEL[t.kind]


def show(t: T_, maxlvl: int = 7) -> str:
    """minimal parenthesisation under the documented ladder: or < and < comparison (non-associative)
    < + - < * / % (left-associative) < unary (does not stack) < postfix; ternary outermost"""
    k = t.kind
    if k == 'lit':
        s = t.val
    elif k == 'not':
        s = 'not ' + show(t.kids[0], 0)
    elif k == 'neg':
        s = '-' + show(t.kids[0], 0)
    elif k == 'tern':
        s = f'{show(t.kids[0], 6)} ? {show(t.kids[1], 6)} : {show(t.kids[2], 6)}'
    else:
        lv = LEVEL[k]
        left_max = lv - 1 if lv == 4 else lv
        s = f'{show(t.kids[0], left_max)} {k} {show(t.kids[1], lv - 1)}'
    return '(' + s + ')' if level(t) > maxlvl else s


def same_tree(mp, n, t: T_) -> bool:
    while type(n) is mp.ParenthesizedNode:
        n = n.inner
    k = t.kind
    if k == 'lit':
        while type(n) is mp.ParenthesizedNode:
            n = n.inner
        return type(n) in (mp.NumberNode, mp.BooleanNode, mp.IdNode, mp.StringNode, mp.ArrayNode)
    if k == 'not':
        return type(n) is mp.NotNode and same_tree(mp, n.value, t.kids[0])
    if k == 'neg':
        return type(n) is mp.UMinusNode and same_tree(mp, n.value, t.kids[0])
    if k == 'tern':
        return type(n) is mp.TernaryNode and same_tree(mp, n.condition, t.kids[0]) and \
            same_tree(mp, n.trueblock, t.kids[1]) and same_tree(mp, n.falseblock, t.kids[2])
    if k == 'or':
        ok = type(n) is mp.OrNode
    elif k == 'and':
        ok = type(n) is mp.AndNode
    elif k in ('+', '-', '*', '/', '%'):
        ok = type(n) is mp.ArithmeticNode and n.operation == k
    else:
        ok = type(n) is mp.ComparisonNode and n.ctype == k
    return ok and same_tree(mp, n.left, t.kids[0]) and same_tree(mp, n.right, t.kids[1])


def oracle_parse_laws(im, rng, n: int) -> T.List[Viol]:
    out: T.List[Viol] = []
    mp = im.mparser
    for code in REJECTED:
        try:
            im.parse(code)
        except mp.ParseException:
            continue
        except Exception as e:
            out.append((f'parse-crash:{code!r}', f'parser raised {type(e).__name__}', {'program': code}))
            continue
        # the parser lets a few of these through as trees with an EmptyNode operand; they must then fail to evaluate
        ok, _vs, ans = ev(im, code)
        if ok:
            out.append((f'parse-accepts:{code!r}', 'chained comparison / stacked unary / nested ternary evaluates successfully',
                        {'program': code, 'answer': ans}))
    for _ in range(n):
        t = rand_tree(rng, rng.choice([2, 3, 3, 4]))
        code = 'x = ' + show(t) + '\n'
        try:
            ast = im.parse(code)
        except Exception as e:
            out.append((f'parse-rejects:{code!r}', f'well-formed expression rejected: {type(e).__name__}', {'program': code}))
            continue
        st = ast.lines[0]
        if type(st) is not mp.AssignmentNode or not same_tree(mp, st.value, t):
            out.append((f'precedence:{code!r}', 'parse tree differs from the documented precedence / associativity', {'program': code}))
    return out


def oracle_precedence_values(im, rng, n: int) -> T.List[Viol]:
    """integer expressions without parentheses evaluate as the documented ladder says (left-assoc, * / % above + -)"""
    out: T.List[Viol] = []

    def val(t: T_) -> int:
        if t.kind == 'lit':
            return int(t.val)
        if t.kind == 'neg':
            return -val(t.kids[0])
        a, b = val(t.kids[0]), val(t.kids[1])
        if t.kind == '+':
            return a + b
        if t.kind == '-':
            return a - b
        if t.kind == '*':
            return a * b
        if b == 0:
            raise ZeroDivisionError
        q = a // b
        return q if t.kind == '/' else a - b * q

    def tree(d: int) -> T_:
        if d <= 0 or rng.random() < 0.3:
            return T_('lit', val=str(rng.randint(0, 9)))
        op = rng.choice(['+', '-', '*', '/', '%', 'neg'])
        if op == 'neg':
            return T_('neg', T_('lit', val=str(rng.randint(1, 9))))
        return T_(op, tree(d - 1), tree(d - 1))
    for _ in range(n):
        t = tree(4)
        try:
            want = val(t)
        except ZeroDivisionError:
            continue
        code = 'x = ' + show(t) + '\n'
        ok, vs, ans = ev(im, code)
        if not ok or vs['x'] != want or type(vs['x']) is not int:
            out.append((f'arith:{code!r}', f'expected {want}', {'program': code, 'answer': ans}))
    return out


def oracle_control(im, rng, n: int) -> T.List[Viol]:
    """foreach visits the elements in order; `continue` skips the rest of the body, `break` ends the loop;
    dict iteration is in insertion order; range(a, b, s) enumerates a, a+s, ... < b"""
    out: T.List[Viol] = []
    for _ in range(n):
        xs = [rng.randint(0, 9) for _ in range(rng.randint(0, 6))]
        c, b = rng.randint(0, 9), rng.randint(0, 9)
        code = (f'seen = []\nafter = []\nforeach x : {src_of(xs)}\n  if x == {b}\n    break\n  endif\n  seen += x\n'
                f'  if x == {c}\n    continue\n  endif\n  after += x\nendforeach\n')
        ok, vs, ans = ev(im, code)
        want_seen: T.List[int] = []
        want_after: T.List[int] = []
        for x in xs:
            if x == b:
                break
            want_seen.append(x)
            if x == c:
                continue
            want_after.append(x)
        if not ok or vs['seen'] != want_seen or vs['after'] != want_after:
            out.append((f'foreach:{code!r}', 'break/continue semantics', {'program': code, 'answer': ans}))
        keys = rng.sample(['q', 'a', 'm', 'B', 'z', ''], rng.randint(0, 5))
        code = f"ks = []\nforeach k, v : {src_of({k: i for i, k in enumerate(keys)})}\n  ks += k\nendforeach\n"
        ok, vs, ans = ev(im, code)
        if not ok or vs['ks'] != keys:
            out.append((f'foreach-dict:{code!r}', 'dict iteration order', {'program': code, 'answer': ans}))
        a, bb, s = rng.randint(0, 4), rng.randint(0, 12), rng.randint(1, 4)
        if bb < a:
            bb = a
        code = f"r = []\nforeach i : range({a}, {bb}, {s})\n  r += i\nendforeach\n"
        ok, vs, ans = ev(im, code)
        want = []
        i = a
        while i < bb:
            want.append(i)
            i += s
        if not ok or vs['r'] != want:
            out.append((f'foreach-range:{code!r}', 'range enumeration', {'program': code, 'answer': ans}))
    return out


def oracle_variables(im, rng, n: int) -> T.List[Viol]:
    """set_variable/get_variable/is_variable/unset_variable round trips and fresh `+=`"""
    out: T.List[Viol] = []
    for _ in range(n):
        v = rand_value(rng)
        w = rand_value(rng)
        code = (f"a = {src_of(v)}\nset_variable('b', a)\nc = get_variable('b')\ni1 = is_variable('b')\nunset_variable('b')\n"
                f"i2 = is_variable('b')\nd = get_variable('b', {src_of(w)})\n")
        ok, vs, ans = ev(im, code)
        if not ok or not deep_eq(vs['c'], v) or vs['i1'] is not True or vs['i2'] is not False or not deep_eq(vs['d'], w) or 'b' in vs:
            out.append((f'variables:{code!r}', 'set/get/is/unset_variable round trip', {'program': code, 'answer': ans}))
        if isinstance(v, list):
            code = f"a = {src_of(v)}\nb = a\nb += [{src_of(w)}]\n"
            ok, vs, ans = ev(im, code)
            if not ok or not deep_eq(vs['a'], v) or not deep_eq(vs['b'], v + [w]):
                out.append((f'plusassign:{code!r}', '`+=` changed the value seen through another name (or built the wrong value)',
                            {'program': code, 'answer': ans}))
        if isinstance(v, dict) and isinstance(w, (int, str, bool)):
            code = f"a = {src_of(v)}\nb = a\nb += {{'new': {src_of(w)}}}\n"
            ok, vs, ans = ev(im, code)
            want = dict(v)
            want['new'] = w
            if not ok or not deep_eq(vs['a'], v) or not deep_eq(vs['b'], want):
                out.append((f'plusassign:{code!r}', '`+=` on a dict changed the other name (or built the wrong value)',
                            {'program': code, 'answer': ans}))
    # a dictionary literal builds exactly the entries written, whatever the key is called
    for lit, want in [("{'kwargs': 1}", {'kwargs': 1}), ("{'kwargs': {'a': 1}}", {'kwargs': {'a': 1}}),
                      ("{'a': 2, 'kwargs': {'a': 1, 'kwargs': 3}}", {'a': 2, 'kwargs': {'a': 1, 'kwargs': 3}})]:
        code = f"d = {lit}\nn = d.keys()\n"
        ok, vs, ans = ev(im, code)
        if not ok or not deep_eq(vs.get('d'), want):
            out.append(('dict-literal-kwargs', "a dict literal with the key 'kwargs' is rejected / spliced instead of building that entry",
                        {'program': code, 'answer': ans}))
    return out


# ---------------------------------------------------------------- subdir() / subproject() end to end (real `meson setup`)

def meson_setup(files: T.Dict[str, str], base: str) -> T.Tuple[int, T.List[str]]:
    """write the tree, run the real `meson setup --backend=none`; -> (exit status, Message: lines)"""
    import os
    import subprocess
    import sys
    import tempfile
    from . import common
    d = tempfile.mkdtemp(prefix='p-', dir=base)
    for rel, text in files.items():
        p = os.path.join(d, 'src', rel)
        os.makedirs(os.path.dirname(p), exist_ok=True)
        with open(p, 'w', encoding='utf-8') as f:
            f.write(text)
    env = dict(os.environ)
    env['PYTHONPATH'] = common.REPO
    env['PYTHONDONTWRITEBYTECODE'] = '1'
    p = subprocess.run([sys.executable, os.path.join(common.REPO, 'meson.py'), 'setup', '--backend=none',
                        os.path.join(d, 'bld'), os.path.join(d, 'src')],
                       stdout=subprocess.PIPE, stderr=subprocess.STDOUT, text=True, env=env, timeout=300)
    msgs = []
    for l in p.stdout.split('\n'):
        if l.startswith('Message: '):
            msgs.append(l[len('Message: '):])
        elif l.startswith('sp| Message:'):           # lines logged while inside subproject 'sp' (mlog strips them)
            msgs.append('sp| ' + l[len('sp| Message:'):].strip())
    common.rmtree(d)
    return p.returncode, msgs


def dump_vars(names: T.Iterable[str]) -> str:
    return ''.join(f"message('{n}', is_variable('{n}') ? get_variable('{n}') : '<unset>')\n" for n in sorted(names))


def oracle_files(im, rng, n: int, base: str) -> T.List[Viol]:
    """subdir(): the file runs as if written in place, sharing all variables.
    subproject(): its variables are reachable only through get_variable(); the two scopes do not leak."""
    out: T.List[Viol] = []
    for _ in range(n):
        g = c01_gen.Gen(rng, max_stmts=6)
        prog = g.program()
        try:
            ast = im.parse(prog)
        except Exception:
            continue
        if len(ast.lines) < 2:
            continue
        # split at a top-level statement boundary (statement i starts at its lineno)
        cut1 = rng.randint(1, len(ast.lines) - 1)
        cut2 = rng.randint(cut1 + 1, len(ast.lines))
        lines = prog.split('\n')
        l1 = ast.lines[cut1].lineno - 1
        l2 = ast.lines[cut2].lineno - 1 if cut2 < len(ast.lines) else len(lines)
        pre, mid, post = '\n'.join(lines[:l1]) + '\n', '\n'.join(lines[l1:l2]) + '\n', '\n'.join(lines[l2:]) + '\n'
        names = set(c01_gen.NAMES) | set(c01_gen.LOOPNAMES)
        tail = dump_vars(names)
        whole = "project('w')\n" + pre + mid + post + tail
        split = "project('w')\n" + pre + "subdir('sub')\n" + post + tail
        if not mid.strip():
            continue
        rc1, m1 = meson_setup({'meson.build': whole}, base)
        rc2, m2 = meson_setup({'meson.build': split, 'sub/meson.build': mid}, base)
        if (rc1 == 0) != (rc2 == 0) or m1 != m2:
            out.append((f'subdir:{prog!r}:{cut1}:{cut2}', 'a file run through subdir() does not behave as if written in place',
                        {'program': prog, 'whole': whole, 'sub': mid, 'rc': [rc1, rc2], 'messages_whole': m1[-6:], 'messages_split': m2[-6:]}))
        # subproject isolation
        g2 = c01_gen.Gen(rng, max_stmts=5)
        q = g2.program()
        rcq, mq = meson_setup({'meson.build': "project('q')\n" + q + tail}, base)
        rcp, mp = meson_setup({'meson.build': "project('w')\n" + pre + tail}, base)
        if rcq != 0 or rcp != 0:
            continue
        main = ("project('w')\n" + pre + "sp = subproject('sp')\n" + tail.replace("message('sp',", "message('sp_',") +
                ''.join(f"message('via', '{v}', sp.get_variable('{v}', '<unset>'))\n" for v in sorted(names)))
        main = main.replace("message('sp', is_variable('sp') ? get_variable('sp') : '<unset>')\n", '')
        rc3, m3 = meson_setup({'meson.build': main, 'subprojects/sp/meson.build': "project('sp')\n" + q + tail}, base)
        if rc3 != 0:
            out.append((f'subproject:{prog!r}:{q!r}', 'subproject() of a valid file failed', {'main': main, 'sub': q}))
            continue
        k = len(names)
        # messages of the subproject run are those of q standalone (no variable of the parent is visible)
        if mq and not contains_run(m3, ['sp| ' + m.strip() for m in mq]):
            out.append((f'subproject-scope:{prog!r}:{q!r}', 'the subproject does not evaluate as it does standalone (parent variables leak in?)',
                        {'main': main, 'sub': q, 'standalone': mq[-6:], 'inside': m3[-12:]}))
        # after the call the parent's variables are exactly what they were (plus `sp`)
        after = [m for m in m3 if not m.startswith('via ') and not m.startswith('sp| ')][-k:]
        before = mp[-k:]
        if [m for m in after if not m.startswith('sp ')] != [m for m in before if not m.startswith('sp ')]:
            out.append((f'subproject-leak:{prog!r}:{q!r}', 'subproject() changed or added variables of the calling scope',
                        {'main': main, 'sub': q, 'before': before, 'after': after}))
        # and get_variable() reaches exactly the subproject's final variables
        via = [m for m in m3 if m.startswith('via ')]
        want = ['via ' + m for m in mq[-k:]]
        if via != want:
            out.append((f'subproject-get:{prog!r}:{q!r}', 'sp.get_variable() does not return the subproject\'s variables',
                        {'main': main, 'sub': q, 'via': via, 'want': want}))
    return out


def contains_run(hay: T.List[str], needle: T.List[str]) -> bool:
    n = len(needle)
    return any(hay[i:i + n] == needle for i in range(len(hay) - n + 1))


# ---------------------------------------------------------------- string literals: escapes x literal kinds

OCT = '01234567'
HEX = '0123456789abcdefABCDEF'
SIMPLE_ESC = {'\\': '\\', "'": "'", 'a': '\a', 'b': '\b', 'f': '\f', 'n': '\n', 'r': '\r', 't': '\t', 'v': '\v'}


def ref_decode(raw: str) -> str:
    """reference decoder written from docs/markdown/Syntax.md ("Strings"): the listed escape sequences are
    replaced, anything else after a backslash leaves the backslash in the string"""
    import unicodedata
    out = []
    i, n = 0, len(raw)
    while i < n:
        c = raw[i]
        if c != '\\' or i + 1 >= n:
            out.append(c)
            i += 1
            continue
        d = raw[i + 1]
        if d in SIMPLE_ESC:
            out.append(SIMPLE_ESC[d])
            i += 2
        elif d in OCT:
            j = i + 1
            while j < n and j < i + 4 and raw[j] in OCT:
                j += 1
            out.append(chr(int(raw[i + 1:j], 8)))
            i = j
        elif d == 'x' and i + 3 < n + 0 and all(ch in HEX for ch in raw[i + 2:i + 4]) and len(raw[i + 2:i + 4]) == 2:
            out.append(chr(int(raw[i + 2:i + 4], 16)))
            i += 4
        elif d == 'u' and len(raw[i + 2:i + 6]) == 4 and all(ch in HEX for ch in raw[i + 2:i + 6]):
            out.append(chr(int(raw[i + 2:i + 6], 16)))
            i += 6
        elif d == 'U' and len(raw[i + 2:i + 10]) == 8 and all(ch in HEX for ch in raw[i + 2:i + 10]) \
                and int(raw[i + 2:i + 10], 16) <= 0x10FFFF:
            out.append(chr(int(raw[i + 2:i + 10], 16)))
            i += 10
        elif d == 'N' and raw[i + 2:i + 3] == '{' and '}' in raw[i + 3:] and raw.index('}', i + 3) > i + 3:
            j = raw.index('}', i + 3)
            try:
                out.append(unicodedata.lookup(raw[i + 3:j]))
                i = j + 1
            except KeyError:
                out.append(c)
                i += 1
        else:
            out.append(c)        # unrecognised: the backslash stays
            i += 1
    return ''.join(out)


def ref_substitute(text: str, variables: T.Dict[str, str]) -> T.Optional[str]:
    """f-string placeholders `@name@` (identifier syntax) replaced by the variable's text; None = unknown name"""
    import re
    missing = []

    def rep(m: T.Any) -> str:
        if m.group(1) not in variables:
            missing.append(m.group(1))
            return ''
        return variables[m.group(1)]
    res = re.sub(r'@([_a-zA-Z][_0-9a-zA-Z]*)@', rep, text)
    return None if missing else res


KINDS = {'s': ("'", "'"), 'm': ("'''", "'''"), 'fs': ("f'", "'"), 'fm': ("f'''", "'''")}
ESCAPE_FORMS = ['\\\\', "\\'", '\\a', '\\b', '\\f', '\\n', '\\r', '\\t', '\\v', '\\0', '\\7', '\\41', '\\101', '\\377', '\\x41',
                '\\x7e', '\\xe9', '\\u20ac', '\\u0041', '\\U0001F600', '\\U00000041', '\\N{EURO SIGN}', '\\N{LATIN SMALL LETTER A}',
                '\\q', '\\x4', '\\u12', '\\N{}', '\\8', '\\ ']


def literal_kind(text: str) -> T.Optional[str]:
    """which of the four documented literal forms a piece of source text is (by its delimiters only)"""
    if text.startswith("f'''") and text.endswith("'''") and len(text) >= 7:
        return 'fm'
    if text.startswith("'''") and text.endswith("'''") and len(text) >= 6:
        return 'm'
    if text.startswith("f'") and text.endswith("'") and len(text) >= 3:
        return 'fs'
    if text.startswith("'") and text.endswith("'") and len(text) >= 2:
        return 's'
    return None


def expected_value(kind: str, content: str, variables: T.Dict[str, str]) -> T.Optional[str]:
    """the value the reference prescribes for a literal with this content: escapes decoded in '...' and f'...',
    nothing decoded in '''...''' and f'''...'''; placeholders of the f forms substituted afterwards"""
    text = ref_decode(content) if kind in ('s', 'fs') else content
    if kind in ('fs', 'fm'):
        return ref_substitute(text, variables)
    return text


def string_token_kinds(im) -> T.Set[str]:
    """the string token kinds of the CURRENT lexer (token_specification names mentioning `string`)"""
    return {name for name, _re in im.mparser.Lexer('').token_specification if 'string' in name}


def oracle_escape_product(im) -> T.Tuple[T.List[Viol], T.Set[str], int]:
    """literal kind x escape form x position: the evaluated value (variable and message()) must be what the
    reference decoder says.  -> (violations, token kinds reached, programs)"""
    out: T.List[Viol] = []
    reached: T.Set[str] = set()
    n = 0
    variables = {'who': 'W'}
    for kind, (op, cl) in KINDS.items():
        for esc in ESCAPE_FORMS:
            positions = {'start': esc + 'q', 'middle': 'p' + esc + 'q', 'end': 'p' + esc, 'before-var': 'p' + esc + '@who@',
                         'after-var': '@who@' + esc + 'q', 'doubled': 'p\\\\' + esc + 'q', 'twice': esc + esc + 'q',
                         'windows-path': 'C:\\temp\\new\\' + '@who@' + esc}
            for pos, content in positions.items():
                if kind in ('m', 'fm') and (content.endswith("'") or "'''" in content):
                    continue
                if kind in ('s', 'fs') and esc == '\\ ' and pos == 'end':
                    pass
                if kind in ('s', 'fs') and content.endswith('\\') and not content.endswith('\\\\'):
                    continue
                if kind in ('fs',) and '@' in ref_decode(content).replace('@who@', ''):
                    continue   # an escape producing `@` next to identifier characters: not specified anywhere
                lit = op + content + cl
                code = f"who = 'W'\nx = {lit}\nmessage(x)\n"
                try:
                    toks = [t.tid for t in im.mparser.Lexer(lit).lex('x')]
                    reached.update(t for t in toks if 'string' in t)
                except Exception:
                    pass
                want = expected_value(kind, content, variables)
                ok, vs, ans = ev(im, code)
                n += 1
                if want is None:
                    continue
                if not ok or vs.get('x') != want or im.messages[-1:] != [want]:
                    got = vs.get('x') if vs else ans
                    out.append((f'escape:{kind}:{esc}:{pos}',
                                f'literal {lit!r} evaluates to {got!r}, the reference prescribes {want!r}',
                                {'program': code, 'answer': ans, 'expected': want}))
    return out, reached, n


def iter_nodes(mp, node: T.Any) -> T.Iterator[T.Any]:
    """every BaseNode below `node` (reflection over attributes, so new node kinds are walked too)"""
    seen: T.Set[int] = set()
    stack = [node]
    while stack:
        n = stack.pop()
        if id(n) in seen:
            continue
        seen.add(id(n))
        if isinstance(n, mp.BaseNode):
            yield n
            for k, v in vars(n).items():
                if k == 'whitespaces':
                    continue
                stack.append(v)
        elif isinstance(n, (list, tuple)):
            stack.extend(n)
        elif isinstance(n, dict):
            stack.extend(n.keys())
            stack.extend(n.values())


def check_string_nodes(im, code: str, ast: T.Any) -> T.List[Viol]:
    """for every string literal of a parsed program: the value the parser hands to the interpreter must be
    the reference decoding of the literal's SOURCE TEXT (kind taken from its delimiters, not from parser flags)"""
    out: T.List[Viol] = []
    mp = im.mparser
    for n in iter_nodes(mp, ast):
        if type(n) is not mp.StringNode:
            continue
        span = getattr(n, 'bytespan', None)
        if not span:
            continue
        text = code[span[0]:span[1]]
        kind = literal_kind(text)
        if kind is None:
            continue
        op, cl = KINDS[kind]
        content = text[len(op):len(text) - len(cl)]
        want = ref_decode(content) if kind in ('s', 'fs') else content
        if n.value != want:
            out.append((f'literal-value:{kind}:{text!r}', f'the {kind} literal {text!r} is handed to the interpreter as {n.value!r}, '
                        f'the reference prescribes {want!r} before substitution', {'program': code, 'literal': text}))
    return out


# ---------------------------------------------------------------- f-strings / .format(): one pass, no rescanning

def scalar_text(v: T.Any) -> str:
    """how the reference prints a scalar: true/false, decimal digits, the string itself"""
    if isinstance(v, bool):
        return 'true' if v else 'false'
    return str(v)


def oracle_substitution(im, rng, n: int) -> T.List[Viol]:
    """f'...@name@...' and '...@N@...'.format(...) replace every placeholder exactly once, left to right, with the
    text of the value; text that was inserted is never scanned again (values that look like placeholders stay as they
    are); a placeholder without a variable / argument is an error; everything else is copied verbatim"""
    import re
    out: T.List[Viol] = []
    names = ['x', 'y', '_z', 'x1', 'n_', 'X']
    tricky = ['@x@', '@y@', '@0@', '@1@', '@', '@@', 'x', '', 'a b', '1', 'true', '@x', 'x@']
    for _ in range(n):
        defined = rng.sample(names, rng.randint(1, 4))
        vals: T.Dict[str, T.Any] = {}
        for nm in defined:
            r = rng.random()
            vals[nm] = rng.choice(tricky) if r < 0.5 else (rng.random() < 0.5) if r < 0.7 else rng.randint(-3, 12)
        pieces = []
        for _k in range(rng.randint(1, 5)):
            r = rng.random()
            if r < 0.5:
                pieces.append('@' + rng.choice(defined if rng.random() < 0.93 else names) + '@')
            elif r < 0.6:
                pieces.append('@' + str(rng.randint(0, 2)) + '@')
            else:
                pieces.append(rng.choice(['@', '@@', 'x', ' ', ':', '@ x@', '@x y@', '@1x@', '-', 'x@', '@y', '_']))
        tpl = ''.join(pieces)
        defs = ''.join(f'{nm} = {src_of(v)}\n' for nm, v in vals.items())
        code = defs + f"r = f'{tpl}'\n"
        want = ref_substitute(tpl, {nm: scalar_text(v) for nm, v in vals.items()})
        ok, vs, ans = ev(im, code)
        if want is None:
            if ok:
                out.append((f'fstring-undefined:{code!r}', 'an f-string naming an undefined variable evaluates', {'program': code, 'answer': ans}))
        elif not ok or vs.get('r') != want:
            out.append((f'fstring:{code!r}', f'the f-string evaluates to {vs.get("r") if vs else ans!r}, the reference prescribes {want!r} '
                        '(each @name@ replaced once, inserted text not rescanned)', {'program': code, 'answer': ans, 'expected': want}))
        # the same template shape with positional placeholders
        args = [rng.choice(tricky) if rng.random() < 0.5 else (rng.random() < 0.5) if rng.random() < 0.4 else rng.randint(-3, 12)
                for _k in range(rng.randint(0, 3))]
        ftpl = ''.join(rng.choice(['@0@', '@1@', '@2@', '@0@', '@', 'x', '@@', '@ 0@', '@00@', '@x@', ':', '@1', '0@'])
                       for _k in range(rng.randint(1, 5)))
        code = f"r = {src_of(ftpl)}.format({', '.join(src_of(a) for a in args)})\n"
        texts = [scalar_text(a) for a in args]
        nums = [int(m) for m in re.findall(r'@([0-9]+)@', ftpl)]
        ok, vs, ans = ev(im, code)
        if any(k >= len(texts) for k in nums):
            if ok:
                out.append((f'format-out-of-range:{code!r}', 'a placeholder number without an argument does not fail', {'program': code, 'answer': ans}))
        else:
            want = re.sub(r'@([0-9]+)@', lambda m: texts[int(m.group(1))], ftpl)
            if not ok or vs.get('r') != want:
                out.append((f'format:{code!r}', f'.format() gives {vs.get("r") if vs else ans!r}, the reference prescribes {want!r}',
                            {'program': code, 'answer': ans, 'expected': want}))
    return out


# ---------------------------------------------------------------- documented methods: reference values

def judge_calls(im, code: str) -> T.List[Viol]:
    """every method call on a primitive value observed while the implementation ran `code` must return what
    the documentation-derived reference (`c01_ref.ref_method`) prescribes — value, or failure"""
    from . import c01_ref
    out: T.List[Viol] = []
    for recv, name, args, kwargs, res in im.calls:
        try:
            want = c01_ref.ref_method(recv, name, list(args), dict(kwargs))
        except RecursionError:
            continue
        if want is None:
            continue
        t = c01_ref.tyname(recv)
        call = None
        try:
            call = f'x = {src_of(recv)}.{name}(' + ', '.join([src_of(a) for a in args] + [f'{k}: {src_of(v)}' for k, v in kwargs.items()]) + ')\n'
        except Exception:
            pass
        case = {'program': call or code, 'found_in': code, 'receiver': repr(recv), 'method': name, 'args': repr(args), 'kwargs': repr(kwargs)}
        if want[0] == 'error':
            if res[0] == 'ok':
                out.append((f'method:{t}.{name}:accepts:{args!r}:{kwargs!r}', f'{t}.{name}{tuple(args)!r} succeeds with {res[1]!r}; the '
                            'reference manual prescribes a failure (argument type/count, or no value to return)',
                            dict(case, got=repr(res[1]))))
            continue
        if res[0] != 'ok':
            out.append((f'method:{t}.{name}:fails:{recv!r}:{args!r}', f'{t}.{name} fails with {res[1]}; the reference manual prescribes '
                        f'{want[1]!r}', dict(case, expected=repr(want[1]))))
            continue
        if want[0] == 'ok2':
            strict, loose = want[1], want[2]
            if deep_eq(res[1], strict):
                continue
            if deep_eq(res[1], loose):
                out.append(('container-eq-bool-int', 'values of different types compare equal inside a container', case))
                continue
            want = ('ok', strict)
        if not deep_eq(res[1], want[1]):
            key = f'method:{t}.{name}:{recv!r}:{args!r}:{kwargs!r}'
            if t == 'bool' and name == 'to_string' and len(args) == 2 and '' in args:
                key = 'bool-to-string-empty'
            out.append((key, f'{t}.{name}: the implementation returns {res[1]!r}, the reference manual prescribes {want[1]!r} '
                        f'for receiver {recv!r} and arguments {args!r} {kwargs!r}', dict(case, got=repr(res[1]), expected=repr(want[1]))))
    return out


def rand_nested(rng, depth: int = 0) -> T.Any:
    r = rng.random()
    if r < 0.3:
        return rng.randint(-3, 9)
    if r < 0.4:
        return rng.random() < 0.5
    if r < 0.65 or depth >= 3:
        return rng.choice(['', 'a', 'b', 'x', 'z', 'ab', 'a b', '1', 'a,b'])
    if r < 0.9:
        return [rand_nested(rng, depth + 1) for _ in range(rng.randint(0, 3))]
    return {k: rand_nested(rng, depth + 1) for k in rng.sample(['a', 'b', 'k', 'z', ''], rng.randint(0, 3))}


def subvalues(v: T.Any) -> T.List[T.Any]:
    out = [v]
    if isinstance(v, list):
        for x in v:
            out += subvalues(x)
    elif isinstance(v, dict):
        for x in v.values():
            out += subvalues(x)
    return out


def oracle_method_relations(im, rng, n: int) -> T.List[Viol]:
    """documented methods on nested receivers and structured arguments (needles of every kind, taken from inside the
    receiver and from outside; negative / out-of-range indices; fallbacks), judged by the reference through the
    observed calls, plus the relations that tie methods to operators"""
    out: T.List[Viol] = []
    for _ in range(n):
        arr = [rand_nested(rng, 1) for _ in range(rng.randint(0, 4))]
        inside = subvalues(arr)[1:]
        needle = rng.choice(inside) if inside and rng.random() < 0.6 else rand_nested(rng, 1)
        d = {k: rand_nested(rng, 1) for k in rng.sample(['a', 'b', 'k', 'z', '', 'kk'], rng.randint(0, 4))}
        key = rng.choice(list(d) + ['a', 'q', ''])
        i = rng.randint(-len(arr) - 2, len(arr) + 1)
        fb = rand_nested(rng, 2)
        s = rng.choice(['a,b,,c', 'x', '', 'a b  c', ',', 'ab,ab', 'one two', 'a-b-c'])
        sep = rng.choice([',', ' ', 'ab', '-', 'b'])
        num = rng.randint(-300, 300)
        fill = rng.randint(0, 6)
        flat = [x for x in arr if not isinstance(x, (list, dict))]
        lines = [
            f'arr = {src_of(arr)}', f'needle = {src_of(needle)}', f'd = {src_of(d)}', f'flat = {src_of(flat)}',
            'c1 = arr.contains(needle)',
            'c2 = arr.flatten().contains(needle)',
            'c3 = flat.contains(needle) == (needle in flat)',
            'c4 = [arr, [needle]].contains(needle)',
            'c5 = [[arr]].contains(arr)',
            'n1 = 0', 'foreach e : arr', '  n1 += 1', 'endforeach',
            'n2 = arr.length() == n1 and arr.slice().length() == n1',
            f'g1 = arr.get({int_src(i)}, {src_of(fb)})',
            f'h1 = d.has_key({src_of(key)}) == ({src_of(key)} in d)',
            f'g2 = d.get({src_of(key)}, {src_of(fb)})',
            'k1 = d.keys().length() == d.values().length()',
            f's = {src_of(s)}', f'sep = {src_of(sep)}',
            'j1 = sep.join(s.split(sep)) == s',
            f'num = {int_src(num)}',
            f't1 = num.to_string().to_int() == num and num.to_string(fill: {fill}).to_int() == num',
            't2 = true.to_string().to_upper() == \'TRUE\' and false.to_int() == 0 and num.is_even() != num.is_odd()',
            f'sl = arr.slice({int_src(rng.randint(-5, 5))}, {int_src(rng.randint(-5, 5))}, step: {rng.choice([1, 2, -1, -2, 3])})',
            f'sub = s.substring({int_src(rng.randint(-8, 8))}, {int_src(rng.randint(-8, 8))})',
        ]
        code = '\n'.join(lines) + '\n'
        im.record_calls = True
        try:
            ok, vs, ans = ev(im, code)
            out += judge_calls(im, code)
        finally:
            im.record_calls = False
        if not ok:
            out.append((f'relations:{code!r}', 'a program using only documented methods on well-typed values failed', {'program': code, 'answer': ans}))
            continue
        for name in ('c3', 'n2', 'h1', 'k1', 'j1', 't1', 't2'):
            if vs.get(name) is not True:
                out.append((f'relation:{name}:{code!r}', f'the relation `{[l for l in lines if l.startswith(name + " =")][0]}` does not hold',
                            {'program': code, 'answer': ans}))
        if vs.get('c4') is not True or vs.get('c5') is not True:
            out.append((f'relation:contains-nested:{code!r}', 'an array that holds the sought value (itself an array or not) in a nested array does not contain it',
                        {'program': code, 'answer': ans}))
        # index / key access agrees with the operators
        for expr, alt in ((f'arr.get({int_src(i)})', f'arr[{int_src(i)}]'), (f'd.get({src_of(key)})', f'd[{src_of(key)}]')):
            c2 = '\n'.join(lines[:4]) + f'\nu = {expr}\n'
            c3 = '\n'.join(lines[:4]) + f'\nu = {alt}\n'
            ok2, vs2, a2 = ev(im, c2)
            ok3, vs3, a3 = ev(im, c3)
            if ok2 != ok3 or (ok2 and not deep_eq(vs2['u'], vs3['u'])):
                out.append((f'relation:get-index:{c2!r}', f'`{expr}` and `{alt}` disagree', {'program': c2, 'other': c3, 'answers': [a2, a3]}))
    return out
