"""C17 — constants of mesonbuild.ast.printer / CPython str semantics the Lean model depends on,
re-extracted from the live objects on every run (MesonModel/Generated/PrecTable.lean)."""
from __future__ import annotations

import inspect
import os
import re
import typing as T

from . import common

# (Lean name, meson snippet, path from the statement node to the node whose class is probed)
_PROBES: T.List[T.Tuple[str, str, T.Callable[[T.Any], T.Any]]] = [
    ('plusAssign', 'a += 1', lambda n: n),
    ('assign', 'a = 1', lambda n: n),
    ('ternary', 'a ? b : c', lambda n: n),
    ('orNode', 'a or b', lambda n: n),
    ('andNode', 'a and b', lambda n: n),
    ('cmpEq', 'a == b', lambda n: n),
    ('cmpNe', 'a != b', lambda n: n),
    ('cmpLt', 'a < b', lambda n: n),
    ('cmpLe', 'a <= b', lambda n: n),
    ('cmpGt', 'a > b', lambda n: n),
    ('cmpGe', 'a >= b', lambda n: n),
    ('cmpIn', 'a in b', lambda n: n),
    ('cmpNotIn', 'a not in b', lambda n: n),
    ('arithAdd', 'a + b', lambda n: n),
    ('arithSub', 'a - b', lambda n: n),
    ('arithMod', 'a % b', lambda n: n),
    ('arithMul', 'a * b', lambda n: n),
    ('arithDiv', 'a / b', lambda n: n),
    ('notNode', 'not a', lambda n: n),
    ('uminus', '-a', lambda n: n),
    ('call', 'f()', lambda n: n),
    ('index', 'a[0]', lambda n: n),
    ('method', 'a.f()', lambda n: n),
    ('array', '[]', lambda n: n),
    ('dict', '{}', lambda n: n),
    ('boolNode', 'true', lambda n: n),
    ('idNode', 'a', lambda n: n),
    ('number', '1', lambda n: n),
    ('string', "'s'", lambda n: n),
]


def _parse_stmt(code: str):
    from mesonbuild import mparser
    return mparser.Parser(code + '\n', 'probe').parse().lines[0]


def extract() -> T.Dict[str, T.Any]:
    from mesonbuild import mparser
    from mesonbuild.ast import printer as P
    prec: T.List[T.Tuple[str, int]] = []
    for name, code, path in _PROBES:
        node = path(_parse_stmt(code))
        prec.append((name, int(P.precedence_level(node))))
    prec.append(('emptyNode', int(P.precedence_level(mparser.EmptyNode(0, 0, '')))))
    # ComparisonNode: one level whatever the comparison operator (the model has one entry)
    cmps = sorted({l for n, l in prec if n.startswith('cmp')})
    if len(cmps) != 1:
        raise ValueError(f'precedence_level of ComparisonNode depends on the operator: {cmps}')
    prec = [(n, l) for n, l in prec if not n.startswith('cmp')] + [('comparison', cmps[0])]
    # ParenthesizedNode: same level as the inner node, for every probe
    paren_transparent = True
    for name, code, path in _PROBES:
        if name in ('plusAssign', 'assign'):
            continue
        inner = path(_parse_stmt(code))
        outer = _parse_stmt('(' + code + ')')
        if not isinstance(outer, mparser.ParenthesizedNode) or P.precedence_level(outer) != P.precedence_level(inner):
            paren_transparent = False
    trans = P.AstPrinter.escape_trans
    esc: T.List[T.Tuple[int, T.List[int]]] = []
    for k in sorted(trans):
        v = trans[k]
        if v is None:
            esc.append((k, []))
        elif isinstance(v, int):
            esc.append((k, [v]))
        else:
            esc.append((k, [ord(c) for c in v]))
    sig = inspect.signature(P.AstPrinter.__init__)
    indent = int(sig.parameters['indent'].default)
    cutoff = int(sig.parameters['arg_newline_cutoff'].default)
    # CPython facts the model relies on (str.isspace == regex \s for str patterns; str.splitlines separators)
    spaces = [c for c in range(0x110000) if chr(c).isspace()]
    re_spaces = [c for c in range(0x110000) if re.match(r'\s', chr(c))]
    seps = [c for c in range(0x110000) if len(('a' + chr(c) + 'b').splitlines()) == 2]
    # classes AstPrinter treats as "simple" arguments (no line break forced)
    simple = sorted(n for n in ('BooleanNode', 'IdNode', 'NumberNode', 'StringNode', 'IndexNode', 'ArrayNode', 'DictNode',
                                'FunctionNode', 'MethodNode', 'ArithmeticNode', 'OrNode', 'AndNode', 'ComparisonNode',
                                'NotNode', 'UMinusNode', 'TernaryNode', 'ParenthesizedNode')
                    if issubclass(getattr(mparser, n), (mparser.ElementaryNode, mparser.IndexNode)))
    key = probe_sort_key()
    return {'sort_line': key['line'], 'sort_col': key['col'], 'prec': prec, 'paren_transparent': paren_transparent, 'esc': esc, 'indent': indent, 'cutoff': cutoff,
            'spaces': spaces, 're_spaces_same': spaces == re_spaces, 'seps': seps, 'simple': simple}


def probe_sort_key() -> T.Dict[str, bool]:
    """what `apply_changes` sorts its work list by, observed on the real method: two synthetic modified nodes are queued
    in ASCENDING position order (a) on two lines, (b) on one line; the rewritten text is right only if the later node
    was applied first, i.e. only if the line / the column is part of the descending sort key."""
    import copy
    import tempfile
    from mesonbuild import mparser, rewriter as RW, mlog
    res = {}
    for name, text, good in (('line', 'f([1],\n  [2])\n', 'f([1, 1],\n  [2, 2])\n'),
                             ('col', 'f([1], [2])\n', 'f([1, 1], [2, 2])\n')):
        d = tempfile.mkdtemp(prefix='c17key-')
        try:
            path = os.path.join(d, 'meson.build')
            with open(path, 'w', encoding='utf-8') as fh:
                fh.write(text)
            call = mparser.Parser(text, path).parse().lines[0]
            a, b = call.args.arguments
            for n in (a, b):
                n.args.arguments = n.args.arguments + [copy.copy(n.args.arguments[0])]
            rw = RW.Rewriter.__new__(RW.Rewriter)
            rw.modified_nodes, rw.to_remove_nodes, rw.to_add_nodes = [a, b], [], []
            quiet = mlog._logger.log_disable_stdout
            mlog._logger.log_disable_stdout = True
            try:
                rw.apply_changes()
            finally:
                mlog._logger.log_disable_stdout = quiet
            with open(path, encoding='utf-8') as fh:
                res[name] = fh.read() == good
        finally:
            common.rmtree(d)
    return res


def lean_text(t: T.Dict[str, T.Any]) -> str:
    def chars(l: T.List[int]) -> str:
        return '[' + ', '.join(f'Char.ofNat {c}' for c in l) + ']'
    out = ['/- generated by harness/c17_tables.py from mesonbuild.ast.printer (live objects) and CPython str; do not edit -/',
           'namespace MesonModel.Generated.PrecTable',
           '/-! `precedence_level` evaluated on one parsed instance of every node class -/']
    for name, lvl in t['prec']:
        out.append(f'def {name} : Nat := {lvl}')
    out.append('/-- `precedence_level(ParenthesizedNode(x)) == precedence_level(x)` for every probed class -/')
    out.append(f'def parenTransparent : Bool := {"true" if t["paren_transparent"] else "false"}')
    out.append('/-- `AstPrinter.escape_trans` (`str.translate` table): code point ↦ replacement text -/')
    out.append('def escapeTrans : List (Char × List Char) := [' +
               ', '.join(f'(Char.ofNat {k}, {chars(v)})' for k, v in t['esc']) + ']')
    out.append(f'def indent : Nat := {t["indent"]}')
    out.append(f'def argNewlineCutoff : Nat := {t["cutoff"]}')
    out.append('/-- code points with `str.isspace()` (identical to regex `\\s` on `str`: ' +
               ('checked' if t['re_spaces_same'] else 'DIFFERS') + ') -/')
    out.append('def pySpace : List Nat := [' + ', '.join(str(c) for c in t['spaces']) + ']')
    out.append('/-- code points at which `str.splitlines()` breaks a line -/')
    out.append('def lineSeps : List Nat := [' + ', '.join(str(c) for c in t['seps']) + ']')
    out.append('/-- `apply_changes` applies a later LINE before an earlier one (probed on the real method with two queued nodes) -/')
    out.append(f'def sortKeyUsesLine : Bool := {"true" if t["sort_line"] else "false"}')
    out.append('/-- … and, on one line, a later COLUMN before an earlier one -/')
    out.append(f'def sortKeyUsesColumn : Bool := {"true" if t["sort_col"] else "false"}')
    out.append('/-- node classes that are `ElementaryNode` or `IndexNode` (do not force `break_args`) -/')
    out.append('def simpleArgClasses : List String := [' + ', '.join('"%s"' % s for s in t['simple']) + ']')
    out.append('end MesonModel.Generated.PrecTable')
    return '\n'.join(out) + '\n'


def write(ctx: T.Any = None) -> bool:
    body = lean_text(extract())
    path = os.path.join(common.LEAN, 'MesonModel', 'Generated', 'PrecTable.lean')
    old = open(path, encoding='utf-8').read() if os.path.exists(path) else None
    if old != body:
        with open(path, 'w', encoding='utf-8') as f:
            f.write(body)
        return True
    return False
