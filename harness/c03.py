"""C03 — commands receive exactly the arguments the build definition specifies.

Tie (a): the quoting functions of /repo against the Lean model on all short strings over a
metacharacter alphabet and random longer ones; the consumer specifications of the model
(`shSplit`, `buildargv`) against real /bin/sh and real `gcc @file`.
Tie (b): generated projects -> `meson setup` (fake ninja) -> build.ninja -> model `ninjaEval` ->
real /bin/sh -> dumper program; recorded argv compared with the list the build definition gave.
The property oracle (`ctx.violation`) never consults the model's quoting functions.
"""
from __future__ import annotations

import io
import itertools
import json
import os
import re
import shlex
import subprocess
import sys
import types
import typing as T
from concurrent.futures import ThreadPoolExecutor

from . import common
from .common import Ctx, enc, dec

ID = 'C03'
LEVEL = 'proof'
LEAN_TARGETS = ['MesonModel.Props.C03']
AREAS = ['quote']
PINS = [
    'mesonbuild.backend.ninjabackend:ninja_quote',
    'mesonbuild.backend.ninjabackend:gcc_rsp_quote',
    'mesonbuild.backend.ninjabackend:cmd_quote',
    'mesonbuild.backend.ninjabackend:NinjaRule',
    'mesonbuild.backend.ninjabackend:NinjaBuildElement.write',
    'mesonbuild.backend.ninjabackend:NinjaBackend.generate_custom_target',
    'mesonbuild.backend.ninjabackend:NinjaBackend.generate_run_target',
    'mesonbuild.backend.ninjabackend:NinjaBackend.generate_genlist_for_target',
    'mesonbuild.backend.ninjabackend:NinjaBackend.replace_paths',
    'mesonbuild.backend.backends:Backend.escape_extra_args',
    'mesonbuild.backend.backends:Backend.replace_extra_args',
    'mesonbuild.backend.backends:Backend.replace_outputs',
    'mesonbuild.build:Generator.get_arglist',
    'mesonbuild.backend.backends:Backend.as_meson_exe_cmdline',
    'mesonbuild.backend.backends:Backend.get_executable_serialisation',
    'mesonbuild.backend.backends:Backend.eval_custom_target_command',
    'mesonbuild.backend.backends:Backend.create_test_serialisation',
    'mesonbuild.utils.universal:quote_arg',
    'mesonbuild.utils.universal:join_args',
    'mesonbuild.utils.universal:substitute_values',
    'mesonbuild.utils.universal:_substitute_values_check_errors',
    'mesonbuild.scripts.meson_exe:run_exe',
    'mesonbuild.scripts.meson_exe:run',
    'mesonbuild.utils.core:EnvironmentVariables',
    'mesonbuild.backend.backends:Backend.get_run_target_env',
    'mesonbuild.build:Generator.get_base_outnames',
    'mesonbuild.build:Generator.get_dep_outname',
    'mesonbuild.mtest:SingleTestRunner._get_cmd',
    'mesonbuild.mtest:SingleTestRunner._get_test_cmd',
    'mesonbuild.mtest:SingleTestRunner.run',
    'mesonbuild.mtest:TestHarness.get_wrapper',
    'mesonbuild.mtest:TestHarness.merge_setup_options',
    'mesonbuild.mtest:TestHarness.get_test_runner',
    'shlex:quote',
]
TRUSTED = [
    'consumer specifications written from documentation: Ninja `$`-evaluation (no ninja binary here), '
    'POSIX sh word splitting restricted to the quoters\' output language (validated against dash on this run), '
    'libiberty buildargv (validated against `gcc @file` on this run)',
    'domain: strings without NUL and without lone surrogates; POSIX host (the Windows branch of quote_arg is not '
    'importable here; cmd_quote is compared as a pure function only)',
    'harness/fakebin/ninja stands in for ninja during `meson setup`; build statements are executed by the harness '
    '(model ninjaEval + real /bin/sh), not by Ninja',
]

FAKEBIN = os.path.join(common.VERIF, 'harness', 'fakebin')
GEN_PATH = os.path.join(common.LEAN, 'MesonModel', 'Generated', 'QuoteTables.lean')

# ~23 characters: every class the quoting layers distinguish
ALPHABET = ['a', 'D', '0', '_', ' ', '$', ':', "'", '"', '\\', '&', ';', '#', '*', '|', '=', '-', '/',
            '@', '{', '\t', '\n', 'é']
EXTRA = list('bZ9}.,%+~!?[](<>`^') + ['\r', '\x0b', '\x0c', '\x01', '\x1b', '\x7f', 'ß', '中', '€', '\U0001f600', '\xa0']


def lenc(l: T.Iterable[str]) -> str:
    """list codec of Driver/Quote.lean: items `x<codepoints>` joined by `,` ([''] differs from [])"""
    return ','.join('x' + enc(x) for x in l)


def ldec(f: str) -> T.List[str]:
    if not f.strip():
        return []
    return [dec(x[1:]) for x in f.split(',')]


def impl():
    from mesonbuild.backend import ninjabackend as nb
    from mesonbuild.backend import backends as be
    from mesonbuild import mesonlib
    from mesonbuild.utils import universal as U
    return nb, be, mesonlib, U


# ---------------------------------------------------------------- generated table

def _lean_chars(s: str) -> str:
    return '[' + ', '.join(("'%s'" % c) if (c.isascii() and (c.isalnum() or c == '_')) else f'Char.ofNat {ord(c)}'
                           for c in s) + ']'


def _lean_string_lit(s: str) -> str:
    return '"' + s.replace('\\', '\\\\').replace('"', '\\"').replace('\n', '\\n') + '"'


def gen_tables(ctx: Ctx) -> None:
    nb, _be, _ml, _U = impl()
    names = sorted(nb.raw_names)
    if not all(isinstance(n, str) for n in names):
        raise TypeError('raw_names is not a set of str')
    text = '\n'.join([
        '/- GENERATED by harness/c03.py gen_tables from the live Python module; do not edit. -/',
        '', 'namespace MesonModel.Generated', '',
        '/-- `mesonbuild.backend.ninjabackend.raw_names` (sorted) -/',
        'def rawNames : List (List Char) := [',
        ',\n'.join('  ' + _lean_chars(n) for n in names), ']', '',
        '/-- advisory pins (pattern strings are not proof obligations) -/',
        'def ninjaQuoteBuildPat : String := ' + _lean_string_lit(nb.NINJA_QUOTE_BUILD_PAT.pattern),
        'def ninjaQuoteVarPat : String := ' + _lean_string_lit(nb.NINJA_QUOTE_VAR_PAT.pattern),
        '', 'end MesonModel.Generated', ''])
    old = open(GEN_PATH, encoding='utf-8').read() if os.path.exists(GEN_PATH) else None
    if old != text:
        tmp = GEN_PATH + f'.{os.getpid()}.tmp'
        with open(tmp, 'w', encoding='utf-8') as f:
            f.write(text)
        os.replace(tmp, GEN_PATH)
        ctx.notes.append('QuoteTables.lean regenerated (content changed)')


# ---------------------------------------------------------------- string generators

def short_strings(maxlen: int) -> T.List[str]:
    out = ['']
    for n in range(1, maxlen + 1):
        out += [''.join(t) for t in itertools.product(ALPHABET, repeat=n)]
    return out


def rand_string(rng, maxlen: int = 12) -> str:
    n = rng.randint(0, maxlen)
    pool = ALPHABET if rng.random() < 0.6 else ALPHABET + EXTRA
    return ''.join(rng.choice(pool) for _ in range(n))


def rand_words(rng, n: int, maxlen: int = 6) -> T.List[str]:
    return [rand_string(rng, maxlen) for _ in range(n)]


SPECIAL_ARGS = ['&&', '$in', '$out', '${in}', '$ARGS', '$DESC', '${DESC}', '$DEPFILE', '$DEPFILE_UNQUOTED',
                '$pool', '$x y', '$', '${', '$description', '$in_newline', '-DFOO="a\\b"', '/DX=\\', '-D', '/D\\\\',
                '-I\\x', 'a\\b', '@INPUT@', '@OUTPUT@', 'x@OUTPUT@y', '@OUTDIR@', '@PLAINNAME@', '@BASENAME@',
                '@INPUT0@', '@INPUT1@', '@OUTPUT0@', '@OUTPUT7@', '@INPUT', 'INPUT@', '@@', '@INPUT@@OUTPUT@']


def in_domain(s: str) -> bool:
    """`strToCommandArg` matches `\\w*` (Unicode) after a leading `$`; the model knows ASCII word characters only"""
    if s.startswith('$'):
        return re.match(r'\$\{?(\w*)', s).group(1).isascii()
    return True


def rand_arg(rng, maxlen: int = 6) -> str:
    r = rng.random()
    if r < 0.2:
        return rng.choice(SPECIAL_ARGS)
    if r < 0.3:
        s = rng.choice(SPECIAL_ARGS) + rand_string(rng, 3)
    else:
        s = rand_string(rng, maxlen)
    return s if in_domain(s) else s.encode('ascii', 'replace').decode()


# ---------------------------------------------------------------- implementation adapters (in-process)

def shape_safe(f):
    """No assumption about the shape of what the implementation returns (or raises) may escape the harness:
    anything unexpected becomes the outcome string `IMPL-SHAPE:<what>`, which then disagrees with the model."""
    import functools

    @functools.wraps(f)
    def g(*a, **k):
        try:
            return f(*a, **k)
        except common.ToolFailure:
            raise
        except Exception as e:      # noqa: BLE001 - by design
            return f'IMPL-SHAPE:{f.__name__}:{type(e).__name__}:{str(e)[:80]}'
    return g


def guarded(name: str, f) -> str:
    try:
        return f()
    except Exception as e:          # noqa: BLE001 - by design
        return f'IMPL-SHAPE:{name}:{type(e).__name__}:{str(e)[:80]}'


@shape_safe
def impl_nq(nb, s: str, build: bool) -> str:
    from mesonbuild.mesonlib import MesonException
    try:
        return 'ok:' + enc(nb.ninja_quote(s, build))
    except MesonException as e:
        return 'ERR:newline' if 'newline' in str(e) else ('ERR:pipe' if 'it contains "|"' in str(e) else 'ERR:other')


def q_or_err(f) -> str:
    from mesonbuild.mesonlib import MesonException
    try:
        return 'ok:' + enc(f())
    except MesonException as e:
        return 'ERR:newline' if 'newline' in str(e) else 'ERR:other'


QTAGS = {'b': 'both', 's': 'notShell', 'n': 'notNinja', '0': 'none'}


def mk_cmdargs(nb, items: T.List[T.Tuple[str, str]]):
    out = []
    for tag, s in items:
        if tag == '-':
            out.append(s)
        else:
            out.append(nb.NinjaCommandArg(s, getattr(nb.Quoting, QTAGS[tag])))
    return out


def args_field(items: T.List[T.Tuple[str, str]]) -> str:
    return ','.join(tag + 'x' + enc(s) for tag, s in items)


@shape_safe
def impl_rule(nb, style: str, command, args) -> str:
    """NinjaRule(...).write() -> values of command (plain), command (_RSP), rspfile_content"""
    from mesonbuild.mesonlib import MesonException
    RSPFileSyntax = nb.RSPFileSyntax
    st = {'gcc': RSPFileSyntax.GCC, 'msvc': RSPFileSyntax.MSVC, 'tasking': RSPFileSyntax.TASKING}[style]
    try:
        r = nb.NinjaRule('R', mk_cmdargs(nb, command), mk_cmdargs(nb, args), 'desc', rspable=True,
                         rspfile_quote_style=st)
    except MesonException as e:
        # command_str is computed in __init__; the other two are only reached through write()
        return 'ERR:newline' if 'newline' in str(e) else 'ERR:other'
    res = ['ok:' + enc(r.command_str)]
    r.refcount = 0
    r.rsprefcount = 1
    buf = io.StringIO()
    try:
        r.write(buf)
        text = buf.getvalue()
        # values may contain raw newlines (Quoting.none / notNinja words are written verbatim): cut at the markers
        head, mid, tail = 'rule R_RSP\n command = ', '\n rspfile = $out.rsp\n rspfile_content = ', '\n description = desc\n'
        if not (text.startswith(head) and text.endswith(tail + '\n')) or mid not in text:
            return 'IMPL-SHAPE:rule-text:' + enc(text[:200])
        body = text[len(head):-len(tail) - 1]
        i = body.rindex(mid) if body.count(mid) == 1 else body.index(mid)
        res.append('ok:' + enc(body[:i]))
        res.append('ok:' + enc(body[i + len(mid):]))
    except MesonException as e:
        res.append('ERR:newline')
    return ';'.join(res)


@shape_safe
def impl_var(nb, use_rsp: bool, style: str, name: str, elems: T.List[str]) -> str:
    from mesonbuild.mesonlib import MesonException
    RSPFileSyntax = nb.RSPFileSyntax
    st = {'gcc': RSPFileSyntax.GCC, 'msvc': RSPFileSyntax.MSVC, 'tasking': RSPFileSyntax.TASKING}[style]
    rule = nb.NinjaRule('R', ['cc'], ['$ARGS'], 'desc', rspable=True, rspfile_quote_style=st)
    el = nb.NinjaBuildElement(set(), ['o'], 'R', ['i'])
    el.rule = rule
    setattr(el, '_should_use_rspfile', use_rsp)
    el.add_item(name, list(elems))
    buf = io.StringIO()
    try:
        el.write(buf)
    except MesonException as e:
        return 'ERR:newline' if 'newline' in str(e) else 'ERR:other'
    lines = buf.getvalue().split('\n')
    # line 0 is the build line; `DEPFILE` adds a second (unquoted) variable, we compare the first
    text = buf.getvalue()
    if text.count('\n') < 2:
        return 'IMPL-SHAPE:build-statement-text:' + enc(text[:200])
    first = text.index('\n') + 1
    # a value never contains a newline (ninja_quote rejects it), so the first variable line ends at the next '\n'
    return 'ok:' + enc(text[first:text.index('\n', first) + 1])


SERR = [('since no input files were specified', 'ERR:noInputs'),
        ('when there is more than one input file', 'ERR:plainWithMany'),
        ('inputs', 'ERR:badInputIndex'),
        ('since there are no outputs', 'ERR:noOutputs'),
        ('outputs', 'ERR:badOutputIndex'),
        ("'@INPUT@' as part of a", 'ERR:partInputMany'),
        ("'@OUTPUT@' as part of a", 'ERR:partOutputMany')]


@shape_safe
def impl_subst(U, cmd: T.List[str], values: T.Dict[str, T.Any], norm: bool) -> str:
    from mesonbuild.mesonlib import MesonException
    try:
        out = U.substitute_values(list(cmd), dict(values))
    except MesonException as e:
        msg = str(e)
        for pat, code in SERR:
            if pat in msg:
                return code
        return 'ERR:other'
    if norm:
        out = [i.replace('\\', '/') if isinstance(i, str) else i for i in out]   # backends.py, last statement
    return 'ok:' + lenc(out)


def values_fields(values: T.Dict[str, T.Any]) -> T.Tuple[str, str]:
    ks = lenc(values.keys())
    vs = ';'.join(('m' + lenc(v)) if isinstance(v, list) else ('o' + lenc([v])) for v in values.values())
    return ks, vs


class _FakeEnv:
    def __init__(self, scratch):
        self._scratch = scratch

    def get_build_command(self, unbuffered=False):
        return ['MESON']

    def get_scratch_dir(self):
        return self._scratch


@shape_safe
def impl_wrap(be, U, scratch: str, req: dict) -> str:
    """real Backend.as_meson_exe_cmdline on a stub backend whose get_executable_serialisation returns the request's
    serialisation (the decision logic is what is compared)"""
    from mesonbuild.utils.core import ExecutableSerialisation, EnvironmentVariables
    env = None
    if req['env'] is not None:
        env = EnvironmentVariables()
        for k, v in req['env']:
            env.set(k, [v])
        if not req['can_use_env']:
            env.can_use_env = False
    es = ExecutableSerialisation(list(req['args']), env, object() if req['exe_wrapper'] else None,
                                 'wd' if req['workdir'] else None, ['p'] if req['extra_paths'] else [],
                                 req['capture'], req['feed'])
    fake = types.SimpleNamespace()
    fake.environment = _FakeEnv(scratch)
    fake.get_executable_serialisation = lambda *a, **k: es
    import shutil
    real_which = shutil.which
    be.shutil.which = (lambda name, *a, **k: '/usr/bin/env' if req['have_env'] else None)
    try:
        cmd, _reason = be.Backend.as_meson_exe_cmdline(
            fake, req['args'][0], req['args'][1:], workdir='wd' if req['workdir'] else None,
            capture=req['capture'], feed=req['feed'], force_serialize=req['force'], env=env,
            separator=' ' if req['sep_space'] else ';')
    finally:
        be.shutil.which = real_which
    req['_cmd'] = list(cmd) if isinstance(cmd, (list, tuple)) and all(isinstance(x, str) for x in cmd) else None
    if req['_cmd'] is None:
        return 'IMPL-SHAPE:cmdline-not-a-list-of-str:' + repr(cmd)[:80]
    cmd = list(cmd)
    if cmd[:4] == ['MESON', '--internal', 'exe', '--unpickle']:
        return 'pickled'
    if cmd[:3] == ['MESON', '--internal', 'exe']:
        rest = cmd[3:]
        if '--' not in rest:
            return 'IMPL-SHAPE:internal-exe-without-separator:' + lenc(rest)
        i = rest.index('--')
        return 'exe:' + lenc(rest[:i]) + ';' + lenc(rest[i + 1:])
    if cmd == list(req['args']):
        return 'direct:' + lenc(cmd)
    if cmd[:1] == ['env']:
        return 'env:' + lenc(cmd)
    return 'other:' + lenc(cmd)


OPTLIKE = ['--', '--capture', '--capture=zz', '--feed=x', '--feed', '--unpickle=x', '--unpickle', '--cap', '--f',
           '--fee=1', '--u', '-h', '--help', '--he', '--internal', '@file', '', '-', '-x', '-1', '-1.5', '-hh', '-hx',
           '-h=h', '--=x', '--help=x', '--foo', '--foo=bar', '--foo bar', 'exe', 'a b', '-DX=1']


@shape_safe
def impl_exeparse(args: T.List[str]) -> str:
    """real `meson_exe.run(args)` up to (not including) the process start"""
    import contextlib
    from mesonbuild.scripts import meson_exe
    got: T.List[T.Any] = []
    real = meson_exe.run_exe
    meson_exe.run_exe = lambda exe, *a, **k: (got.append(exe), 0)[1]
    try:
        with contextlib.redirect_stdout(io.StringIO()), contextlib.redirect_stderr(io.StringIO()):
            try:
                meson_exe.run(list(args))
            except SystemExit as e:
                return f'exit:{e.code}'
            except OSError as e:       # --unpickle FILE: the file does not exist here
                return 'unpickle:' + enc(str(e.filename))
    finally:
        meson_exe.run_exe = real
    if len(got) != 1:
        return f'IMPL-SHAPE:run_exe-called-{len(got)}-times'
    exe = got[0]
    opt = lambda v: ('s' + enc(v)) if v else 'n'
    return 'run:' + opt(exe.capture) + ';' + opt(exe.feed) + ';' + lenc(exe.cmd_args)


def wrap_fields(req: dict) -> str:
    flags = ''.join(str(int(bool(x))) for x in (req['extra_paths'], req['exe_wrapper'], req['workdir'], req['can_use_env'],
                                                req['sep_space'], req['force'], req['have_env']))
    envl = req['env'] or []
    opt = lambda v: ('s' + enc(v)) if v else 'n'
    return '|'.join([flags, lenc(req['args']), lenc([k for k, _ in envl]), lenc([v for _, v in envl]),
                     opt(req['capture']), opt(req['feed'])])


# ---------------------------------------------------------------- real consumers

def sh_words(script: str, cwd: str) -> T.Optional[T.List[T.List[str]]]:
    """run `script` (an and-list whose commands all start with the word `d`) in dash with `d` a function that
    dumps its arguments NUL-separated and a \\x01 after each command"""
    prog = 'd() { printf "%s\\0" "$#" "$@"; }\n' + script + '\n'
    p = subprocess.run(['/bin/sh', '-c', prog], cwd=cwd, stdout=subprocess.PIPE, stderr=subprocess.PIPE, timeout=20)
    if p.returncode != 0:
        return None
    items = p.stdout.split(b'\0')[:-1]
    cmds = []
    i = 0
    while i < len(items):
        n = int(items[i])
        cmds.append([b.decode('utf-8', 'surrogateescape') for b in items[i + 1:i + 1 + n]])
        i += 1 + n
    return cmds


@shape_safe
def gcc_defines(content: str, scratch: str, idx: int, cwd: T.Optional[str] = None) -> T.Optional[T.List[str]]:
    """the `-D` operands the gcc driver hands to cc1 when given `@file` with this content"""
    rsp = os.path.join(scratch, f'r{idx}.rsp')
    out = os.path.join(scratch, f'w{idx}.out')
    with open(rsp, 'w', encoding='utf-8', newline='') as f:
        f.write(content)
    wrapper = os.path.join(scratch, 'wrap.sh')
    env = dict(os.environ, MV_WRAP_OUT=out, LC_ALL='C.UTF-8')
    # with `cwd` the file is a complete compile command line of a build statement (it names its own input)
    pre = ['-E', '-x', 'c', '/dev/null'] if cwd is None else []
    p = subprocess.run(['gcc'] + pre + ['-wrapper', wrapper, '@' + rsp], env=env, cwd=cwd,
                       stdout=subprocess.PIPE, stderr=subprocess.PIPE, timeout=30)
    if p.returncode != 0 or not os.path.exists(out):
        return None
    items = open(out, 'rb').read().split(b'\0')[:-1]
    res = []
    i = 0
    while i < len(items):
        if items[i] == b'-D' and i + 1 < len(items):
            res.append(items[i + 1].decode('utf-8', 'surrogateescape'))
            i += 2
        else:
            i += 1
    os.unlink(rsp)
    os.unlink(out)
    return res


# ---------------------------------------------------------------- property oracles, layer level (no model)

def oracle_quote_roundtrip(U, nb, scratch: str, args: T.List[str]) -> T.Optional[str]:
    """join_args -> real sh gives the same list back (the shell layer of the property, on the implementation)"""
    if any('\0' in a for a in args):
        return None
    try:
        line = 'd ' + U.join_args(args)
    except Exception as e:      # noqa: BLE001
        return f'join_args({args!r}) raised {type(e).__name__}: {e}'
    got = sh_words(line, scratch)
    if got != [args]:
        return f'/bin/sh splits join_args({args!r}) into {got!r}'
    return None


# ---------------------------------------------------------------- tie (a)

def tie_a(ctx: Ctx, scratch: str) -> None:
    nb, be, mesonlib, U = impl()
    rng = ctx.rng
    cases: T.List[T.Tuple[str, T.Any, str, str]] = []

    def add(kind, inp, line, ans):
        if ans is not None:
            cases.append((kind, inp, line, ans))

    strings = short_strings(3) + [rand_string(rng, 14) for _ in range(ctx.scale(4000, 60000))]
    strings += SPECIAL_ARGS
    for s in strings:
        e = enc(s)
        add('shq', s, f'shq {e}', guarded('quote_arg', lambda: enc(U.quote_arg(s))))
        add('nq0', s, f'nq 0|{e}', impl_nq(nb, s, False))
        add('nq1', s, f'nq 1|{e}', impl_nq(nb, s, True))
        add('rspq', s, f'rspq {e}', guarded('gcc_rsp_quote', lambda: enc(nb.gcc_rsp_quote(s))))
        add('cmdq', s, f'cmdq {e}', guarded('cmd_quote', lambda: enc(nb.cmd_quote(s))))
    # shlex.quote itself is what quote_arg must be on POSIX
    for s in strings[::7]:
        if guarded('quote_arg', lambda: U.quote_arg(s)) != shlex.quote(s):
            ctx.violation('quote_arg-not-shlex', 'quote_arg differs from shlex.quote', {'s': s})
    # strToCommandArg through NinjaRule.__init__
    for s in [x for x in strings if '\n' not in x][::3] + SPECIAL_ARGS:
        if '\n' in s or not in_domain(s):
            continue
        add('s2c', s, f's2c {enc(s)}', guarded('strToCommandArg', lambda: nb.NinjaRule('R', [s], [], 'd').command[0].quoting.name))
    # rules
    for _ in range(ctx.scale(3000, 40000)):
        style = rng.choice(['gcc', 'gcc', 'gcc', 'msvc', 'tasking'])
        def item():
            tag = rng.choice(['-', '-', '-', 'b', 's', 'n', '0'])
            return (tag, rand_arg(rng, 5))
        command = [item() for _ in range(rng.randint(0, 3))]
        args = [item() for _ in range(rng.randint(0, 4))]
        add('rule', (style, command, args), f'rule {style}|{args_field(command)}|{args_field(args)}',
            impl_rule(nb, style, command, args))
    # variable lines
    names = ['ARGS', 'LINK_ARGS', 'COMMAND', 'DEPFILE', 'DESC', 'description', 'pool', 'DEPFILE_UNQUOTED', 'targetdep',
             'dyndep', 'X', 'desc']
    for _ in range(ctx.scale(4000, 50000)):
        use_rsp = rng.random() < 0.4
        style = rng.choice(['gcc', 'gcc', 'msvc', 'tasking'])
        name = rng.choice(names)
        elems = [rand_arg(rng, 5) for _ in range(rng.randint(0, 4))]
        add('var', (use_rsp, style, name, elems), f'var {int(use_rsp)}|{style}|{enc(name)}|{lenc(elems)}',
            impl_var(nb, use_rsp, style, name, elems))
    # escape_extra_args
    for _ in range(ctx.scale(3000, 30000)):
        l = [rng.choice(['-D', '/D', '-d', '-I', '', '-', '/', 'D', '-D-D']) + rand_string(rng, 5)
             for _ in range(rng.randint(0, 4))]
        add('esc', l, f'esc {lenc(l)}', guarded('escape_extra_args', lambda: lenc(be.Backend.escape_extra_args(list(l)))))
        # oracle: only -D//D arguments change, and only by doubling backslashes
        try:
            got = be.Backend.escape_extra_args(list(l))
        except Exception as e:      # noqa: BLE001
            got = f'raised {type(e).__name__}'
        want = [a.replace('\\', '\\\\') if a[:2] in ('-D', '/D') else a for a in l]
        if got != want:
            ctx.violation(f'escape_extra_args:{l!r}', 'escape_extra_args changes more/less than -D//D backslashes',
                          {'args': l, 'got': got})
    # substitute_values (+ backslash normalisation)
    for _ in range(ctx.scale(4000, 50000)):
        ni, no = rng.choice([0, 0, 1, 1, 2, 3]), rng.choice([0, 1, 1, 2])
        inputs = [rng.choice(['a.c', 'dir/b.txt', 'x y.in', 'q\\w.c', '$i', "i'"]) for _ in range(ni)]
        outputs = [rng.choice(['o.h', 'sub/o.c', 'o$x', 'o p']) for _ in range(no)]
        try:
            values = U.get_filenames_templates_dict(inputs, outputs)
        except Exception:       # noqa: BLE001 - not a function under test here
            values = {}
        if rng.random() < 0.05:
            values = {}
        cmd = [rand_arg(rng, 5) for _ in range(rng.randint(0, 4))]
        ks, vs = values_fields(values)
        norm = rng.random() < 0.7
        add('subst', (cmd, values, norm), f'{"subst" if norm else "substonly"} {lenc(cmd)}|{ks}|{vs}',
            impl_subst(U, cmd, values, norm))
    # as_meson_exe_cmdline decision
    for _ in range(ctx.scale(3000, 30000)):
        nenv = rng.choice([None, None, 0, 1, 2])
        req = dict(extra_paths=rng.random() < 0.1, exe_wrapper=rng.random() < 0.1, workdir=rng.random() < 0.15,
                   can_use_env=rng.random() < 0.8, sep_space=rng.random() < 0.9, force=rng.random() < 0.1,
                   have_env=rng.random() < 0.9,
                   args=['exe'] + [(rng.choice(OPTLIKE) if rng.random() < 0.4 else rand_string(rng, 4))
                                   for _ in range(rng.randint(0, 3))],
                   env=None if nenv is None else [(f'K{i}', rand_string(rng, 4).replace('\0', '')) for i in range(nenv)],
                   capture=rng.choice([None, None, 'out.txt']), feed=rng.choice([None, None, None, 'in.txt']))
        ans = impl_wrap(be, U, scratch, req)
        add('wrap', req, 'wrap ' + wrap_fields(req), ans)
        # oracle (property statement): a newline in any argument must lead to the pickled wrapper
        if any('\n' in a for a in req['args']) and ans != 'pickled':
            ctx.violation('newline-not-serialised', 'argument with newline not routed through the pickled wrapper',
                          {'req': req, 'got': ans})
        # oracle (implementation only): a `meson --internal exe …` command line must parse back, with the real
        # wrapper's own argument parser, to exactly the command, capture and feed it was built from
        cmd = req.get('_cmd')
        if cmd and cmd[:3] == ['MESON', '--internal', 'exe'] and cmd[3:4] != ['--unpickle']:
            back = impl_exeparse(cmd[3:])
            opt = lambda v: ('s' + enc(v)) if v else 'n'
            want = 'run:' + opt(req['capture']) + ';' + opt(req['feed']) + ';' + lenc(req['args'])
            ctx.tag('a:wrap-parseback')
            if back != want:
                ctx.violation(f'internal-exe-parseback:{req["args"]!r}:{req["capture"]}:{req["feed"]}'.replace(' ', '␣'),
                              'the `--internal exe` command line does not parse back (meson_exe.run) to the command it was '
                              f'built from: wrapper would run {back!r}',
                              {'args': req['args'], 'capture': req['capture'], 'feed': req['feed'], 'cmdline': cmd[3:],
                               'wrapper_parses': back, 'position': None})
        req.pop('_cmd', None)
        if any('\n' in v for _k, v in (req['env'] or [])) and ans != 'pickled':
            ctx.violation('env-value-newline', 'env value with newline not routed through the pickled wrapper '
                          '(it cannot be written into a build statement)', {'req': req, 'got': ans})
    # meson_exe.run argument parsing (argparse parse_known_args): the forms meson writes and arbitrary mixtures
    for _ in range(ctx.scale(4000, 40000)):
        r = rng.random()
        argv = [(rng.choice(OPTLIKE) if rng.random() < 0.6 else rand_string(rng, 4)) for _ in range(rng.randint(0, 4))]
        opts: T.List[str] = []
        if rng.random() < 0.5:
            opts += ['--capture', rng.choice(['out.txt', 'o p', 'd/o'])]
        if rng.random() < 0.3:
            opts += ['--feed', rng.choice(['in.txt', 'i'])]
        if r < 0.5:
            l = opts + ['--'] + argv            # as written by as_meson_exe_cmdline
        elif r < 0.75:
            l = opts + argv                     # no separator
        else:
            l = argv + opts
            rng.shuffle(l)
        l = [x.replace('\0', '') for x in l]
        if any('/dev/' in x for x in l):
            continue
        add('exeparse', l, f'exeparse {lenc(l)}', impl_exeparse(l))
        if r < 0.5 and argv:
            # oracle (implementation only): everything after the first `--` is the command
            opt = lambda v: ('s' + enc(v)) if v else 'n'
            cap = opts[opts.index('--capture') + 1] if '--capture' in opts else None
            feed = opts[opts.index('--feed') + 1] if '--feed' in opts else None
            want = 'run:' + opt(cap) + ';' + opt(feed) + ';' + lenc(l[len(opts) + 1:])
            if cases[-1][3] != want:
                ctx.violation(f'meson_exe-parse:{l!r}'.replace(' ', '␣'),
                              f'meson_exe.run does not take the words after `--` as the command: {cases[-1][3]!r}',
                              {'args': l, 'position': None})
    for f in os.listdir(scratch):
        if f.startswith('meson_exe_'):
            os.unlink(os.path.join(scratch, f))

    # ---- layer oracle on the implementation: join_args ∘ real sh = id
    for _ in range(ctx.scale(400, 4000)):
        args = [a for a in rand_words(rng, rng.randint(0, 4)) if '\0' not in a]
        ctx.count()
        msg = oracle_quote_roundtrip(U, nb, scratch, args)
        if msg:
            ctx.violation(f'join_args-sh:{args!r}', msg, {'args': args})

    # ---- run the model on everything
    ctx.count(len(cases))
    if not ctx.model_available:
        return
    answers = ctx.driver('quote', [c[2] for c in cases])
    freq: T.Dict[str, T.Dict[str, int]] = {}
    for (kind, inp, _line, impl_ans), model_ans in zip(cases, answers):
        ctx.tag('a:' + kind)
        if kind == 'rule' and ';' not in impl_ans:
            # NinjaRule.__init__ raised (command_str): the model's first component must be the same error
            ok = model_ans.split(';')[0] == impl_ans
        else:
            ok = impl_ans == model_ans
        if not ok:
            ctx.disagreement({'kind': kind, 'input': inp, 'impl': impl_ans, 'model': model_ans})
        shape = re.sub(r'[0-9 ]+', '#', model_ans)[:40]
        freq.setdefault(kind, {}).setdefault(shape, 0)
        freq[kind][shape] += 1
    top = {k: max(v, key=v.get) for k, v in freq.items()}
    for (kind, inp, _line, _ia), model_ans in zip(cases, answers):
        if re.sub(r'[0-9 ]+', '#', model_ans)[:40] != top[kind]:
            ctx.seen_nontrivial((kind, repr(inp)))
    for c in cases[::max(1, len(cases) // 6)][:6]:
        ctx.sample({'kind': c[0], 'input': c[1], 'impl': c[3]})


def tie_datnames(ctx: Ctx, scratch: str) -> None:
    """names of the pickled wrapper files: families of commands that differ in one hashed field only are all generated
    first (real as_meson_exe_cmdline on a stub backend, force_serialize), then every file is read back"""
    import pickle
    nb, be, mesonlib, U = impl()
    from mesonbuild.utils.core import ExecutableSerialisation, EnvironmentVariables
    rng = ctx.rng
    ddir = os.path.join(scratch, 'dats')
    os.makedirs(ddir, exist_ok=True)

    def mkenv(ops):
        if not ops:
            return None
        e = EnvironmentVariables()
        for k, v, op, sep in ops:
            getattr(e, op)(k, [v], sep)
        return e

    def gen(args, ops, capture=None, feed=None):
        env = mkenv(ops)
        es = ExecutableSerialisation(list(args), env, None, None, [], capture, feed)
        fake = types.SimpleNamespace()
        fake.environment = _FakeEnv(ddir)
        fake.get_executable_serialisation = lambda *a, **k: es
        cmd, _r = be.Backend.as_meson_exe_cmdline(fake, args[0], args[1:], force_serialize=True, env=env,
                                                  capture=capture, feed=feed)
        if cmd[:4] != ['MESON', '--internal', 'exe', '--unpickle'] or len(cmd) != 5:
            raise ValueError('not an --unpickle command line: ' + repr(cmd)[:80])
        return cmd[4]

    families: T.List[T.List[T.Tuple[T.List[str], list, T.Optional[str], T.Optional[str]]]] = []
    for _ in range(ctx.scale(40, 400)):
        w = rand_string(rng, 5).replace('\0', '') or 'abc'
        cuts = sorted(set(rng.randint(0, len(w)) for _ in range(2)))
        parts = [w[:cuts[0]], w[cuts[0]:cuts[-1]], w[cuts[-1]:]]
        fam = [(['exe', w], [], None, None), (['exe'] + parts, [], None, None), (['exe', parts[0], parts[1] + parts[2]], [], None, None),
               (['exe', w, ''], [], None, None), (['exe', '', w], [], None, None), (['exe', w + "', '"], [], None, None),
               (['exe', w, "', '"], [], None, None)]
        families.append(fam)
        v = rand_string(rng, 3).replace('\0', '') or 'v'
        families.append([(['exe', 'q'], ops, None, None) for ops in (
            [('K', v + ';L,y', 'set', ':')], [('K', v, 'set', ':'), ('L', 'y', 'set', ':')],
            [('K', v, 'append', ':')], [('K', v, 'prepend', ':')], [('K', v, 'set', ':')], [('K', v, 'append', ';')])])
        families.append([(['exe', 'q'], [], c, f) for c, f in ((None, None), ('o1', None), ('o2', None), (None, 'i1'), ('o1', 'i1'))])
    lines: T.List[str] = []
    pairs = []
    for fam in families:
        names = []
        for args, ops, cap, feed in fam:
            names.append(guarded('as_meson_exe_cmdline', lambda: gen(args, ops, cap, feed)))
        # every file is read only after the whole family exists
        for (args, ops, cap, feed), name in zip(fam, names):
            ctx.count()
            ctx.tag('a:datname')
            if name.startswith('IMPL-SHAPE'):
                ctx.disagreement({'kind': 'datname', 'input': [args, ops], 'impl': name, 'model': 'a .dat path'})
                continue
            try:
                es = pickle.load(open(name, 'rb'))
                base = {k: 'base' for k, _v, _o, _s in ops}
                got = (list(es.cmd_args), es.env.get_env(dict(base)) if es.env else dict(base), es.capture, es.feed)
            except Exception as e:      # noqa: BLE001
                got = f'unreadable: {type(e).__name__}'
            wenv = mkenv(ops)
            want = (list(args), wenv.get_env({k: 'base' for k, _v, _o, _s in ops}) if wenv else {}, cap, feed)
            if got != want:
                ctx.violation(f'dat-crosstalk:{args!r}:{ops!r}:{cap}:{feed}'.replace(' ', '␣'),
                              f'the wrapper file written for this command holds another one after its siblings were '
                              f'generated: file says {got!r}',
                              {'args': args, 'env_ops': ops, 'capture': cap, 'feed': feed, 'position': None,
                               'siblings': [f[0] for f in fam]})
        # model: with equal env/capture/feed two names agree exactly when the argument lists do
        for i in range(len(fam)):
            for j in range(i + 1, len(fam)):
                if fam[i][1:] == fam[j][1:] and not names[i].startswith('IMPL') and not names[j].startswith('IMPL'):
                    lines.append(f'enceq {lenc(fam[i][0])}|{lenc(fam[j][0])}')
                    pairs.append((fam[i][0], fam[j][0], str(int(names[i] == names[j]))))
    if lines and ctx.model_available:
        for (a, b2, impl_eq), m in zip(pairs, ctx.driver('quote', lines)):
            if impl_eq != m:
                ctx.disagreement({'kind': 'datname-eq', 'input': [a, b2], 'impl': impl_eq, 'model': m})
    # CPython fact the model's `reprList` abstracts: str(list of str) reads back
    import ast
    for fam in families[:50]:
        for args, *_ in fam:
            if ast.literal_eval(str(args)) != args:
                ctx.notes.append(f'assumption broken: str({args!r}) does not read back')


def tie_consumers(ctx: Ctx, scratch: str) -> None:
    """the model's consumer specifications against the real consumers"""
    if not ctx.model_available:
        return
    nb, be, mesonlib, U = impl()
    rng = ctx.rng
    # -- shSplit / shCommands vs dash
    SH = ['a', 'd', '0', '_', ' ', ' ', "'", '"', '&', '=', '-', '/', '@', '%', '+', ':', ',', '.', '\t', '$', '\\',
          ';', '*', '#', '\n', 'é', '~', '{', '|', '<', '(', '`', '!', '?', '[']
    scripts: T.List[str] = []
    for _ in range(ctx.scale(1500, 20000)):
        r = rng.random()
        if r < 0.35:   # what the implementation emits
            cmds = []
            for _c in range(rng.choice([1, 1, 1, 2, 3])):
                cmds.append('d ' + guarded('join_args', lambda: U.join_args([a for a in rand_words(rng, rng.randint(0, 4))])))
            scripts.append(' && '.join(cmds))
        elif r < 0.7:  # soups: mostly quotes, blanks and safe characters
            body = ''.join(rng.choice(SH[:21]) for _ in range(rng.randint(0, 10)))
            scripts.append('d ' + body)
        else:
            body = ''.join(rng.choice(SH) for _ in range(rng.randint(0, 8)))
            scripts.append('d ' + body)
    scripts = [s for s in scripts if '\0' not in s]
    ans = ctx.driver('quote', [f'shcmds {enc(s)}' for s in scripts])
    todo = [(s, a) for s, a in zip(scripts, ans) if a.startswith('ok:')]
    for s, a in zip(scripts, ans):
        ctx.tag('sh:' + (a if a.startswith('ERR') else 'ok'))
    # the model must only claim support where every command starts with our function `d`
    todo = [(s, a) for s, a in todo if all(ldec(c)[:1] == ['d'] for c in a[3:].split(';'))]

    def run_one(sa):
        s, a = sa
        return s, a, sh_words(s, scratch)
    with ThreadPoolExecutor(16) as ex:
        for s, a, got in ex.map(run_one, todo):
            ctx.count()
            want = [ldec(c)[1:] for c in a[3:].split(';')]   # the function `d` sees "$@", not its own name
            if got != want:
                ctx.disagreement({'kind': 'shSplit-vs-dash', 'input': s, 'impl': got, 'model': want})
            else:
                ctx.seen_nontrivial(('sh', s))
    ctx.extra['sh_scripts_validated_against_dash'] = len(todo)

    # -- buildargv vs gcc @file
    wrapper = os.path.join(scratch, 'wrap.sh')
    with open(wrapper, 'w') as f:
        f.write('#!/bin/sh\nfor a in "$@"; do printf \'%s\\0\' "$a"; done >> "$MV_WRAP_OUT"\nexit 0\n')
    os.chmod(wrapper, 0o755)
    B = ['a', 'b', ' ', "'", '"', '\\', '\t', '\n', '=', '-', 'é', '$', '\r', '\x0b', '\x0c', '#']
    contents: T.List[str] = []
    for _ in range(ctx.scale(250, 3000)):
        toks = []
        for _t in range(rng.randint(0, 4)):
            if rng.random() < 0.5:
                toks.append(nb.gcc_rsp_quote('-DX' + rand_string(rng, 6).replace('\0', '')))
            else:
                toks.append('-DX' + ''.join(rng.choice(B) for _ in range(rng.randint(0, 6))))
        contents.append(rng.choice([' ', '  ', '\n', '\t', ' \n']).join(toks))
    ans = ctx.driver('quote', [f'bav {enc(c)}' for c in contents])
    todo2 = []
    for i, (c, a) in enumerate(zip(contents, ans)):
        toks = ldec(a)
        # gcc only accepts the file when every token is a -D option with a non-empty operand
        if toks and all(t.startswith('-DX') for t in toks):
            todo2.append((i, c, toks))

    def run_gcc(t):
        i, c, toks = t
        return c, toks, gcc_defines(c, scratch, i)
    with ThreadPoolExecutor(16) as ex:
        for c, toks, got in ex.map(run_gcc, todo2):
            ctx.count()
            if got is None:
                ctx.tag('rsp:gcc-rejected')
                continue
            ctx.tag('rsp:compared')
            if got != [t[2:] for t in toks]:
                ctx.disagreement({'kind': 'buildargv-vs-gcc', 'input': c, 'impl': got, 'model': [t[2:] for t in toks]})
            else:
                ctx.seen_nontrivial(('rsp', c))
    ctx.extra['rsp_files_validated_against_gcc'] = len(todo2)


# ---------------------------------------------------------------- run / search / replay

def _timed(ctx: Ctx, name: str, f, *a, **k):
    import time
    t = time.time()
    try:
        return f(*a, **k)
    finally:
        ctx.extra.setdefault('phase_wall_s', {})[name] = round(time.time() - t, 1)


def run(ctx: Ctx) -> None:
    ctx.rule = ('(a) every string of length <=3 over a 23-character alphabet (shell/ninja/rsp metacharacters, '
                'newline, tab, non-ASCII) plus random strings up to 14 characters through quote_arg, ninja_quote (both '
                'variants), gcc_rsp_quote, cmd_quote, strToCommandArg; random NinjaRule/NinjaBuildElement/'
                'escape_extra_args/substitute_values/as_meson_exe_cmdline calls; the model\'s sh and buildargv '
                'specifications against dash and gcc. (b) generated projects end to end. A case is non-trivial when '
                'the shape of its answer differs from the most common shape of its kind; counted distinct by input.')
    scratch = common.scratch_dir('mverif-c03-')
    try:
        _timed(ctx, 'tie_a', tie_a, ctx, scratch)
        _timed(ctx, 'datnames', tie_datnames, ctx, scratch)
        from . import c03_env
        _timed(ctx, 'env+gen', c03_env.tie_env, ctx, scratch)
        _timed(ctx, 'consumers', tie_consumers, ctx, scratch)
        from . import c03_e2e
        _timed(ctx, 'e2e', c03_e2e.run_e2e, ctx, scratch)
    finally:
        common.rmtree(scratch)
    ctx.assumptions += TRUSTED


def rejudge_two_statements(ctx: Ctx, scratch: str, elems: T.List[str]) -> bool:
    """a unit-stream disagreement judged by the property: a minimal manifest with the real NinjaRule and two real
    NinjaBuildElements carrying the same arguments — one run directly, one through a response file, in both orders — is
    written by the implementation, read back, expanded by the Ninja specification and handed to the real /bin/sh
    (direct) and the buildargv specification (response file); each must yield exactly the arguments"""
    from . import c03_e2e
    nb, _be, _ml, _U = impl()
    elems = [e for e in elems if isinstance(e, str) and e != '&&' and '\n' not in e and '\0' not in e]
    if not elems:
        return False
    for order in ((False, True), (True, False)):
        try:
            rule = nb.NinjaRule('R', ['d'], ['$ARGS'], 'desc', rspable=True)
            text = ''
            for n, use_rsp in enumerate(order):
                el = nb.NinjaBuildElement(set(), [f'o{n}'], 'R', ['i'])
                el.rule = rule
                setattr(el, '_should_use_rspfile', use_rsp)
                el.add_item('ARGS', list(elems))
                buf = io.StringIO()
                el.write(buf)
                text += buf.getvalue()
            rule.refcount = rule.rsprefcount = 1
            buf = io.StringIO()
            rule.write(buf)
            path = os.path.join(scratch, 'two.ninja')
            with open(path, 'w', encoding='utf-8', newline='\n') as f:
                f.write(buf.getvalue() + text)
            rules, builds = c03_e2e.read_manifest(path)
        except Exception as e:      # noqa: BLE001 - the implementation refused / wrote something unreadable
            ctx.notes.append(f'rejudge: {type(e).__name__} for {elems!r}')
            return False
        for st in builds:
            rb = rules.get(st['rule'], [])
            head = '|'.join([lenc([k for k, _ in rb]), lenc([v for _, v in rb]), lenc([k for k, _ in st['vars']]),
                             lenc([v for _, v in st['vars']]), lenc(st['ins']), lenc(st['outs'])])
            is_rsp = st['rule'].endswith('_RSP')
            a = ctx.driver('quote', [f'edge {head}|{enc("rspfile_content" if is_rsp else "command")}'])[0]
            if not a.startswith('ok:'):
                got: T.Any = 'not valid Ninja text: ' + a
            elif is_rsp:
                got = ldec(ctx.driver('quote', [f'bav {a[3:]}'])[0])
            else:
                w = sh_words(dec(a[3:]), scratch)
                got = w[0] if w and len(w) == 1 else w
            ctx.count()
            if got != elems:
                how = 'through a response file' if is_rsp else 'directly'
                ctx.violation(f'two-statements:{elems!r}:{order}:{is_rsp}'.replace(' ', '␣'),
                              f'the same arguments in two build statements (first {"_RSP" if order[0] else "plain"}, then '
                              f'{"_RSP" if order[1] else "plain"}): the statement run {how} gives the tool {got!r} instead of '
                              f'{elems!r}', {'args': elems, 'statement_order_rsp': list(order), 'failing_statement_rsp': is_rsp,
                                             'position': None, 'manifest': buf.getvalue() + text})
                return True
    return False


def search(ctx: Ctx, disagreements: T.List[dict]) -> None:
    """failing-input search: the layer oracle (quote with the implementation, split with the real consumer) around the
    strings on which model and implementation differ, then a deeper end-to-end pass"""
    nb, be, mesonlib, U = impl()
    scratch = common.scratch_dir('mverif-c03s-')
    try:
        seeds: T.List[str] = []

        def collect(x):
            if isinstance(x, str):
                seeds.append(x)
            elif isinstance(x, (list, tuple)):
                for y in x:
                    collect(y)
            elif isinstance(x, dict):
                for y in x.values():
                    collect(y)
        for d in disagreements:
            collect(d.get('input'))
        # unit-stream disagreements about quoting are re-judged on a two-statement manifest first
        if ctx.model_available:
            tried = 0
            for d in disagreements:
                inp = d.get('input')
                if d.get('kind') == 'var' and isinstance(inp, (list, tuple)) and len(inp) == 4:
                    cands = [list(inp[3])]
                elif d.get('kind') == 'rule' and isinstance(inp, (list, tuple)):
                    cands = [[x[1] for part in inp[1:] for x in part if isinstance(x, (list, tuple)) and len(x) == 2]]
                elif d.get('kind') in ('shq', 'rspq', 'nq0') and isinstance(inp, str):
                    cands = [[inp]]
                else:
                    continue
                for c in cands:
                    tried += 1
                    if rejudge_two_statements(ctx, scratch, c):
                        return
                if tried > 60:
                    break
            # the memoised / shared-state family: arguments with the characters the two quoting functions treat differently
            for c in (['a\\b'], ["it's", 'a\\b c'], ['$x', '"q"\\'], [s for s in seeds if '\\' in s][:3]):
                if c and rejudge_two_statements(ctx, scratch, c):
                    return
        pool = list(dict.fromkeys(seeds))[:200] + short_strings(2)
        for s in pool:
            if '\0' in s:
                continue
            for args in ([s], ['x', s, 'y'], [s, s]):
                msg = oracle_quote_roundtrip(U, nb, scratch, args)
                if msg:
                    ctx.violation(f'join_args-sh:{args!r}', msg, {'args': args})
                    return
        from . import c03_e2e
        c03_e2e.run_e2e(ctx, scratch, extra_strings=[s for s in pool if s][:300], deep=True)
    finally:
        common.rmtree(scratch)


def replay(ctx: Ctx, rep: dict) -> None:
    nb, be, mesonlib, U = impl()
    case = rep.get('case', {})
    print('replay', rep.get('what'), json.dumps(case, default=repr)[:600])
    scratch = common.scratch_dir('mverif-c03r-')
    try:
        if 'args' in case and isinstance(case['args'], list) and 'position' not in case:
            print('impl oracle (join_args -> /bin/sh):', oracle_quote_roundtrip(U, nb, scratch, case['args']))
            print('model shq:', [dec(x) for x in ctx.driver('quote', [f'shq {enc(a)}' for a in case['args']])])
        from . import c03_env
        if c03_env.replay_case(ctx, case):
            return
        if 'position' in case:
            from . import c03_e2e
            c03_e2e.replay_case(ctx, scratch, case)
    finally:
        common.rmtree(scratch)
