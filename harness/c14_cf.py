"""C14 — interpreter-level stream: real `configure_file()` calls over the keyword / emptiness grid.

What is varied: which action keywords are given (`configuration:` absent / `{}` / non-empty dict / unpopulated
`configuration_data()` / populated one; `command:`; `copy:` absent / false / true), `capture:`, the number of inputs
(0, 1, 2), `format:`, `output_format:`, `macro_name:`, `encoding:`, and the template / data themselves (empty data is
drawn often).  Every call is judged by an oracle written from the property text and the reference manual (no model),
and compared with the Lean model of the dispatch (`MesonModel/Template/Dispatch.lean`, driver command `cf`).
"""
from __future__ import annotations

import itertools
import json
import typing as T

from .common import Ctx, enc

CF_ENCODINGS = [None, None, 'utf-8', 'iso-8859-1']


def _base():
    from . import c14
    return c14


# ------------------------------------------------------------------ a case -> meson code

def meson_str(v: str) -> str:
    return "'" + v.replace('\\', '\\\\').replace("'", "\\'").replace('\n', '\\n').replace('\r', '\\r').replace('\t', '\\t') + "'"


def meson_val(v) -> str:
    if isinstance(v, bool):
        return 'true' if v else 'false'
    if isinstance(v, int):
        return str(v)
    return meson_str(v)


def case_code(case: dict, py: str, out_name: str, in_names: T.List[str]) -> str:
    """the meson program of one case; the configuration object, when there is one, is bound to `d`"""
    lines: T.List[str] = []
    kw: T.List[str] = [f"output: '{out_name}'"]
    data = _base().data_unjson(case['data'])
    descs = case.get('descs') or {}
    kind = case['conf']
    if kind == 'c':
        if case.get('init_dict'):
            lines.append('d = configuration_data({' + ', '.join(f'{meson_str(k)}: {meson_val(v)}' for k, v in data.items()) + '})')
        else:
            lines.append('d = configuration_data()')
            for k, v in data.items():
                ds = descs.get(k)
                lines.append(f'd.set({meson_str(k)}, {meson_val(v)}' + (f', description: {meson_str(ds)}' if ds is not None else '') + ')')
        kw.append('configuration: d')
    elif kind == 'd':
        kw.append('configuration: {' + ', '.join(f'{meson_str(k)}: {meson_val(v)}' for k, v in data.items()) + '}')
    if case['command']:
        script = 'import sys; sys.stdout.write(%r)' % case['stdout']
        if case['writes'] is not None:
            script += '; open(sys.argv[1], "wb").write(bytes(%r))' % (list(case['writes']),)
        kw.append(f"command: [{meson_str(py)}, '-c', {meson_str(script)}, '@OUTPUT@']")
    if case['copy'] is not None:
        kw.append('copy: ' + ('true' if case['copy'] else 'false'))
    if case['capture'] is not None:
        kw.append('capture: ' + ('true' if case['capture'] else 'false'))
    if len(in_names) == 1 and case.get('input_as_string', True):
        kw.append(f"input: '{in_names[0]}'")
    elif in_names:
        kw.append('input: [' + ', '.join(f"'{n}'" for n in in_names) + ']')
    if case['fmt'] is not None:
        kw.append(f"format: '{case['fmt']}'")
    if case['ofmt'] is not None:
        kw.append(f"output_format: '{case['ofmt']}'")
    if case['macro'] is not None:
        kw.append(f"macro_name: {meson_str(case['macro'])}")
    if case['enc'] is not None:
        kw.append(f"encoding: '{case['enc']}'")
    lines.append('configure_file(' + ', '.join(kw) + ')')
    return '\n'.join(lines) + '\n'


def proto_line(case: dict) -> str:
    b = _base()
    data = b.data_unjson(case['data'])
    descs = case.get('descs') or {}
    codec = 'latin1' if case['enc'] == 'iso-8859-1' else 'utf8'
    ins = ','.join('=' + ' '.join(str(x) for x in i) for i in case['inputs'])
    w = case['writes']
    return '|'.join([
        'cf ' + case['conf'], b.data_items(data, descs if case['conf'] == 'c' else None),
        str(int(case['command'])), str(int(bool(case['copy']))), str(int(bool(case['capture']))), ins,
        case['fmt'] or 'meson', case['ofmt'] or 'c', '0' if case['macro'] is None else '1', enc(case['macro'] or ''),
        codec, enc(case['stdout']), '0' if w is None else '1', ' '.join(str(x) for x in (w or []))])


def show_val(v) -> str:
    if isinstance(v, bool):
        return 'b:' + str(int(v))
    if isinstance(v, int):
        return 'i:' + str(v)
    return 's:' + enc(str(v))


def canon_obs(case: dict, obs, actions: T.List[str]) -> str:
    """canonical answer of the implementation in the driver's syntax"""
    b = _base()
    if obs.status != 'OK':
        return obs.status
    if obs.out is None:
        o = '-'
    elif case['ofmt'] == 'json' and case['conf'] != 'n' and not case['inputs']:
        try:
            pairs = json.loads(obs.out.decode('utf-8'), object_pairs_hook=list)
            o = 'J:' + ','.join(enc(k) + ':' + show_val(v) for k, v in pairs)
        except (ValueError, TypeError):
            o = 'B:' + ' '.join(str(x) for x in obs.out)
    else:
        o = 'B:' + ' '.join(str(x) for x in obs.out)
    act = '+'.join(sorted(set(actions))) or 'none'
    used = '-' if case['conf'] != 'c' else ('?' if obs.used is None else str(int(obs.used)))
    return f'OK|{act}|{o}|{b.canon_names(obs.missing or [])}|{int(obs.useless)}|{used}'


# ------------------------------------------------------------------ oracle (no model)

def oracle_cf(ctx: Ctx, case: dict, obs) -> None:
    """The property at the level of the configure_file() call, from the property text and the reference manual:
    exactly one of configuration / command / copy selects the mode; with `configuration:` given — whatever the data
    holds, nothing included — the template is processed (placeholders replaced, everything else copied byte for byte
    in the given encoding, every undefined name reported) and without a template a header defining exactly the keys
    is generated; `copy: true` copies the input; `command:` + `capture: true` stores what the command printed."""
    b = _base()
    data = b.data_unjson(case['data'])
    key = 'cf:' + json.dumps(case, sort_keys=True)
    given = [x for x, on in (('configuration', case['conf'] != 'n'), ('command', case['command']),
                             ('copy', case['copy'] is True)) if on]
    nin = len(case['inputs'])
    ok = obs.status == 'OK'
    if len(given) != 1:
        ctx.tag('cf-oracle:actions=%d' % len(given))
        if ok:
            ctx.violation(key, f'configure_file accepted {len(given)} of the mutually exclusive keywords '
                               f'configuration / command / copy ({given})', case)
        return
    mode = given[0]
    if case['capture'] and mode != 'command':
        ctx.tag('cf-oracle:capture-without-command')
        if ok:
            ctx.violation(key, 'capture: true accepted without command:', case)
        return
    if mode == 'configuration':
        if nin > 1:
            ctx.tag('cf-oracle:configuration-many-inputs')
            if ok:
                ctx.violation(key, 'configuration mode accepted more than one input', case)
            return
        fmt = case['fmt'] or 'meson'
        encoding = case['enc'] or 'utf-8'
        if nin == 1:
            src = bytes(case['inputs'][0])
            try:
                text = src.decode(encoding)
            except UnicodeError:
                if ok:
                    ctx.violation(key, 'input invalid in the given encoding was processed', case)
                return
            want_text = b.ref_file_text(fmt, data, text)
            if 'mesondefine' in text or 'cmakedefine' in text:
                want_text = None       # define directives (also of the other format: a documented error) are not judged here
            if want_text is None:
                # outside the reference scanner's domain (define lines, malformed ${): only existence is judged
                ctx.tag('cf-oracle:template-outside-reference')
                if ok and obs.out is None:
                    ctx.violation(key, 'configuration: given and the call succeeded, but no output file was written',
                                  {**case, 'got': None})
                return
            try:
                want = want_text.encode(encoding)
            except UnicodeError:
                if ok:
                    ctx.violation(key, 'a value the encoding cannot represent was written', case)
                return
            ctx.tag('cf-oracle:template:' + ('empty-data' if not data else 'data'))
            if not ok:
                ctx.violation(key, f'configuration: given with a well-formed template, but the call failed: {obs.status}',
                              {**case, 'message': obs.message})
                return
            if obs.out is None:
                ctx.violation(key, 'configuration: given (data with %d keys) but the template was not processed: '
                                   'no output file' % len(data), {**case, 'got': None, 'want': list(want)})
                return
            if obs.out != want:
                ctx.violation(key, 'configure_file output differs from exactly-the-placeholders substitution',
                              {**case, 'got': list(obs.out), 'want': list(want)})
                return
            exp_missing = ref_missing(fmt, data, text)
            if exp_missing is not None and set(obs.missing or []) != exp_missing:
                ctx.violation(key, f'undefined names reported {sorted(obs.missing or [])}, the template uses '
                                   f'{sorted(exp_missing)}', case)
            return
        # header without a template
        ctx.tag('cf-oracle:header:' + ('empty-data' if not data else 'data'))
        if not ok:
            ctx.violation(key, f'configuration: given without input, but no header was generated: {obs.status}',
                          {**case, 'message': obs.message})
            return
        if obs.out is None:
            ctx.violation(key, 'configuration: given without input (data with %d keys) but no header was generated'
                          % len(data), case)
            return
        try:
            txt = obs.out.decode('utf-8')
        except UnicodeError:
            ctx.violation(key, 'generated header is not utf-8', case)
            return
        nv = len(ctx.violations)
        b.oracle_header(ctx, case['ofmt'] or 'c', case['macro'] if (case['ofmt'] or 'c') == 'c' else None, data, {}, txt)
        if len(ctx.violations) > nv:
            ctx.violations[-1]['case'] = {**case, 'got': txt}
        return
    if mode == 'copy':
        ctx.tag('cf-oracle:copy')
        if nin != 1:
            if ok:
                ctx.violation(key, 'copy: true accepted without exactly one input', case)
            return
        if not ok or obs.out != bytes(case['inputs'][0]):
            ctx.violation(key, 'copy: true did not reproduce the input byte for byte', {**case, 'status': obs.status})
        return
    # command
    ctx.tag('cf-oracle:command')
    if not ok:
        ctx.violation(key, f'command mode failed: {obs.status}', {**case, 'message': obs.message})
        return
    if case['capture']:
        if obs.out != case['stdout'].encode(case['enc'] or 'utf-8'):
            ctx.violation(key, 'capture: true did not store what the command printed', case)
    else:
        want_w = None if case['writes'] is None else bytes(case['writes'])
        if obs.out != want_w:
            ctx.violation(key, 'command mode: output is not what the command wrote', case)


def ref_missing(fmt: str, data: dict, text: str) -> T.Optional[T.Set[str]]:
    import io
    b = _base()
    miss: T.Set[str] = set()
    for line in io.StringIO(text, newline='').readlines():
        if fmt == 'meson':
            miss |= b.ref_subst_meson(line, data)[1]
        else:
            r = b.ref_subst_cmake(line, data, fmt == 'cmake@')
            if r is None:
                return None
            miss |= r[1]
    return miss


# ------------------------------------------------------------------ generators

def base_case(**kw) -> dict:
    c = {'kind': 'cf', 'conf': 'n', 'data': [], 'descs': {}, 'init_dict': False, 'command': False, 'copy': None,
         'capture': None, 'inputs': [], 'input_as_string': True, 'fmt': None, 'ofmt': None, 'macro': None, 'enc': None,
         'stdout': '', 'writes': None}
    c.update(kw)
    return c


GRID_TEMPLATE = b'name=[@NAME@] esc=\\@NAME\\@ cash=${NAME} {x}\r\nsecond  line @OTHER@\n'
GRID_SECOND = b'plain second input\n'


def grid_cases(fmts: T.Sequence[T.Optional[str]]) -> T.Iterator[dict]:
    """the keyword / emptiness grid, exhaustively"""
    b = _base()
    confs = [('n', {}), ('d', {}), ('d', {'NAME': 'v', 'K': 1}), ('c', {}), ('c', {'NAME': 'v', 'B': False})]
    for (ck, data), command, copy, capture, nin, fmt in itertools.product(
            confs, (False, True), (None, False, True), (None, True), (0, 1, 2), fmts):
        yield base_case(conf=ck, data=b.data_json(data), command=command, copy=copy, capture=capture,
                        inputs=[list(GRID_TEMPLATE), list(GRID_SECOND)][:nin], input_as_string=(nin == 1),
                        fmt=fmt, stdout='printed\n' if command else '',
                        writes=list(b'written') if command and not capture else None)


def rand_case(rng) -> dict:
    b = _base()
    fmt = rng.choice([None, 'meson', 'cmake', 'cmake@'])
    f = fmt or 'meson'
    encoding = rng.choice(CF_ENCODINGS)
    e = encoding or 'utf-8'
    r = rng.random()
    if r < 0.35:
        data: dict = {}
    else:
        data = {k: v for k, v in (b.enc_data(rng, f, e) if rng.random() < 0.4 else b.rand_data(rng, f)).items()
                if not (isinstance(v, str) and any(ch in v for ch in '\x0c\x1f'))}
        if e == 'iso-8859-1':
            data = {k: (v.replace('\u20ac', '\xe9') if isinstance(v, str) else v) for k, v in data.items()}
    conf = rng.choice(['d', 'c', 'c'])
    c = base_case(conf=conf, data=b.data_json(data), fmt=fmt, enc=encoding, init_dict=(conf == 'c' and rng.random() < 0.3))
    r = rng.random()
    if r < 0.3:
        # header without a template
        c['ofmt'] = rng.choice([None, 'c', 'nasm', 'json'])
        c['macro'] = rng.choice([None, None, 'CONF_H', 'G_1']) if c['ofmt'] in (None, 'c') else None
        c['data'] = b.data_json({k: v for k, v in data.items()
                                 if not (isinstance(v, str) and any(ch in v for ch in '\n\r'))})
        if conf == 'c' and not c['init_dict'] and c['ofmt'] != 'json':
            c['descs'] = {k: rng.choice([None, None, 'desc', 'two words']) for k, _t, _v in c['data']}
        return c
    nlines = rng.randint(1, 4)
    if rng.random() < 0.25:
        text = ''.join(b.rand_line(rng, f) for _ in range(nlines))
        if e == 'iso-8859-1':
            text = text.replace('\u20ac', '\xe9')
    else:
        text = ''.join(b.plain_line(rng, f, e) for _ in range(nlines)) or 'x'
    text = text.replace('\x0c', ' ').replace('\x1f', ' ')
    try:
        src = text.encode(e)
    except UnicodeError:
        src = text.encode(e, 'replace')
    c['inputs'] = [list(src)]
    c['input_as_string'] = rng.random() < 0.7
    if rng.random() < 0.1:
        c['copy'] = False
    if rng.random() < 0.05:
        c['capture'] = False
    return c


# ------------------------------------------------------------------ the stream

def run_case(E, case: dict):
    from . import c14_interp
    out_name = E.fresh_name('o')
    in_names = []
    for i, content in enumerate(case['inputs']):
        n = f'in{i}.tpl'
        E.write_input(n, bytes(content))
        in_names.append(n)
    code = case_code(case, c14_interp.python_cmd(), out_name, in_names)
    obs = E.call(code, out_name)
    return obs, list(E.actions), code


def cf_stream(ctx: Ctx, rng, cases: list, nrand: int, fmts: T.Sequence[T.Optional[str]]) -> None:
    from . import c14_interp
    try:
        E = c14_interp.InterpEnv()
    except Exception as e:  # shape change of the interpreter's construction: an obligation, not a crash
        ctx.obligation_failed('cf-stream:interpreter-construction', f'{type(e).__name__}: {e}')
        return
    try:
        if E.spy_problems:
            ctx.obligation_failed('cf-stream:spies', '; '.join(E.spy_problems))
        todo = list(grid_cases(fmts)) + [rand_case(rng) for _ in range(nrand)]
        for case in todo:
            obs, actions, _code = run_case(E, case)
            ctx.tag('cf:' + obs.status.split('|')[0])
            oracle_cf(ctx, case, obs)
            cases.append(('cf', case, proto_line(case), canon_obs(case, obs, actions)))
    finally:
        E.close()


def replay_case(ctx: Ctx, case: dict) -> None:
    from . import c14_interp
    E = c14_interp.InterpEnv()
    try:
        obs, actions, code = run_case(E, case)
        print('program:\n' + code)
        print('implementation:', obs)
        print('impl canonical:', canon_obs(case, obs, actions))
        oracle_cf(ctx, case, obs)
        if ctx.model_available:
            print('model         :', ctx.driver('template', [proto_line(case)])[0])
    finally:
        E.close()
