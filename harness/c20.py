"""C20 — Cargo version requirements and cfg() expressions mean what Cargo says."""
from __future__ import annotations

import itertools
import re
import typing as T

from .common import Ctx, enc

ID = 'C20'
LEVEL = 'proof'
LEAN_TARGETS = ['MesonModel.Props.C20']
AREAS = ['cargo']
PINS = [
    'mesonbuild.cargo.version:_api_of',
    'mesonbuild.cargo.version:split',
    'mesonbuild.cargo.version:api',
    'mesonbuild.cargo.version:SemVer',
    'mesonbuild.cargo.version:cargo_parse',
    'mesonbuild.cargo.cfg:lexer',
    'mesonbuild.cargo.cfg:_parse',
    'mesonbuild.cargo.cfg:parse',
    'mesonbuild.cargo.cfg:_eval_cfg',
    'mesonbuild.cargo.cfg:eval_cfg',
    'mesonbuild.utils.universal:lookahead',
]
TRUSTED = [
    'Cargo matcher and SemVer 2.0.0 section 11 precedence are written down from the Cargo reference / semver.org '
    '(Lean: Cargo/Spec.lean; Python oracle: spec_matches, semver_prec) - no cargo binary in the sandbox',
    'Python primitive comparisons on int/str/list are the orders the model uses (Int order, code-point lexicographic, list equality)',
    'domain: ASCII strings plus non-ASCII code points CPython classes as neither digit, letter nor space; digit runs < 4300 chars',
    'cfg: when the lexer ends in the unterminated-string error the parser raises that MesonException or an earlier syntax '
    'error of the token prefix; model and harness do not distinguish these two messages (both are MesonException)',
]

# ------------------------------------------------------------------ implementation adapters


def impl():
    from mesonbuild.cargo import version as V
    from mesonbuild.cargo import cfg as C
    from mesonbuild.mesonlib import MesonException
    return V, C, MesonException


OPSHOW = {'>=': '>=', '<=': '<=', '!=': '!=', '~': '~', '=': '=', '^': '^', '>': '>', '<': '<'}


def show_semver(x) -> str:
    comps = ','.join(('i%d' % c) if isinstance(c, int) else 's' + enc(c) for c in x._v)
    return f'{x.specified_count};{int(x.has_prerelease)};{comps}'


def guard(f: T.Callable[[], str], mex) -> str:
    try:
        return f()
    except mex as e:
        return 'ERR:' + classify_msg(str(e))
    except AssertionError:
        return 'ERR:AssertionError'
    except ValueError:
        return 'ERR:ValueError'
    except Exception as e:  # anything else escaping is reported as such
        return f'ERR:PythonInternal({type(e).__name__})'


def lex_answer(C, mex, inner: str) -> str:
    """the tokens the generator yields, then `ERR:unterminated` if it ends by raising that error"""
    out = []
    try:
        for t in C.lexer(inner):
            out.append(show_tok(C, t))
    except mex as e:
        out.append('ERR:' + classify_msg(str(e)))
    return ','.join(out)


def lexes_unterminated(C, mex, inner: str) -> bool:
    try:
        for _ in C.lexer(inner):
            pass
    except mex as e:
        return classify_msg(str(e)) == 'unterminated'
    return False


def parse_guard(C, mex, inner: str, f: T.Callable[[], str]) -> str:
    """like guard(); when the lexer ends in the unterminated-string error the parser fails with that
    MesonException or with an earlier syntax error of the token prefix (one-token lookahead) - the model
    does not distinguish the two messages, so both are canonicalised to ERR:unterminated"""
    ans = guard(f, mex)
    if ans.startswith('ERR:') and not ans.startswith('ERR:Python') and ans != 'ERR:AssertionError' \
            and lexes_unterminated(C, mex, inner):
        return 'ERR:unterminated'
    return ans


def classify_msg(m: str) -> str:
    if m == 'unterminated string in cfg expression':
        return 'unterminated'
    if m == 'expected string':
        return 'expected-string'
    if m == 'expected "("':
        return 'expected-lparen'
    if m == 'expected ")" or ","':
        return 'expected-rparen-or-comma'
    if m == 'expected ")"':
        return 'expected-rparen'
    if m.startswith('Unhandled Cargo token'):
        return 'unhandled-token'
    if m == 'malformed cfg expression':
        return 'malformed'
    if m == 'trailing text after cfg expression':
        return 'trailing'
    return 'MesonException'


def show_tok(C, t) -> str:
    ty, val = t
    TT = C.TokenType
    return {TT.LPAREN: 'L', TT.RPAREN: 'R', TT.COMMA: 'C', TT.EQUAL: 'E', TT.ALL: 'ALL', TT.ANY: 'ANY',
            TT.NOT: 'NOT'}.get(ty) or (('S' if ty is TT.STRING else 'I') + enc(val))


def mk_tok(C, w: T.Tuple[str, T.Optional[str]]):
    TT = C.TokenType
    k, v = w
    return {'L': (TT.LPAREN, None), 'R': (TT.RPAREN, None), 'C': (TT.COMMA, None), 'E': (TT.EQUAL, None),
            'ALL': (TT.ALL, None), 'ANY': (TT.ANY, None), 'NOT': (TT.NOT, None)}.get(k) or \
        ((TT.STRING, v) if k == 'S' else (TT.IDENTIFIER, v))


def wire_tok(w) -> str:
    k, v = w
    return k if v is None else k + enc(v)


def show_ir(C, ir) -> str:
    if isinstance(ir, C.Identifier):
        return 'I(' + enc(ir.value) + ')'
    if isinstance(ir, C.Equal):
        return 'Q(' + enc(ir.lhs.value) + ';' + enc(ir.rhs.value) + ')'
    if isinstance(ir, C.Not):
        return 'NOT[' + show_ir(C, ir.value) + ']'
    if isinstance(ir, C.Any):
        return 'ANY[' + ','.join(show_ir(C, a) for a in ir.args) + ']'
    if isinstance(ir, C.All):
        return 'ALL[' + ','.join(show_ir(C, a) for a in ir.args) + ']'
    return 'IR?' + type(ir).__name__


def show_tree(t) -> str:
    """same canonical text for an oracle-side tree"""
    k = t[0]
    if k == 'id':
        return 'I(' + enc(t[1]) + ')'
    if k == 'eq':
        return 'Q(' + enc(t[1]) + ';' + enc(t[2]) + ')'
    if k == 'not':
        return 'NOT[' + show_tree(t[1]) + ']'
    return ('ANY[' if k == 'any' else 'ALL[') + ','.join(show_tree(a) for a in t[1]) + ']'


def enc_cfgs(d: T.Dict[str, str]) -> str:
    return ','.join(enc(k) + '=' + enc(v) for k, v in d.items())


# ------------------------------------------------------------------ independent specifications (oracle side)
# Written from the Cargo reference ("Specifying dependencies") and semver.org section 11; they never
# call the Lean model and never look at how version.py / cfg.py work.

def spec_matches(op: str, comps: T.Sequence[int], v: T.Tuple[int, int, int]) -> bool:
    """Cargo's rule for a tag-free comparator `op I[.J[.K]]` on a release version, with the two
    deviations pinned by unittests/cargotests.py."""
    n = len(comps)
    I = comps[0]
    J = comps[1] if n > 1 else 0
    K = comps[2] if n > 2 else 0
    lo = (I, J, K)
    if op == '=':
        return v == lo                      # deviation 1: a partial `=` pads with zero
    if op == '>':
        return v > lo                       # deviation 1: a partial `>` pads with zero
    if op == '>=':
        return v >= lo
    if op == '<':
        return v < lo
    if op == '<=':
        if n == 3:
            return v <= lo
        return v < ((I + 1, 0, 0) if n == 1 else (I, J + 1, 0))
    if op == '~':
        return lo <= v < ((I + 1, 0, 0) if n == 1 else (I, J + 1, 0))
    if op == '^':
        if I == 0 and J == 0 and K == 0:
            return v < (1, 0, 0)            # deviation 2: an all-zero caret means < 1.0.0
        if I > 0:
            hi = (I + 1, 0, 0)
        elif J > 0:
            hi = (0, J + 1, 0)
        else:
            hi = (0, 0, K + 1)
        return lo <= v < hi
    raise AssertionError(op)


def cargo_true(op: str, comps: T.Sequence[int], v: T.Tuple[int, int, int]) -> bool:
    """Cargo without the two pinned deviations (only used to measure how often they matter)."""
    n = len(comps)
    I = comps[0]
    J = comps[1] if n > 1 else 0
    up = (I + 1, 0, 0) if n == 1 else (I, J + 1, 0)
    if op == '=' and n < 3:
        return (I, J, 0) <= v < up
    if op == '>' and n < 3:
        return v >= up
    if op == '^' and not any(comps):
        return v < {1: (1, 0, 0), 2: (0, 1, 0), 3: (0, 0, 1)}[n]
    return spec_matches(op, comps, v)


SEMVER_RE = re.compile(r'^(0|[1-9][0-9]*)\.(0|[1-9][0-9]*)\.(0|[1-9][0-9]*)'
                       r'(?:-((?:0|[1-9][0-9]*|[0-9]*[A-Za-z-][0-9A-Za-z-]*)(?:\.(?:0|[1-9][0-9]*|[0-9]*[A-Za-z-][0-9A-Za-z-]*))*))?'
                       r'(?:\+([0-9A-Za-z-]+(?:\.[0-9A-Za-z-]+)*))?$')


def semver_fields(s: str):
    m = SEMVER_RE.match(s)
    if not m:
        return None
    pre = m.group(4).split('.') if m.group(4) is not None else []
    return (int(m.group(1)), int(m.group(2)), int(m.group(3))), pre


def semver_prec(a: str, b: str) -> int:
    """semver.org section 11: -1, 0, 1"""
    (ca, pa), (cb, pb) = semver_fields(a), semver_fields(b)
    if ca != cb:
        return -1 if ca < cb else 1
    if not pa and not pb:
        return 0
    if not pa:
        return 1          # 11.3 a pre-release has lower precedence than the normal version
    if not pb:
        return -1
    for x, y in zip(pa, pb):
        xn, yn = x.isdigit(), y.isdigit()
        if xn and yn:
            if int(x) != int(y):
                return -1 if int(x) < int(y) else 1   # 11.4.1
        elif xn != yn:
            return -1 if xn else 1                    # 11.4.3 numeric below non-numeric
        elif x != y:
            return -1 if x < y else 1                 # 11.4.2 ASCII order
    if len(pa) != len(pb):
        return -1 if len(pa) < len(pb) else 1         # 11.4.4
    return 0


def order_key(a: str, b: str) -> str:
    """canonical class of an order violation (so a recorded finding suppresses only its own class)"""
    for s in (a, b):
        pre = semver_fields(s)[1]
        if pre and pre[0].isdigit():
            return 'order:first-prerelease-identifier-numeric'
    for s in (a, b):
        pre = semver_fields(s)[1]
        if any(p[0].isdigit() and not p.isdigit() for p in pre[1:]):
            return 'order:digit-leading-alphanumeric-identifier'
    return f'order:{a}:{b}'


def oracle_order(V, a: str, b: str) -> T.Optional[T.Tuple[str, str]]:
    x, y = V.SemVer(a), V.SemVer(b)
    c = semver_prec(a, b)
    got = (x < y, x > y, x <= y, x >= y, x == y, x != y)
    want = (c < 0, c > 0, c <= 0, c >= 0, c == 0, c != 0)
    if got != want:
        names = ['<', '>', '<=', '>=', '==', '!=']
        bad = [n for n, g, w in zip(names, got, want) if g != w]
        return order_key(a, b), f'SemVer({a!r}) {"/".join(bad)} SemVer({b!r}) disagrees with section 11 precedence {c}'
    return None


def oracle_axioms(V, a: str, b: str, c: str) -> T.Optional[str]:
    """order axioms on arbitrary strings, no specification involved"""
    x, y, z = V.SemVer(a), V.SemVer(b), V.SemVer(c)
    lt, gt, le, ge, eq, ne = x < y, x > y, x <= y, x >= y, x == y, x != y
    if [lt, eq, gt].count(True) != 1:
        return f'trichotomy fails lt={lt} eq={eq} gt={gt}'
    if le != (lt or eq) or ge != (gt or eq) or ne == eq or lt != (y > x):
        return 'the six operators are inconsistent'
    if lt and y < z and not x < z:
        return '< is not transitive'
    if le and y <= z and not x <= z:
        return '<= is not transitive'
    return None


# cfg: grammar  e ::= name | name = "str" | not ( e ) | all ( [e {, e}] ) | any ( [e {, e}] )
SEP = set(' \t\n\r\x0b\x0c\x1c\x1d\x1e\x1f()=,"')


def cfg_tokens(s: str):
    """tokenizer of the oracle: returns list of ('L'|'R'|'C'|'E'|'W' word|'S' string) or None when a string
    literal is not terminated"""
    out = []
    i = 0
    n = len(s)
    while i < n:
        c = s[i]
        if c.isspace():
            i += 1
        elif c in '()=,':
            out.append(({'(': 'L', ')': 'R', ',': 'C', '=': 'E'}[c], None))
            i += 1
        elif c == '"':
            j = s.find('"', i + 1)
            if j < 0:
                return None
            out.append(('S', s[i + 1:j]))
            i = j + 1
        else:
            j = i
            while j < n and s[j] not in SEP:
                j += 1
            out.append(('W', s[i:j]))
            i = j
    return out


def kw(tokens, bare_keyword_is_name=False):
    """word tokens -> keyword / identifier tokens"""
    out = []
    for i, (k, v) in enumerate(tokens):
        if k == 'W' and v in ('all', 'any', 'not') and \
                not (bare_keyword_is_name and (i + 1 >= len(tokens) or tokens[i + 1][0] != 'L')):
            out.append(({'all': 'ALL', 'any': 'ANY', 'not': 'NOT'}[v], None))
        else:
            out.append(('I', v) if k == 'W' else (k, v))
    return out


def cfg_recognize(toks) -> T.Optional[tuple]:
    """recursive descent over keyword tokens; the tree, or None when the token list is not in the grammar"""
    pos = 0

    def peek():
        return toks[pos][0] if pos < len(toks) else None

    def expr():
        nonlocal pos
        k = peek()
        if k == 'I':
            name = toks[pos][1]
            pos += 1
            if peek() == 'E':
                pos += 1
                if peek() != 'S':
                    raise ValueError
                val = toks[pos][1]
                pos += 1
                return ('eq', name, val)
            return ('id', name)
        if k == 'NOT':
            pos += 1
            if peek() != 'L':
                raise ValueError
            pos += 1
            e = expr()
            if peek() != 'R':
                raise ValueError
            pos += 1
            return ('not', e)
        if k in ('ALL', 'ANY'):
            pos += 1
            if peek() != 'L':
                raise ValueError
            pos += 1
            args = []
            if peek() == 'R':
                pos += 1
                return ('all' if k == 'ALL' else 'any', args)
            while True:
                args.append(expr())
                if peek() == 'R':
                    pos += 1
                    return ('all' if k == 'ALL' else 'any', args)
                if peek() != 'C':
                    raise ValueError
                pos += 1
        raise ValueError

    try:
        t = expr()
    except ValueError:
        return None
    return t if pos == len(toks) else None


def truth(t, d: T.Dict[str, str]) -> bool:
    k = t[0]
    if k == 'id':
        return t[1] in d
    if k == 'eq':
        return t[1] in d and d[t[1]] == t[2]
    if k == 'not':
        return not truth(t[1], d)
    vals = [truth(a, d) for a in t[1]]
    return all(vals) if k == 'all' else any(vals)


def tree_strings(t) -> T.List[str]:
    k = t[0]
    if k == 'eq':
        return [t[2]]
    if k == 'not':
        return tree_strings(t[1])
    if k in ('all', 'any'):
        return [s for a in t[1] for s in tree_strings(a)]
    return []


def oracle_cfg(C, mex, inner: str, d: T.Dict[str, str]) -> T.Optional[T.Tuple[str, str]]:
    """`cfg(<inner>)`: structurally valid => the truth-table value; malformed => MesonException"""
    raw = 'cfg(' + inner + ')'
    try:
        got: T.Any = C.eval_cfg(raw, d)
    except mex:
        got = 'MesonException'
    except Exception as e:
        return f'cfg:escaping:{type(e).__name__}', f'{type(e).__name__} escapes eval_cfg({raw!r})'
    toks = cfg_tokens(inner)
    if toks is None:
        if got != 'MesonException':
            return ('cfg:unterminated-string-literal-accepted',
                    f'eval_cfg({raw!r}) = {got} although a string literal is not terminated')
        return None
    # `all` / `any` / `not` not followed by `(`: rustc reads a bare word as a configuration name, the pinned
    # tests expect `not(any)` to be rejected; the property does not decide, so both outcomes are accepted.
    ambiguous = any(k == 'W' and v in ('all', 'any', 'not') and (i + 1 >= len(toks) or toks[i + 1][0] != 'L')
                    for i, (k, v) in enumerate(toks))
    tree = cfg_recognize(kw(toks, bare_keyword_is_name=True))
    strs_all = [v for k, v in toks if k == 'S']
    if tree is None:
        if got != 'MesonException':
            if any(c in SEP for s in strs_all for c in s):
                return ('cfg:separator-inside-string-literal-lexed-as-tokens',
                        f'eval_cfg({raw!r}) = {got} although the expression is malformed')
            return f'cfg:malformed-accepted:{inner}', f'eval_cfg({raw!r}) = {got} although the expression is malformed'
        return None
    strs = tree_strings(tree)
    if got == 'MesonException':
        if ambiguous:
            return None   # the property does not decide (see above)
        return f'cfg:valid-rejected:{inner}', f'eval_cfg({raw!r}) raises although the expression is well-formed'
    want = truth(tree, d)
    if got != want:
        if any(c.isspace() for s in strs for c in s):
            return ('cfg:whitespace-in-string-literal-dropped',
                    f'eval_cfg({raw!r}, {d!r}) = {got}, structure says {want}')
        return f'cfg:wrong-value:{inner}:{sorted(d.items())}', f'eval_cfg({raw!r}, {d!r}) = {got}, structure says {want}'
    return None


def oracle_cfg_tokens(C, mex, toks) -> T.Optional[T.Tuple[str, str]]:
    """`parse` on a token list: accepted iff in the grammar, and then with exactly that tree"""
    tree = cfg_recognize(toks)
    try:
        got = show_ir(C, C.parse(iter([mk_tok(C, w) for w in toks])))
    except mex:
        got = None
    except Exception as e:
        return f'cfgtok:escaping:{type(e).__name__}', f'{type(e).__name__} escapes parse'
    want = None if tree is None else show_tree(tree)
    if got != want:
        return (f'cfgtok:{",".join(wire_tok(w) for w in toks)}',
                f'parse accepts {got!r}, grammar says {want!r}')
    return None


# ------------------------------------------------------------------ generators

PART = [0, 1, 2, 10]
VERS = [0, 1, 2, 3, 10, 11]
OPSPELL = ['', '^', '~', '=', '<', '<=', '>', '>=']
WS = ['', ' ', '  ', '\t']


def partials() -> T.List[T.Tuple[int, ...]]:
    out: T.List[T.Tuple[int, ...]] = []
    for n in (1, 2, 3):
        out += list(itertools.product(PART, repeat=n))
    return out


def render_req(rng, op: str, comps: T.Sequence[int], fancy: bool) -> str:
    body = '.'.join(str(c) for c in comps)
    if not fancy:
        return op + body
    return rng.choice(WS) + op + rng.choice(WS) + body + rng.choice(WS)


PRE_IDS = ['0', '1', '2', '10', 'alpha', 'beta', 'rc', 'a', 'A', 'x-y', '-', '1a', 'a1', '0a', 'Z9']
BUILDS = ['', '', '+build', '+1', '+a.b-c', '+001']


def semver_pool(rng, n: int) -> T.List[str]:
    out = []
    cores = ['0.0.0', '0.0.1', '0.1.0', '1.0.0', '1.0.1', '1.2.3', '1.10.0', '2.0.0', '10.0.0']
    for core in cores:
        out.append(core)
    for _ in range(n):
        core = rng.choice(cores) if rng.random() < 0.7 else '.'.join(str(rng.choice(VERS)) for _ in range(3))
        k = rng.choice([0, 1, 1, 2, 2, 3])
        pre = [rng.choice(PRE_IDS) for _ in range(k)]
        out.append(core + ('-' + '.'.join(pre) if pre else '') + rng.choice(BUILDS))
    return sorted(set(out))


def clean_pool(pool: T.List[str]) -> T.List[str]:
    """versions on which the recorded order findings cannot fire (keeps the oracle sharp for the rest)"""
    out = []
    for s in pool:
        pre = semver_fields(s)[1]
        if pre and pre[0].isdigit():
            continue
        if any(p[0].isdigit() and not p.isdigit() for p in pre[1:]):
            continue
        out.append(s)
    return out


JUNKV = list(' .-_+~*^<>=,!\t\n\x1c#é中') + list('019azAZ')


def rand_junk(rng, alphabet, maxlen=8) -> str:
    return ''.join(rng.choice(alphabet) for _ in range(rng.randint(0, maxlen)))


def rand_verish(rng) -> str:
    parts = [rng.choice(['0', '1', '2', '10', '007', 'a', 'rc1', '-', '-x', '*', '']) for _ in range(rng.randint(0, 5))]
    s = ''
    for p in parts:
        s += p + rng.choice(['.', '.', '-', '+', '', ' '])
    return s


ATOMS = [('id', 'a'), ('id', 'b'), ('eq', 'a', 'x'), ('eq', 'b', 'y')]


def trees(depth: int) -> T.List[tuple]:
    if depth == 0:
        return list(ATOMS)
    sub = trees(depth - 1)
    out = list(ATOMS)
    out += [('not', e) for e in sub]
    for k in ('any', 'all'):
        out.append((k, []))
        out += [(k, [e]) for e in sub]
        out += [(k, [e, f]) for e in sub for f in sub]
    return out


def rand_tree(rng, depth: int, names, values) -> tuple:
    r = rng.random()
    if depth == 0 or r < 0.25:
        if rng.random() < 0.5:
            return ('id', rng.choice(names))
        return ('eq', rng.choice(names), rng.choice(values))
    if r < 0.45:
        return ('not', rand_tree(rng, depth - 1, names, values))
    return (rng.choice(['any', 'all']), [rand_tree(rng, depth - 1, names, values) for _ in range(rng.randint(0, 3))])


def render_tree(t, sp: T.Callable[[], str]) -> str:
    k = t[0]
    if k == 'id':
        return t[1]
    if k == 'eq':
        return t[1] + sp() + '=' + sp() + '"' + t[2] + '"'
    if k == 'not':
        return 'not' + sp() + '(' + sp() + render_tree(t[1], sp) + sp() + ')'
    return k + sp() + '(' + sp() + (sp() + ',' + sp()).join(render_tree(a, sp) for a in t[1]) + sp() + ')'


CONFIGS = [dict(a) for a in (
    {}, {'a': 'x'}, {'a': 'z'}, {'b': 'y'}, {'b': 'z'}, {'a': 'x', 'b': 'y'}, {'a': 'x', 'b': 'z'},
    {'a': 'z', 'b': 'y'}, {'a': 'z', 'b': 'z'}, {'a': '', 'b': ''})]

TOKALPHA: T.List[T.Tuple[str, T.Optional[str]]] = [
    ('L', None), ('R', None), ('C', None), ('E', None), ('ALL', None), ('ANY', None), ('NOT', None),
    ('I', 'a'), ('S', 'x')]
CFGCHARS = list('()=,"" \tab') + ['all', 'any', 'not', 'a', 'b', '"x"', ' = ', '_1', '-', 'é']


CFG_CORPUS = ['all(a b)', 'all(a,)', 'any(', 'not(', 'not(any)', '', 'a = b', 'a = "x" "y"', '(a)', 'not(a, b)', 'not()',
              'a)', 'a = ', '= "x"', '"a"', 'all(,a)', 'all a', 'a,b', 'all(a))', 'a = "x"', 'all()', 'any()',
              '"a', 'a"', 'a = "x" "', 'a = " x"', 'a = "x y"', 'a = "x "', 'all("a, b)', 'a = " "', 'b"="', '"-="',
              'all', 'not(all)', 'any(a, not)', 'all(unix,)', 'not(all(unix,))']
ORDER_CORPUS = [('1.0.0-2', '1.0.0-10'), ('1.0.0-1', '1.0.0--'), ('1.0.0-alpha.2', '1.0.0-alpha.1a'),
                ('1.0.0-0.3.7', '1.0.0-x.7.z.92'), ('1.0.0-alpha', '1.0.0'), ('1.0.0-rc.1', '1.0.0-rc.1+b')]
GATE_CORPUS = [('*', '1.0.0-alpha'), ('', '1.0.0-alpha'), ('^1', '1.5.0-pre'), ('>=1.0', '2.0.0-pre1')]

# ------------------------------------------------------------------ run

def run(ctx: Ctx) -> None:
    V, C, mex = impl()
    rng = ctx.rng
    ctx.rule = ('requirement grid: 8 operator spellings + 2 wildcard forms x partial versions over {0,1,2,10} (84) x release '
                'versions over {0,1,2,3,10,11}^3 (216), exhaustive, plus comma pairs, whitespace variants and partial release '
                'versions; SemVer order on pairs/triples of a generated valid-SemVer pool and on junk; cfg: every tree of depth '
                '<=2 over 4 atoms (5156) x 10 configurations, random deeper trees, all token lists of length <=4 over 9 tokens, '
                'mutated renderings and random strings. A case is non-trivial when the model answer for its kind is not the most '
                'common one, counted distinct by input.')
    cases: T.List[T.Tuple[str, T.Any, str, str]] = []

    def add(kind, inp, line, ans):
        cases.append((kind, inp, line, ans))

    def viol(hit, case):
        if hit:
            ctx.violation(hit[0], hit[1], case)

    # ---- 1. requirement x release-version grid (exhaustive)
    parts = partials()
    rel = list(itertools.product(VERS, repeat=3))
    deviates = 0
    for op in OPSPELL:
        sop = op or '^'
        for comps in parts:
            req = render_req(rng, op, comps, False)
            f = V.cargo_parse(req)
            for v in rel:
                vs = '%d.%d.%d' % v
                got = bool(f(vs))
                want = spec_matches(sop, comps, v)
                if cargo_true(sop, comps, v) != want:
                    deviates += 1
                add('match', (req, vs), f'match {enc(req)}|{enc(vs)}', str(int(got)))
                if got != want:
                    ctx.violation(f'req:{req}:{vs}', f'cargo_parse({req!r})({vs!r}) = {got}, Cargo rule says {want}',
                                  {'req': req, 'ver': vs})
    ctx.tag('grid:pairs-where-a-pinned-deviation-decides', deviates)
    # wildcards
    for comps in [c for c in parts if len(c) < 3]:
        req = '.'.join(map(str, comps)) + '.*'
        f = V.cargo_parse(req)
        for v in rel:
            vs = '%d.%d.%d' % v
            got, want = bool(f(vs)), spec_matches('~', comps, v)
            add('match', (req, vs), f'match {enc(req)}|{enc(vs)}', str(int(got)))
            if got != want:
                ctx.violation(f'req:{req}:{vs}', f'cargo_parse({req!r})({vs!r}) = {got}, Cargo rule says {want}',
                              {'req': req, 'ver': vs})
    for req in ['*', ' * ', '', '  ', '*, *']:
        for v in rel[::7]:
            vs = '%d.%d.%d' % v
            got = bool(V.cargo_parse(req)(vs))
            add('match', (req, vs), f'match {enc(req)}|{enc(vs)}', str(int(got)))
            if not got:
                ctx.violation(f'req:{req}:{vs}', f'cargo_parse({req!r}) rejects release {vs}', {'req': req, 'ver': vs})
    # comma lists, whitespace variants, partial release versions
    for _ in range(ctx.scale(30000, 400000)):
        k = rng.choice([1, 2, 2, 3])
        comp = []
        for _i in range(k):
            if rng.random() < 0.1:
                comp.append(('*', None, None))
            elif rng.random() < 0.12:
                cs = rng.choice([c for c in parts if len(c) < 3])
                comp.append(('w', '~', cs))
            else:
                comp.append(('c', rng.choice(OPSPELL), rng.choice(parts)))
        pieces = []
        for kind, op, cs in comp:
            if kind == '*':
                pieces.append(rng.choice(WS) + '*' + rng.choice(WS))
            elif kind == 'w':
                pieces.append(rng.choice(WS) + '.'.join(map(str, cs)) + '.*' + rng.choice(WS))
            else:
                pieces.append(render_req(rng, op, cs, True))
        req = ','.join(pieces)
        v = rng.choice(rel)
        nv = rng.choice([3, 3, 2, 1])
        if any(v[nv:]):
            nv = 3
        vs = '.'.join(str(x) for x in v[:nv])
        got = bool(V.cargo_parse(req)(vs))
        want = all(spec_matches(op or '^', cs, v) for kind, op, cs in comp if kind != '*')
        add('match', (req, vs), f'match {enc(req)}|{enc(vs)}', str(int(got)))
        if got != want:
            ctx.violation(f'req:{req}:{vs}', f'cargo_parse({req!r})({vs!r}) = {got}, conjunction of Cargo rules says {want}',
                          {'req': req, 'ver': vs})

    # ---- 2. SemVer order
    pool = semver_pool(rng, ctx.scale(260, 1500))
    clean = clean_pool(pool)
    ctx.tag('order:pool', len(pool))
    ctx.tag('order:pool-outside-recorded-finding-classes', len(clean))
    for s in pool:
        add('semver', s, f'semver {enc(s)}', show_semver(V.SemVer(s)))
    small = pool[:: max(1, len(pool) // 30)][:30] + ['1.0.0-alpha', '1.0.0-alpha.1', '1.0.0-alpha.beta', '1.0.0-beta',
                                                      '1.0.0-beta.2', '1.0.0-beta.11', '1.0.0-rc.1', '1.0.0']
    pairs = list(itertools.product(clean[:: max(1, len(clean) // ctx.scale(170, 500))], repeat=2))
    pairs += [(rng.choice(pool), rng.choice(pool)) for _ in range(ctx.scale(30000, 300000))]
    pairs += list(itertools.product(small, repeat=2)) + ORDER_CORPUS + [(b, a) for a, b in ORDER_CORPUS]
    for a, b in pairs:
        x, y = V.SemVer(a), V.SemVer(b)
        ans = ''.join(str(int(z)) for z in (x < y, x > y, x <= y, x >= y, x == y, x != y))
        add('cmp', (a, b), f'cmp {enc(a)}|{enc(b)}', ans)
        viol(oracle_order(V, a, b), {'a': a, 'b': b})
    for a, b, c in itertools.product(small, repeat=3):
        ctx.count()
        msg = oracle_axioms(V, a, b, c)
        if msg:
            ctx.violation(f'axioms:{a}:{b}:{c}', msg, {'a': a, 'b': b, 'c': c})
    junk = [rand_verish(rng) for _ in range(ctx.scale(1500, 15000))] + \
        [rand_junk(rng, JUNKV) for _ in range(ctx.scale(1500, 15000))]
    for s in junk:
        add('semver', s, f'semver {enc(s)}', show_semver(V.SemVer(s)))
    for _ in range(ctx.scale(30000, 300000)):
        a, b, c = rng.choice(junk), rng.choice(junk), rng.choice(pool)
        x, y = V.SemVer(a), V.SemVer(b)
        ans = ''.join(str(int(z)) for z in (x < y, x > y, x <= y, x >= y, x == y, x != y))
        add('cmp', (a, b), f'cmp {enc(a)}|{enc(b)}', ans)
        msg = oracle_axioms(V, a, b, c)
        if msg:
            ctx.violation(f'axioms:{a}:{b}:{c}', msg, {'a': a, 'b': b, 'c': c})
    # build metadata, pre-release below release: direct statements
    for s in pool:
        core, pre = semver_fields(s)
        base = s.split('+')[0]
        for bm in ('+b', '+1.x-'):
            if not (V.SemVer(base + bm) == V.SemVer(base)) or V.SemVer(base + bm) < V.SemVer(base) or \
                    V.SemVer(base + bm) > V.SemVer(base):
                ctx.violation(f'build:{base}{bm}', 'build metadata changes precedence', {'a': base, 'b': base + bm})
        ctx.count(2)
        if pre:
            r = '%d.%d.%d' % core
            if not (V.SemVer(s) < V.SemVer(r) and V.SemVer(r) > V.SemVer(s)):
                ctx.violation(f'prebelow:{s}', 'a pre-release is not below its release', {'a': s, 'b': r})
            if not V.SemVer(s).has_prerelease:
                ctx.violation(f'haspre:{s}', 'has_prerelease is False for a pre-release', {'a': s})

    # ---- 3. pre-release gate (and requirements that do carry a tag: correspondence only)
    prevs = [s for s in pool if semver_fields(s)[1]]
    for req, vs in GATE_CORPUS:
        if V.cargo_parse(req)(vs):
            key = 'gate:requirement-without-comparators' if req.strip() in ('', '*') else f'gate:{req}:{vs}'
            ctx.violation(key, f'pre-release {vs!r} satisfies {req!r}, which names no pre-release', {'req': req, 'ver': vs})
    for _ in range(ctx.scale(30000, 300000)):
        r = rng.random()
        if r < 0.08:
            req = rng.choice(['*', '', ' ', '*,*', ' * '])
            ncomp = 0
        else:
            k = rng.choice([1, 1, 2])
            req = ','.join(render_req(rng, rng.choice(OPSPELL), rng.choice(parts), rng.random() < 0.3) for _ in range(k))
            ncomp = k
        vs = rng.choice(prevs)
        got = bool(V.cargo_parse(req)(vs))
        add('match', (req, vs), f'match {enc(req)}|{enc(vs)}', str(int(got)))
        if got:
            key = 'gate:requirement-without-comparators' if ncomp == 0 else f'gate:{req}:{vs}'
            ctx.violation(key, f'pre-release {vs!r} satisfies {req!r}, which names no pre-release', {'req': req, 'ver': vs})
    for _ in range(ctx.scale(20000, 200000)):
        k = rng.choice([1, 1, 2])
        req = ','.join(rng.choice(OPSPELL + ['!=']) + rng.choice(WS) + rng.choice(pool + junk[:200]) for _ in range(k))
        vs = rng.choice(pool) if rng.random() < 0.8 else rng.choice(junk)
        add('match', (req, vs), f'match {enc(req)}|{enc(vs)}', str(int(bool(V.cargo_parse(req)(vs)))))
    # split / api on anything
    reqs = [rand_junk(rng, JUNKV, 10) for _ in range(ctx.scale(4000, 40000))] + \
        [','.join(rng.choice(WS) + rng.choice(OPSPELL + ['!=', '=>', '~>']) + rng.choice(WS) + rand_verish(rng)
                  for _ in range(rng.randint(0, 3))) for _ in range(ctx.scale(6000, 60000))]
    for req in reqs:
        add('split', req, f'split {enc(req)}', ';'.join(op + ':' + enc(v) for op, v in V.split(req)))
        add('api', req, f'api {enc(req)}', guard(lambda: 'OK:' + enc(V.api(req)), mex))
        vs = rng.choice(pool)
        add('match', (req, vs), f'match {enc(req)}|{enc(vs)}', str(int(bool(V.cargo_parse(req)(vs)))))

    # ---- 4. cfg
    def cfg_case(inner: str, d: T.Dict[str, str]):
        raw = 'cfg(' + inner + ')'
        add('evalcfg', (raw, d), f'evalcfg {enc(raw)}|{enc_cfgs(d)}',
            parse_guard(C, mex, inner, lambda: str(int(C.eval_cfg(raw, d)))))
        viol(oracle_cfg(C, mex, inner, d), {'expr': raw, 'cfgs': d})

    def nosp():
        return ''

    t2 = trees(2)
    ctx.tag('cfg:trees-depth<=2', len(t2))
    for t in t2:
        inner = render_tree(t, nosp)
        add('lexparse', inner, f'lexparse {enc(inner)}',
            parse_guard(C, mex, inner, lambda: 'OK:' + show_ir(C, C.parse(C.lexer(inner)))))
        for d in CONFIGS:
            cfg_case(inner, d)
    names = ['a', 'b', 'unix', 'target_os', 'feature', 'all_', 'any1', 'nota', 'x-y', '1', 'é']
    values = ['x', 'y', '', 'linux', 'x86_64', 'any', 'a.b', "it's", 'é', 'x y', ' x', 'x ', '(', 'a,b', '=', ' ', 'all(a)']
    deep_strings = []
    for _ in range(ctx.scale(6000, 80000)):
        t = rand_tree(rng, 4, names, values)
        inner = render_tree(t, lambda: rng.choice(['', '', ' ', '  ', '\t', '\n']))
        deep_strings.append(inner)
        d = {n: rng.choice(values) for n in names if rng.random() < 0.4}
        add('lexparse', inner, f'lexparse {enc(inner)}',
            parse_guard(C, mex, inner, lambda: 'OK:' + show_ir(C, C.parse(C.lexer(inner)))))
        cfg_case(inner, d)
    # token lists: exhaustive to length 4, random to length 8
    soups = [list(s) for n in range(0, 5) for s in itertools.product(TOKALPHA, repeat=n)]
    for _ in range(ctx.scale(8000, 100000)):
        soups.append([rng.choice(TOKALPHA + [('I', 'b'), ('S', ''), ('I', 'all')]) for _ in range(rng.randint(5, 8))])
    for toks in soups:
        add('parse', toks, 'parse ' + ','.join(wire_tok(w) for w in toks),
            guard(lambda: 'OK:' + show_ir(C, C.parse(iter([mk_tok(C, w) for w in toks]))), mex))
        viol(oracle_cfg_tokens(C, mex, toks), {'tokens': [wire_tok(w) for w in toks]})
    # malformed strings: mutated renderings and random strings
    mal = []
    for s in deep_strings[: ctx.scale(4000, 40000)]:
        if not s:
            continue
        i = rng.randrange(len(s))
        r = rng.random()
        if r < 0.4:
            mal.append(s[:i] + s[i + 1:])
        elif r < 0.8:
            mal.append(s[:i] + rng.choice(['(', ')', ',', '=', '"', ' ', 'a', 'all']) + s[i:])
        else:
            mal.append(s[:i] + rng.choice(['(', ')', ',', '=', '"', 'a']) + s[i + 1:])
    for _ in range(ctx.scale(12000, 150000)):
        mal.append(''.join(rng.choice(CFGCHARS) for _ in range(rng.randint(0, 9))))
    for inner in CFG_CORPUS:
        for d in CONFIGS:
            cfg_case(inner, d)
    for inner in mal + CFG_CORPUS:
        d = rng.choice(CONFIGS)
        add('lex', inner, f'lex {enc(inner)}', lex_answer(C, mex, inner))
        cfg_case(inner, d)
    # the envelope
    for _ in range(ctx.scale(2000, 20000)):
        raw = rng.choice(['', 'cfg', 'cfg(', 'cfg()', 'cfg(a', 'cfg(a)', 'cfg(a) ', ' cfg(a)', 'a', 'cfg(a))', 'CFG(a)',
                          'cfg(' + rng.choice(deep_strings) + ')', rng.choice(deep_strings), rand_junk(rng, CFGCHARS, 6)])
        d = rng.choice(CONFIGS)
        add('evalcfg', (raw, d), f'evalcfg {enc(raw)}|{enc_cfgs(d)}',
            parse_guard(C, mex, raw[4:-1], lambda: str(int(C.eval_cfg(raw, d)))))

    # ---- correspondence: model driver on the same inputs
    ctx.count(len(cases))
    if getattr(ctx, 'model_available', True):
        answers = ctx.driver('cargo', [c[2] for c in cases])
        freq: T.Dict[str, T.Dict[str, int]] = {}
        for (kind, inp, _line, impl_ans), model_ans in zip(cases, answers):
            ctx.tag('kind:' + kind)
            if model_ans.startswith('ERR:'):
                ctx.tag('model-error:' + model_ans[4:])
            freq.setdefault(kind, {}).setdefault(model_ans, 0)
            freq[kind][model_ans] += 1
            if impl_ans != model_ans:
                ctx.disagreement({'kind': kind, 'input': inp, 'impl': impl_ans, 'model': model_ans})
        top = {k: max(v, key=v.get) for k, v in freq.items()}
        for (kind, inp, _line, _ia), model_ans in zip(cases, answers):
            if model_ans != top[kind]:
                ctx.seen_nontrivial((kind, repr(inp)))
    seen_kinds = set()
    for c in cases:
        if c[0] not in seen_kinds:
            seen_kinds.add(c[0])
            ctx.sample({'kind': c[0], 'input': c[1], 'impl': c[3]}, limit=12)
    ctx.assumptions += TRUSTED


# ------------------------------------------------------------------ search / replay

def neighbours(s: str, alphabet: str) -> T.Iterable[str]:
    yield s
    for i in range(len(s)):
        yield s[:i] + s[i + 1:]
    for i in range(len(s) + 1):
        for ch in alphabet:
            yield s[:i] + ch + s[i:]


REQ_RE = re.compile(r'^\s*(\^|~|=|<=|<|>=|>|)\s*(\d+)(?:\.(\d+))?(?:\.(\d+))?(\.\*)?\s*$')


def req_oracle(V, req: str, vs: str) -> T.Optional[T.Tuple[str, str]]:
    """the requirement oracle on free text: only when every comma piece is one of the listed tag-free forms"""
    m = re.match(r'^\s*(\d+)(?:\.(\d+))?(?:\.(\d+))?\s*$', vs)
    if not m:
        return None
    v = tuple(int(x) if x else 0 for x in m.groups())
    want = True
    for piece in req.split(','):
        if piece.strip() == '*':
            continue
        pm = REQ_RE.match(piece)
        if not pm:
            return None
        comps = [int(x) for x in pm.groups()[1:4] if x is not None]
        if any(len(x) > 1 and x[0] == '0' for x in pm.groups()[1:4] if x):
            return None
        op = pm.group(1) or '^'
        if pm.group(5):
            if pm.group(1) or len(comps) == 3:
                return None
            op = '~'
        want = want and spec_matches(op, comps, v)   # type: ignore[arg-type]
    if not req.strip():
        want = True
    got = bool(V.cargo_parse(req)(vs))
    if got != want:
        return f'req:{req}:{vs}', f'cargo_parse({req!r})({vs!r}) = {got}, Cargo rule says {want}'
    return None


def strings_of(x) -> T.List[str]:
    if isinstance(x, str):
        return [x]
    if isinstance(x, (list, tuple)):
        return [s for y in x for s in strings_of(y)]
    return []


def search(ctx: Ctx, disagreements: T.List[dict]) -> None:
    """failing-input search on the implementation alone, around the inputs on which model and
    implementation differ, then a deeper sweep of the generated families."""
    V, C, mex = impl()
    rng = ctx.rng
    rel = ['%d.%d.%d' % v for v in itertools.product(VERS, repeat=3)]
    pool = semver_pool(rng, 400)
    clean = clean_pool(pool)
    for d in disagreements:
        kind, inp = d.get('kind'), d.get('input')
        strs = strings_of(inp)
        if kind == 'match':
            req, vs = inp
            for r in itertools.islice(neighbours(req, '01.*~^<>=, '), 800):
                for v in [vs] + rng.sample(rel, 25):
                    hit = req_oracle(V, r, v)
                    if hit:
                        ctx.violation(hit[0], hit[1], {'req': r, 'ver': v})
                        return
                    if semver_fields(vs) and semver_fields(vs)[1] and REQ_RE.match(r) and V.cargo_parse(r)(vs):
                        ctx.violation(f'gate:{r}:{vs}', 'pre-release satisfies a requirement naming no pre-release',
                                      {'req': r, 'ver': vs})
                        return
        if kind in ('cmp', 'semver'):
            for a in strs:
                for n in itertools.islice(neighbours(a, '01a.-+'), 600):
                    if not semver_fields(n):
                        continue
                    for b in rng.sample(clean, min(60, len(clean))) + [x for x in strs if semver_fields(x)]:
                        for (x, y) in ((n, b), (b, n)):
                            hit = oracle_order(V, x, y)
                            if hit and hit[0] not in ctx.known:
                                ctx.violation(hit[0], hit[1], {'a': x, 'b': y})
                                return
        if kind in ('evalcfg', 'lexparse', 'lex'):
            raw = strs[0] if strs else ''
            inner = raw[4:-1] if raw.startswith('cfg(') and raw.endswith(')') else raw
            for n in itertools.islice(neighbours(inner, '(),="a '), 1500):
                for dd in CONFIGS[:6]:
                    hit = oracle_cfg(C, mex, n, dd)
                    if hit and hit[0] not in ctx.known:
                        ctx.violation(hit[0], hit[1], {'expr': 'cfg(' + n + ')', 'cfgs': dd})
                        return
        if kind == 'parse':
            toks = [tuple(w) for w in inp]
            for i in range(len(toks) + 1):
                for cand in [toks[:i] + toks[i + 1:]] + [toks[:i] + [w] + toks[i:] for w in TOKALPHA]:
                    hit = oracle_cfg_tokens(C, mex, cand)
                    if hit:
                        ctx.violation(hit[0], hit[1], {'tokens': [wire_tok(w) for w in cand]})
                        return
    # deeper sweep: order on clean pairs, all depth<=2 trees, grid already covered by run()
    for a in clean:
        for b in clean:
            hit = oracle_order(V, a, b)
            if hit and hit[0] not in ctx.known:
                ctx.violation(hit[0], hit[1], {'a': a, 'b': b})
                return
    for _ in range(200000):
        t = rand_tree(rng, 4, ['a', 'b', 'c'], ['x', 'y', ''])
        inner = render_tree(t, lambda: rng.choice(['', ' ']))
        dd = {n: rng.choice(['x', 'y', '']) for n in 'abc' if rng.random() < 0.5}
        hit = oracle_cfg(C, mex, inner, dd)
        if hit and hit[0] not in ctx.known:
            ctx.violation(hit[0], hit[1], {'expr': 'cfg(' + inner + ')', 'cfgs': dd})
            return


def replay(ctx: Ctx, rep: dict) -> None:
    V, C, mex = impl()
    case = rep.get('case', {})
    print('replay', rep.get('what'), case)
    if 'req' in case:
        req, vs = case['req'], case['ver']
        print('impl :', V.cargo_parse(req)(vs))
        print('oracle:', req_oracle(V, req, vs))
        print('model:', ctx.driver('cargo', [f'match {enc(req)}|{enc(vs)}']))
    elif 'expr' in case:
        raw, d = case['expr'], case['cfgs']
        print('impl :', guard(lambda: str(int(C.eval_cfg(raw, d))), mex))
        print('oracle:', oracle_cfg(C, mex, raw[4:-1], d))
        print('model:', ctx.driver('cargo', [f'evalcfg {enc(raw)}|{enc_cfgs(d)}']))
    elif 'tokens' in case:
        print('model:', ctx.driver('cargo', ['parse ' + ','.join(case['tokens'])]))
    elif 'a' in case and 'b' in case:
        a, b = case['a'], case['b']
        x, y = V.SemVer(a), V.SemVer(b)
        print('impl :', x._v, y._v, 'lt', x < y, 'gt', x > y, 'eq', x == y)
        if semver_fields(a) and semver_fields(b):
            print('oracle:', oracle_order(V, a, b))
        print('model:', ctx.driver('cargo', [f'cmp {enc(a)}|{enc(b)}']))
