"""C20 — Cargo version requirements and cfg() expressions mean what Cargo says."""
from __future__ import annotations

import ast
import dataclasses
import functools
import inspect
import itertools
import os
import re
import textwrap
import types
import typing as T

from . import common
from .common import Ctx, enc

ID = 'C20'
LEVEL = 'proof'
LEAN_TARGETS = ['MesonModel.Props.C20']
AREAS = ['cargo']
PINS = [
    'mesonbuild.cargo.version:_api_of',
    'mesonbuild.cargo.version:split',
    'mesonbuild.cargo.version:api',
    'mesonbuild.cargo.version:SemVer',
    'mesonbuild.cargo.version:cargo_parse',
    'mesonbuild.cargo.cfg:lexer',
    'mesonbuild.cargo.cfg:_parse',
    'mesonbuild.cargo.cfg:parse',
    'mesonbuild.cargo.cfg:_eval_cfg',
    'mesonbuild.cargo.cfg:eval_cfg',
    'mesonbuild.utils.universal:lookahead',
    'mesonbuild.utils.universal:lazy_property',
    'mesonbuild.cargo.manifest:Dependency',
    'mesonbuild.cargo.manifest:CargoLockPackage',
    'mesonbuild.cargo.manifest:CargoLock',
    'mesonbuild.cargo.manifest:_raw_to_dataclass',
    'mesonbuild.cargo.interpreter:Interpreter._resolve_package',
    'mesonbuild.cargo.interpreter:Interpreter.resolve_package',
    'mesonbuild.cargo.interpreter:Interpreter._dep_package',
    'mesonbuild.cargo.interpreter:Interpreter._get_cfgs',
    'mesonbuild.cargo.interpreter:Interpreter._prepare_package',
    'mesonbuild.cargo.manifest:SystemDependency',
    'mesonbuild.cargo.interpreter:Interpreter._split_cfg',
    'mesonbuild.compilers.rust:RustCompiler.get_cfgs',
]
TRUSTED = [
    'Cargo matcher and SemVer 2.0.0 section 11 precedence are written down from the Cargo reference / semver.org '
    '(Lean: Cargo/Spec.lean; Python oracle: spec_matches, semver_prec) - no cargo binary in the sandbox',
    'Python primitive comparisons on int/str/list are the orders the model uses (Int order, code-point lexicographic, list equality)',
    'domain: ASCII strings plus non-ASCII code points CPython classes as neither digit, letter nor space; digit runs < 4300 chars',
    'cfg: when the lexer ends in the unterminated-string error the parser raises that MesonException or an earlier syntax '
    'error of the token prefix; model and harness do not distinguish these two messages (both are MesonException)',
]

# ------------------------------------------------------------------ implementation adapters


def impl():
    from mesonbuild.cargo import version as V
    from mesonbuild.cargo import cfg as C
    from mesonbuild.mesonlib import MesonException
    return V, C, MesonException


OPSHOW = {'>=': '>=', '<=': '<=', '!=': '!=', '~': '~', '=': '=', '^': '^', '>': '>', '<': '<'}


def show_semver(x) -> str:
    comps = ','.join(('i%d' % c) if isinstance(c, int) else 's' + enc(c) for c in x._v)
    return f'{x.specified_count};{int(x.has_prerelease)};{comps}'


def guard(f: T.Callable[[], str], mex) -> str:
    try:
        return f()
    except mex as e:
        return 'ERR:' + classify_msg(str(e))
    except AssertionError:
        return 'ERR:AssertionError'
    except ValueError:
        return 'ERR:ValueError'
    except Exception as e:  # anything else escaping is reported as such
        return f'ERR:PythonInternal({type(e).__name__})'


def lex_answer(C, mex, inner: str) -> str:
    """the tokens the generator yields, then `ERR:unterminated` if it ends by raising that error"""
    out = []
    try:
        for t in C.lexer(inner):
            out.append(show_tok(C, t))
    except mex as e:
        out.append('ERR:' + classify_msg(str(e)))
    return ','.join(out)


def lexes_unterminated(C, mex, inner: str) -> bool:
    try:
        for _ in C.lexer(inner):
            pass
    except mex as e:
        return classify_msg(str(e)) == 'unterminated'
    return False


def parse_guard(C, mex, inner: str, f: T.Callable[[], str]) -> str:
    """like guard(); when the lexer ends in the unterminated-string error the parser fails with that
    MesonException or with an earlier syntax error of the token prefix (one-token lookahead) - the model
    does not distinguish the two messages, so both are canonicalised to ERR:unterminated"""
    ans = guard(f, mex)
    if ans.startswith('ERR:') and not ans.startswith('ERR:Python') and ans != 'ERR:AssertionError' \
            and lexes_unterminated(C, mex, inner):
        return 'ERR:unterminated'
    return ans


def classify_msg(m: str) -> str:
    if m == 'unterminated string in cfg expression':
        return 'unterminated'
    if m == 'expected string':
        return 'expected-string'
    if m == 'expected "("':
        return 'expected-lparen'
    if m == 'expected ")" or ","':
        return 'expected-rparen-or-comma'
    if m == 'expected ")"':
        return 'expected-rparen'
    if m.startswith('Unhandled Cargo token'):
        return 'unhandled-token'
    if m == 'malformed cfg expression':
        return 'malformed'
    if m == 'trailing text after cfg expression':
        return 'trailing'
    return 'MesonException'


def show_tok(C, t) -> str:
    ty, val = t
    TT = C.TokenType
    return {TT.LPAREN: 'L', TT.RPAREN: 'R', TT.COMMA: 'C', TT.EQUAL: 'E', TT.ALL: 'ALL', TT.ANY: 'ANY',
            TT.NOT: 'NOT'}.get(ty) or (('S' if ty is TT.STRING else 'I') + enc(val))


def mk_tok(C, w: T.Tuple[str, T.Optional[str]]):
    TT = C.TokenType
    k, v = w
    return {'L': (TT.LPAREN, None), 'R': (TT.RPAREN, None), 'C': (TT.COMMA, None), 'E': (TT.EQUAL, None),
            'ALL': (TT.ALL, None), 'ANY': (TT.ANY, None), 'NOT': (TT.NOT, None)}.get(k) or \
        ((TT.STRING, v) if k == 'S' else (TT.IDENTIFIER, v))


def wire_tok(w) -> str:
    k, v = w
    return k if v is None else k + enc(v)


def show_ir(C, ir) -> str:
    if isinstance(ir, C.Identifier):
        return 'I(' + enc(ir.value) + ')'
    if isinstance(ir, C.Equal):
        return 'Q(' + enc(ir.lhs.value) + ';' + enc(ir.rhs.value) + ')'
    if isinstance(ir, C.Not):
        return 'NOT[' + show_ir(C, ir.value) + ']'
    if isinstance(ir, C.Any):
        return 'ANY[' + ','.join(show_ir(C, a) for a in ir.args) + ']'
    if isinstance(ir, C.All):
        return 'ALL[' + ','.join(show_ir(C, a) for a in ir.args) + ']'
    return 'IR?' + type(ir).__name__


def show_tree(t) -> str:
    """same canonical text for an oracle-side tree"""
    k = t[0]
    if k == 'id':
        return 'I(' + enc(t[1]) + ')'
    if k == 'eq':
        return 'Q(' + enc(t[1]) + ';' + enc(t[2]) + ')'
    if k == 'not':
        return 'NOT[' + show_tree(t[1]) + ']'
    return ('ANY[' if k == 'any' else 'ALL[') + ','.join(show_tree(a) for a in t[1]) + ']'


def enc_cfgs(d: T.Dict[str, str]) -> str:
    return ','.join(enc(k) + '=' + enc(v) for k, v in d.items())


# ------------------------------------------------------------------ independent specifications (oracle side)
# Written from the Cargo reference ("Specifying dependencies") and semver.org section 11; they never
# call the Lean model and never look at how version.py / cfg.py work.

def spec_matches(op: str, comps: T.Sequence[int], v: T.Tuple[int, int, int]) -> bool:
    """Cargo's rule for a tag-free comparator `op I[.J[.K]]` on a release version, with the two
    deviations pinned by unittests/cargotests.py."""
    n = len(comps)
    I = comps[0]
    J = comps[1] if n > 1 else 0
    K = comps[2] if n > 2 else 0
    lo = (I, J, K)
    if op == '=':
        return v == lo                      # deviation 1: a partial `=` pads with zero
    if op == '>':
        return v > lo                       # deviation 1: a partial `>` pads with zero
    if op == '>=':
        return v >= lo
    if op == '<':
        return v < lo
    if op == '<=':
        if n == 3:
            return v <= lo
        return v < ((I + 1, 0, 0) if n == 1 else (I, J + 1, 0))
    if op == '~':
        return lo <= v < ((I + 1, 0, 0) if n == 1 else (I, J + 1, 0))
    if op == '^':
        if I == 0 and J == 0 and K == 0:
            return v < (1, 0, 0)            # deviation 2: an all-zero caret means < 1.0.0
        if I > 0:
            hi = (I + 1, 0, 0)
        elif J > 0:
            hi = (0, J + 1, 0)
        else:
            hi = (0, 0, K + 1)
        return lo <= v < hi
    raise AssertionError(op)


def cargo_true(op: str, comps: T.Sequence[int], v: T.Tuple[int, int, int]) -> bool:
    """Cargo without the two pinned deviations (only used to measure how often they matter)."""
    n = len(comps)
    I = comps[0]
    J = comps[1] if n > 1 else 0
    up = (I + 1, 0, 0) if n == 1 else (I, J + 1, 0)
    if op == '=' and n < 3:
        return (I, J, 0) <= v < up
    if op == '>' and n < 3:
        return v >= up
    if op == '^' and not any(comps):
        return v < {1: (1, 0, 0), 2: (0, 1, 0), 3: (0, 0, 1)}[n]
    return spec_matches(op, comps, v)


SEMVER_RE = re.compile(r'^(0|[1-9][0-9]*)\.(0|[1-9][0-9]*)\.(0|[1-9][0-9]*)'
                       r'(?:-((?:0|[1-9][0-9]*|[0-9]*[A-Za-z-][0-9A-Za-z-]*)(?:\.(?:0|[1-9][0-9]*|[0-9]*[A-Za-z-][0-9A-Za-z-]*))*))?'
                       r'(?:\+([0-9A-Za-z-]+(?:\.[0-9A-Za-z-]+)*))?$')


def semver_fields(s: str):
    m = SEMVER_RE.match(s)
    if not m:
        return None
    pre = m.group(4).split('.') if m.group(4) is not None else []
    return (int(m.group(1)), int(m.group(2)), int(m.group(3))), pre


def semver_prec(a: str, b: str) -> int:
    """semver.org section 11: -1, 0, 1"""
    (ca, pa), (cb, pb) = semver_fields(a), semver_fields(b)
    if ca != cb:
        return -1 if ca < cb else 1
    if not pa and not pb:
        return 0
    if not pa:
        return 1          # 11.3 a pre-release has lower precedence than the normal version
    if not pb:
        return -1
    for x, y in zip(pa, pb):
        xn, yn = x.isdigit(), y.isdigit()
        if xn and yn:
            if int(x) != int(y):
                return -1 if int(x) < int(y) else 1   # 11.4.1
        elif xn != yn:
            return -1 if xn else 1                    # 11.4.3 numeric below non-numeric
        elif x != y:
            return -1 if x < y else 1                 # 11.4.2 ASCII order
    if len(pa) != len(pb):
        return -1 if len(pa) < len(pb) else 1         # 11.4.4
    return 0


def order_key(a: str, b: str) -> str:
    """canonical class of an order violation (so a recorded finding suppresses only its own class)"""
    for s in (a, b):
        pre = semver_fields(s)[1]
        if pre and pre[0].isdigit():
            return 'order:first-prerelease-identifier-numeric'
    for s in (a, b):
        pre = semver_fields(s)[1]
        if any(p[0].isdigit() and not p.isdigit() for p in pre[1:]):
            return 'order:digit-leading-alphanumeric-identifier'
    return f'order:{a}:{b}'


def oracle_order(V, a: str, b: str) -> T.Optional[T.Tuple[str, str]]:
    x, y = V.SemVer(a), V.SemVer(b)
    c = semver_prec(a, b)
    got = (x < y, x > y, x <= y, x >= y, x == y, x != y)
    want = (c < 0, c > 0, c <= 0, c >= 0, c == 0, c != 0)
    if got != want:
        names = ['<', '>', '<=', '>=', '==', '!=']
        bad = [n for n, g, w in zip(names, got, want) if g != w]
        return order_key(a, b), f'SemVer({a!r}) {"/".join(bad)} SemVer({b!r}) disagrees with section 11 precedence {c}'
    return None


def oracle_axioms(V, a: str, b: str, c: str) -> T.Optional[str]:
    """order axioms on arbitrary strings, no specification involved"""
    x, y, z = V.SemVer(a), V.SemVer(b), V.SemVer(c)
    lt, gt, le, ge, eq, ne = x < y, x > y, x <= y, x >= y, x == y, x != y
    if [lt, eq, gt].count(True) != 1:
        return f'trichotomy fails lt={lt} eq={eq} gt={gt}'
    if le != (lt or eq) or ge != (gt or eq) or ne == eq or lt != (y > x):
        return 'the six operators are inconsistent'
    if lt and y < z and not x < z:
        return '< is not transitive'
    if le and y <= z and not x <= z:
        return '<= is not transitive'
    return None


# cfg: grammar  e ::= name | name = "str" | not ( e ) | all ( [e {, e}] ) | any ( [e {, e}] )
SEP = set(' \t\n\r\x0b\x0c\x1c\x1d\x1e\x1f()=,"')


def cfg_tokens(s: str):
    """tokenizer of the oracle: returns list of ('L'|'R'|'C'|'E'|'W' word|'S' string) or None when a string
    literal is not terminated"""
    out = []
    i = 0
    n = len(s)
    while i < n:
        c = s[i]
        if c.isspace():
            i += 1
        elif c in '()=,':
            out.append(({'(': 'L', ')': 'R', ',': 'C', '=': 'E'}[c], None))
            i += 1
        elif c == '"':
            j = s.find('"', i + 1)
            if j < 0:
                return None
            out.append(('S', s[i + 1:j]))
            i = j + 1
        else:
            j = i
            while j < n and s[j] not in SEP:
                j += 1
            out.append(('W', s[i:j]))
            i = j
    return out


def kw(tokens, bare_keyword_is_name=False):
    """word tokens -> keyword / identifier tokens"""
    out = []
    for i, (k, v) in enumerate(tokens):
        if k == 'W' and v in ('all', 'any', 'not') and \
                not (bare_keyword_is_name and (i + 1 >= len(tokens) or tokens[i + 1][0] != 'L')):
            out.append(({'all': 'ALL', 'any': 'ANY', 'not': 'NOT'}[v], None))
        else:
            out.append(('I', v) if k == 'W' else (k, v))
    return out


def cfg_recognize(toks) -> T.Optional[tuple]:
    """recursive descent over keyword tokens; the tree, or None when the token list is not in the grammar"""
    pos = 0

    def peek():
        return toks[pos][0] if pos < len(toks) else None

    def expr():
        nonlocal pos
        k = peek()
        if k == 'I':
            name = toks[pos][1]
            pos += 1
            if peek() == 'E':
                pos += 1
                if peek() != 'S':
                    raise ValueError
                val = toks[pos][1]
                pos += 1
                return ('eq', name, val)
            return ('id', name)
        if k == 'NOT':
            pos += 1
            if peek() != 'L':
                raise ValueError
            pos += 1
            e = expr()
            if peek() != 'R':
                raise ValueError
            pos += 1
            return ('not', e)
        if k in ('ALL', 'ANY'):
            pos += 1
            if peek() != 'L':
                raise ValueError
            pos += 1
            args = []
            if peek() == 'R':
                pos += 1
                return ('all' if k == 'ALL' else 'any', args)
            while True:
                args.append(expr())
                if peek() == 'R':
                    pos += 1
                    return ('all' if k == 'ALL' else 'any', args)
                if peek() != 'C':
                    raise ValueError
                pos += 1
        raise ValueError

    try:
        t = expr()
    except ValueError:
        return None
    return t if pos == len(toks) else None


def truth(t, d: T.Dict[str, str]) -> bool:
    k = t[0]
    if k == 'id':
        return t[1] in d
    if k == 'eq':
        return t[1] in d and d[t[1]] == t[2]
    if k == 'not':
        return not truth(t[1], d)
    vals = [truth(a, d) for a in t[1]]
    return all(vals) if k == 'all' else any(vals)


def tree_strings(t) -> T.List[str]:
    k = t[0]
    if k == 'eq':
        return [t[2]]
    if k == 'not':
        return tree_strings(t[1])
    if k in ('all', 'any'):
        return [s for a in t[1] for s in tree_strings(a)]
    return []


def oracle_cfg(C, mex, inner: str, d: T.Dict[str, str]) -> T.Optional[T.Tuple[str, str]]:
    """`cfg(<inner>)`: structurally valid => the truth-table value; malformed => MesonException"""
    raw = 'cfg(' + inner + ')'
    try:
        got: T.Any = C.eval_cfg(raw, d)
    except mex:
        got = 'MesonException'
    except Exception as e:
        return f'cfg:escaping:{type(e).__name__}', f'{type(e).__name__} escapes eval_cfg({raw!r})'
    toks = cfg_tokens(inner)
    if toks is None:
        if got != 'MesonException':
            return ('cfg:unterminated-string-literal-accepted',
                    f'eval_cfg({raw!r}) = {got} although a string literal is not terminated')
        return None
    # `all` / `any` / `not` not followed by `(`: rustc reads a bare word as a configuration name, the pinned
    # tests expect `not(any)` to be rejected; the property does not decide, so both outcomes are accepted.
    ambiguous = any(k == 'W' and v in ('all', 'any', 'not') and (i + 1 >= len(toks) or toks[i + 1][0] != 'L')
                    for i, (k, v) in enumerate(toks))
    tree = cfg_recognize(kw(toks, bare_keyword_is_name=True))
    strs_all = [v for k, v in toks if k == 'S']
    if tree is None:
        if got != 'MesonException':
            if any(c in SEP for s in strs_all for c in s):
                return ('cfg:separator-inside-string-literal-lexed-as-tokens',
                        f'eval_cfg({raw!r}) = {got} although the expression is malformed')
            return f'cfg:malformed-accepted:{inner}', f'eval_cfg({raw!r}) = {got} although the expression is malformed'
        return None
    strs = tree_strings(tree)
    if got == 'MesonException':
        if ambiguous:
            return None   # the property does not decide (see above)
        return f'cfg:valid-rejected:{inner}', f'eval_cfg({raw!r}) raises although the expression is well-formed'
    want = truth(tree, d)
    if got != want:
        if any(c.isspace() for s in strs for c in s):
            return ('cfg:whitespace-in-string-literal-dropped',
                    f'eval_cfg({raw!r}, {d!r}) = {got}, structure says {want}')
        return f'cfg:wrong-value:{inner}:{sorted(d.items())}', f'eval_cfg({raw!r}, {d!r}) = {got}, structure says {want}'
    return None


def oracle_cfg_tokens(C, mex, toks) -> T.Optional[T.Tuple[str, str]]:
    """`parse` on a token list: accepted iff in the grammar, and then with exactly that tree"""
    tree = cfg_recognize(toks)
    try:
        got = show_ir(C, C.parse(iter([mk_tok(C, w) for w in toks])))
    except mex:
        got = None
    except Exception as e:
        return f'cfgtok:escaping:{type(e).__name__}', f'{type(e).__name__} escapes parse'
    want = None if tree is None else show_tree(tree)
    if got != want:
        return (f'cfgtok:{",".join(wire_tok(w) for w in toks)}',
                f'parse accepts {got!r}, grammar says {want!r}')
    return None



# ------------------------------------------------------------------ consumer objects of the matcher
# (manifest.Dependency & co.: lazily cached attributes, mutators, Cargo.lock resolution, cfg tables)

CARGO_MODULES = ['mesonbuild.cargo.manifest', 'mesonbuild.cargo.interpreter']


def is_lazy(attr: object) -> bool:
    from mesonbuild.utils.universal import lazy_property
    return isinstance(attr, (lazy_property, functools.cached_property))


def lazy_func(attr: object):
    if isinstance(attr, functools.cached_property):
        return attr.func
    for k, v in vars(attr).items():
        if k.endswith('__func'):
            return v
    return None


def harvest_lazy() -> T.Dict[type, T.List[str]]:
    """every class of the cargo modules with lazy_property / cached_property attributes (from the live source)"""
    import importlib
    out: T.Dict[type, T.List[str]] = {}
    for mn in CARGO_MODULES:
        mod = importlib.import_module(mn)
        for _n, cls in sorted(vars(mod).items()):
            if inspect.isclass(cls) and cls.__module__ == mn:
                names = sorted(k for k, v in vars(cls).items() if is_lazy(v))
                if names:
                    out[cls] = names
    return out


def self_fields_read(func) -> T.Set[str]:
    try:
        tree = ast.parse(textwrap.dedent(inspect.getsource(func)))
    except (OSError, TypeError, SyntaxError):
        return set()
    return {n.attr for n in ast.walk(tree)
            if isinstance(n, ast.Attribute) and isinstance(n.value, ast.Name) and n.value.id == 'self'}


def harvest_mutators(cls: type) -> T.Dict[str, T.Tuple[T.Set[str], T.Optional[T.List[T.List[str]]]]]:
    """methods of cls that assign instance fields: name -> (fields assigned, try/delattr block structure or None
    when the body has a shape this reader does not know)"""
    out = {}
    for name, fn in vars(cls).items():
        if not inspect.isfunction(fn) or name.startswith('__'):
            continue
        try:
            fdef = ast.parse(textwrap.dedent(inspect.getsource(fn))).body[0]
        except (OSError, TypeError, SyntaxError, IndexError):
            continue
        assigned = {t.attr for n in ast.walk(fdef) if isinstance(n, (ast.Assign, ast.AugAssign, ast.AnnAssign))
                    for t in (n.targets if isinstance(n, ast.Assign) else [n.target])
                    if isinstance(t, ast.Attribute) and isinstance(t.value, ast.Name) and t.value.id == 'self'}
        if not assigned:
            continue
        out[name] = (assigned, read_blocks(fdef))
    return out


def _delattr_name(call: ast.AST) -> T.Optional[str]:
    if isinstance(call, ast.Expr):
        call = call.value
    if isinstance(call, ast.Call) and isinstance(call.func, ast.Name) and call.func.id == 'delattr' \
            and len(call.args) == 2 and isinstance(call.args[1], ast.Constant) and isinstance(call.args[1].value, str):
        return call.args[1].value
    return None


def read_blocks(fdef: ast.FunctionDef) -> T.Optional[T.List[T.List[str]]]:
    blocks: T.List[T.List[str]] = []
    for st in fdef.body:
        if isinstance(st, (ast.Assign, ast.AnnAssign, ast.Pass)):
            continue
        if isinstance(st, ast.Expr) and isinstance(st.value, ast.Constant):
            continue   # docstring
        if isinstance(st, ast.Try):
            names = [_delattr_name(x) for x in st.body]
            if any(n is None for n in names):
                return None
            catches = all(isinstance(h.type, ast.Name) and h.type.id == 'AttributeError' or h.type is None
                          for h in st.handlers)
            if not catches:
                return None
            blocks.append(T.cast(T.List[str], names))
            continue
        if isinstance(st, ast.For) and isinstance(st.iter, (ast.Tuple, ast.List)) and \
                all(isinstance(e, ast.Constant) and isinstance(e.value, str) for e in st.iter.elts) and \
                len(st.body) == 1 and isinstance(st.body[0], ast.Try):
            blocks += [[e.value] for e in st.iter.elts]   # one try per element
            continue
        if isinstance(st, ast.Expr) and isinstance(st.value, ast.Call) and isinstance(st.value.func, ast.Attribute) \
                and st.value.func.attr == 'pop' and st.value.args and isinstance(st.value.args[0], ast.Constant):
            blocks.append([st.value.args[0].value])         # self.__dict__.pop('x', None)
            continue
        return None
    return blocks


def lean_str_list(l: T.Sequence[str]) -> str:
    return '[' + ', '.join('"' + x + '"' for x in l) + ']'


def gen_tables(ctx: Ctx) -> None:
    """Generated/CargoCache.lean: lazy attributes of manifest.Dependency that read self.version, and the
    try/delattr block structure of the method that assigns self.version (reflective obligation
    `dependency_cache_table_ok`). Written only if changed. An unknown body shape leaves the table alone
    (the history oracle and the differential stream still run)."""
    from mesonbuild.cargo import manifest as M
    cls = M.Dependency
    attrs = sorted(k for k, v in vars(cls).items() if is_lazy(v) and 'version' in self_fields_read(lazy_func(v)))
    muts = {n: b for n, (assigned, b) in harvest_mutators(cls).items() if 'version' in assigned}
    if not muts or any(b is None for b in muts.values()):
        ctx.notes.append('gen_tables: no version mutator with a known try/delattr shape on manifest.Dependency; '
                         'Generated/CargoCache.lean left unchanged (history oracle only)')
        return
    name = 'update_version' if 'update_version' in muts else sorted(muts)[0]
    blocks = muts[name]
    others = [muts[n] for n in sorted(muts) if n != name]
    def lb(b):
        return '[' + ', '.join(lean_str_list(x) for x in b) + ']'
    text = ('/- generated by harness/c20.py gen_tables from mesonbuild/cargo/manifest.py (class Dependency); do not edit -/\n'
            'namespace MesonModel.Generated.CargoCache\n\n'
            '/-- lazy_property / cached_property attributes of `Dependency` whose function reads `self.version` -/\n'
            f'def lazyAttrs : List String := {lean_str_list(attrs)}\n\n'
            f'/-- `Dependency.{name}`: the `try:` blocks after `self.version = v`, each the list of\n'
            'attribute names it `delattr`s in order (an `AttributeError` ends the block) -/\n'
            f'def updateBlocks : List (List String) := {lb(blocks)}\n\n'
            '/-- the same for every other method that assigns `self.version` -/\n'
            f'def otherMutatorBlocks : List (List (List String)) := [{", ".join(lb(b) for b in others)}]\n\n'
            '/-- (function, memoised callee) pairs in cargo/interpreter.py where the object returned by a memoised\n'
            'callable (`functools.lru_cache` / `cached_property` / `lazy_property`) is mutated in place without a copy -/\n'
            'def aliasedMutations : List (String × String) := ['
            + ', '.join(f'("{a}", "{b}")' for a, b in aliased_mutations()) + ']\n\n'
            'end MesonModel.Generated.CargoCache\n')
    path = os.path.join(common.LEAN, 'MesonModel', 'Generated', 'CargoCache.lean')
    old = open(path, encoding='utf-8').read() if os.path.exists(path) else ''
    if old != text:
        with open(path, 'w', encoding='utf-8') as f:
            f.write(text)
        ctx.notes.append('Generated/CargoCache.lean rewritten from the current source')


REQ_FORMS_RE = REQ_RE = re.compile(r'^\s*(\^|~|=|<=|<|>=|>|)\s*(\d+)(?:\.(\d+))?(?:\.(\d+))?(\.\*)?\s*$')


def req_pieces(req: str):
    """[(op, comps)] for a requirement made of the listed tag-free forms, None otherwise"""
    out = []
    if not req.strip():
        return out
    for piece in req.split(','):
        if piece.strip() == '*':
            continue
        pm = REQ_RE.match(piece)
        if not pm:
            return None
        nums = [x for x in pm.groups()[1:4] if x is not None]
        if any(len(x) > 1 and x[0] == '0' for x in nums):
            return None
        op = pm.group(1) or '^'
        if pm.group(5):
            if pm.group(1) or len(nums) == 3:
                return None
            op = '~'
        out.append((op, [int(x) for x in nums]))
    return out


def accepts_spec(req: str, vs: str) -> T.Optional[bool]:
    """Cargo's rule (with the pinned deviations) for the CURRENT requirement text; pre-releases never
    satisfy a tag-free requirement"""
    pcs = req_pieces(req)
    f = semver_fields(vs)
    if pcs is None or f is None:
        return None
    if f[1]:
        return False
    return all(spec_matches(op, comps, f[0]) for op, comps in pcs)


def api_spec(req: str) -> T.Optional[T.Tuple[str, str]]:
    """the documented api string: '' if no lower bound, else major / '0.x' / '0'; ('raise','') if the
    comparators disagree"""
    pcs = req_pieces(req)
    if pcs is None:
        return None
    apis = set()
    for op, comps in pcs:
        if op in ('>=', '=', '^', '~'):
            if comps[0] != 0:
                apis.add(str(comps[0]))
            elif len(comps) >= 2 and comps[1] != 0:
                apis.add('0.%d' % comps[1])
            else:
                apis.add('0')
    if not apis:
        return ('ok', '')
    if len(apis) == 1:
        return ('ok', apis.pop())
    return ('raise', '')


GRID = ['0.0.0', '0.0.1', '0.1.0', '0.2.3', '0.9.0', '1.0.0', '1.2.2', '1.2.3', '1.2.4', '1.5.0', '1.99.7', '2.0.0',
        '2.4.5', '3.0.0', '10.0.0', '11.1.1', '1.2.3-rc.1', '2.0.0-alpha']


def rand_requirement(rng, parts) -> str:
    r = rng.random()
    if r < 0.06:
        return rng.choice(['', '*'])
    if r < 0.3:
        return '=' + rng.choice(GRID[:16])
    k = rng.choice([1, 1, 1, 2])
    ops = [o for o in OPSPELL]
    return ', '.join(render_req(rng, rng.choice(ops), rng.choice(parts), rng.random() < 0.3).strip() for _ in range(k))


def show_api_result(f: T.Callable[[], str], mex) -> str:
    try:
        return 'OK:' + enc(f())
    except mex:
        return 'ERR:MesonException'
    except ValueError:
        return 'ERR:ValueError'


def run_dependency_history(M, mex, make, init_req: str, ops: T.Sequence[T.Tuple[str, T.Optional[str]]]):
    """executes one history on a real Dependency; every read is checked against the specification for the
    CURRENT requirement (the oracle never reads anything the history does not read).
    returns (model protocol ops, implementation answers, first failure or None)"""
    dep = make(init_req)
    cur = init_req
    wire: T.List[str] = []
    outs: T.List[str] = []
    fail = None
    trace = []
    for kind, arg in ops:
        if kind == 'ra':
            pred = dep.accepts_version
            for v in GRID:
                got = bool(pred(v))
                wire.append('ra:' + enc(v))
                outs.append(str(int(got)))
                want = accepts_spec(cur, v)
                if fail is None and want is not None and got != want:
                    fail = (f'after {trace + ["accepts_version"]}: requirement {cur!r}, version {v!r}: '
                            f'dep.accepts_version -> {got}, Cargo rule -> {want}')
            trace.append('accepts_version')
        elif kind == 'rp':
            got_s = show_api_result(lambda: dep.api, mex)
            wire.append('rp')
            outs.append(got_s)
            want = api_spec(cur)
            if fail is None and want is not None:
                want_s = 'OK:' + enc(want[1]) if want[0] == 'ok' else 'ERR:MesonException'
                if got_s != want_s:
                    fail = f'after {trace + ["api"]}: requirement {cur!r}: dep.api -> {got_s}, documented api -> {want_s}'
            trace.append('api')
        else:
            dep.update_version(T.cast(str, arg))
            cur = T.cast(str, arg)
            wire.append('u:' + enc(cur))
            outs.append('-')
            trace.append(f'update_version({cur!r})')
            if fail is None and dep.version != cur:
                fail = f'after {trace}: dep.version is {dep.version!r}'
    outs.append('V:' + enc(dep.version))
    return wire, outs, fail


def values_equal(a, b, probes) -> bool:
    if callable(a) and callable(b):
        for p in probes:
            try:
                if a(p) != b(p):
                    return False
            except Exception:
                return False
        return True
    return a == b


def generic_instance(cls: type, rng, parts):
    """a dataclass instance from field annotations (strings under `from __future__ import annotations`)"""
    kw = {}
    for f in dataclasses.fields(cls):
        ty = str(f.type)
        has_default = f.default is not dataclasses.MISSING or f.default_factory is not dataclasses.MISSING  # type: ignore[misc]
        if f.name == 'version' and ty in ('str', "<class 'str'>"):
            kw[f.name] = rand_requirement(rng, parts) if cls.__name__ in ('Dependency', 'SystemDependency') \
                else rng.choice(GRID)
            continue
        if has_default:
            continue
        if ty in ('str', "<class 'str'>"):
            kw[f.name] = 'x'
        elif ty in ('bool', "<class 'bool'>"):
            kw[f.name] = False
        elif ty in ('int', "<class 'int'>"):
            kw[f.name] = 1
        elif 'List' in ty or ty.startswith('list'):
            kw[f.name] = []
        elif 'Dict' in ty or ty.startswith('dict'):
            kw[f.name] = {}
        elif 'Set' in ty:
            kw[f.name] = set()
        elif 'Optional' in ty:
            kw[f.name] = None
        else:
            kw[f.name] = 'x'
    return cls(**kw)


def mutator_args(fn, rng, parts) -> T.Optional[list]:
    sig = inspect.signature(fn)
    args = []
    for name, p in list(sig.parameters.items())[1:]:
        if p.default is not inspect.Parameter.empty:
            continue
        if str(p.annotation) in ('str', "<class 'str'>") or p.annotation is inspect.Parameter.empty:
            args.append(rand_requirement(rng, parts))
        else:
            return None
    return args


def run_objects(ctx: Ctx, V, C, mex, add, parts) -> None:
    """operation histories on the consumer objects of the matcher"""
    from mesonbuild.cargo import manifest as M
    rng = ctx.rng

    # ---- (a) manifest.Dependency: spec oracle on every read + model differential
    makers = {
        'str': lambda r: M.Dependency.from_raw('foo', r),
        'table': lambda r: M.Dependency.from_raw('foo', {'version': r, 'features': ['full']}),
        'ctor': lambda r: M.Dependency('foo', r),
    }
    kinds = ['ra', 'rp', 'u']
    seqs = [list(s) for n in range(1, 5) for s in itertools.product(kinds, repeat=n)]
    hist: T.List[T.Tuple[str, str, list]] = []
    for s in seqs:
        for _rep in range(ctx.scale(2, 6)):
            hist.append((rng.choice(list(makers)), rand_requirement(rng, parts),
                         [(k, rand_requirement(rng, parts) if k == 'u' else None) for k in s] + [('ra', None), ('rp', None)]))
    for _ in range(ctx.scale(1500, 15000)):
        n = rng.randint(3, 9)
        hist.append((rng.choice(list(makers)), rand_requirement(rng, parts),
                     [(k, rand_requirement(rng, parts) if k == 'u' else None) for k in rng.choices(kinds, k=n)]))
    # the order cargo/interpreter.py:_dep_package follows, and the pinned unit test's order
    hist.append(('str', '1.0', [('ra', None), ('u', '=1.2.3'), ('ra', None), ('rp', None)]))
    hist.append(('table', '>=1, <3', [('ra', None), ('u', '=2.0.0'), ('ra', None)]))
    hist.append(('str', '1.0', [('rp', None), ('ra', None), ('u', '=1.2.3'), ('ra', None), ('rp', None)]))
    for mk, init, ops in hist:
        wire, outs, fail = run_dependency_history(M, mex, makers[mk], init, ops)
        ctx.tag('objects:dependency-history')
        add('hist', (mk, init, ops), f'hist {enc(init)}|{",".join(wire)}', ';'.join(outs))
        if fail:
            shape = '>'.join(k for k, _ in ops)
            ctx.violation(f'object:Dependency:{mk}:{init}:{shape}', fail, {'object': 'manifest.Dependency', 'make': mk,
                                                                        'init': init, 'ops': ops})

    # ---- (b) every harvested lazy attribute: a read equals the value a FRESH object with the same fields computes
    harvested = harvest_lazy()
    ctx.extra['lazy_attributes'] = {c.__module__.split('.')[-1] + '.' + c.__name__: n for c, n in harvested.items()}
    for cls, names in harvested.items():
        label = cls.__name__
        if not dataclasses.is_dataclass(cls):
            ctx.tag('objects:undriven-class:' + label)
            continue
        muts = harvest_mutators(cls)
        for _ in range(ctx.scale(150, 1500)):
            try:
                obj = generic_instance(cls, rng, parts)
            except Exception as e:
                ctx.tag(f'objects:undriven-class:{label}:{type(e).__name__}')
                break
            trace: T.List[str] = []
            for _step in range(rng.randint(2, 7)):
                if muts and rng.random() < 0.35:
                    mname = rng.choice(sorted(muts))
                    margs = mutator_args(getattr(cls, mname), rng, parts)
                    if margs is None:
                        continue
                    try:
                        getattr(obj, mname)(*margs)
                    except Exception as e:
                        trace.append(f'{mname}{tuple(margs)} raised {type(e).__name__}')
                        continue
                    trace.append(f'{mname}{tuple(margs)}')
                else:
                    a = rng.choice(names)
                    ctx.count()
                    ctx.tag(f'objects:lazy-read:{label}.{a}')
                    try:
                        got: T.Any = ('v', getattr(obj, a))
                    except Exception as e:
                        got = ('e', type(e).__name__)
                    try:
                        fresh = dataclasses.replace(obj)
                        want: T.Any = ('v', getattr(fresh, a))
                    except Exception as e:
                        want = ('e', type(e).__name__)
                    trace.append(a)
                    same = got[0] == want[0] and (values_equal(got[1], want[1], GRID) if got[0] == 'v' else got[1] == want[1])
                    if not same:
                        fields = {f.name: getattr(obj, f.name) for f in dataclasses.fields(cls)
                                  if isinstance(getattr(obj, f.name), (str, int, bool, type(None)))}
                        ctx.violation(f'object:{label}.{a}:stale:{">".join(trace)}',
                                      f'{label}.{a} after {trace} differs from the value a fresh {label} with the same fields '
                                      f'({fields}) computes', {'object': label, 'attr': a, 'history': trace, 'fields': fields})
                        break

    # ---- (c) Cargo.lock driven resolution through the interpreter's own code
    try:
        from mesonbuild.cargo.interpreter import Interpreter, PackageConfiguration
        from mesonbuild.mesonlib import MachineChoice
        drive_resolution(ctx, V, M, mex, Interpreter, PackageConfiguration, MachineChoice, parts)
        drive_cfg_tables(ctx, C, mex, Interpreter, MachineChoice)
        drive_memoised(ctx, C, mex, add)
        if ctx.tier == 'thorough':
            e2e_cfg_subprojects(ctx)
    except ImportError as e:
        ctx.notes.append(f'objects: interpreter not importable ({e}); resolution / cfg-table streams skipped')


class StubIncompatible(Exception):
    pass


def drive_resolution(ctx, V, M, mex, Interpreter, PackageConfiguration, MachineChoice, parts) -> None:
    rng = ctx.rng
    incompatible = 0
    for _ in range(ctx.scale(1200, 12000)):
        lock_versions = rng.sample(GRID, rng.randint(0, 7))
        other = rng.sample(GRID[:16], rng.randint(0, 3))
        lock = M.CargoLock(package=[M.CargoLockPackage('foo', v) for v in lock_versions] +
                           [M.CargoLockPackage('bar', v) for v in other])
        req = rand_requirement(rng, parts)
        if req_pieces(req) is None:
            continue
        ok = [v for v in lock_versions if accepts_spec(req, v)]
        best = None
        for v in ok:
            if best is None or semver_prec(v, best) > 0:
                best = v
        pre_ops = rng.choice([[], ['api'], ['accepts_version'], ['api', 'accepts_version'], ['accepts_version', 'api']])
        dep = M.Dependency.from_raw('foo', req if rng.random() < 0.5 else {'version': req})
        for a in pre_ops:
            try:
                getattr(dep, a)
            except mex:
                pass
        fetched: T.List[T.Tuple[str, str]] = []
        pkg_version = rng.choice(GRID[:16])
        fake = types.SimpleNamespace(manifest=types.SimpleNamespace(package=types.SimpleNamespace(version=pkg_version)))
        stub = types.SimpleNamespace(cargolock=lock if lock_versions or other or rng.random() < 0.5 else None)
        stub._resolve_package = lambda n, a: Interpreter._resolve_package(stub, n, a)
        stub._fetch_package = lambda n, api: (fetched.append((n, api)), fake)[1]
        case = {'object': 'interpreter._dep_package', 'requirement': req, 'lock': lock_versions, 'read_before': pre_ops}
        ctx.count()
        ctx.tag('objects:dep_package')
        # 1. _resolve_package alone
        try:
            got_pkg = Interpreter._resolve_package(stub, 'foo', V.cargo_parse(req))
        except (AttributeError, TypeError) as e:
            incompatible += 1
            continue
        got_v = None if got_pkg is None else got_pkg.version
        want_v = best if stub.cargolock is not None else None
        if got_v != want_v:
            ctx.violation(f'object:resolve:{req}:{",".join(lock_versions)}',
                          f'_resolve_package picks {got_v!r} from Cargo.lock {lock_versions} for {req!r}; the newest version '
                          f'satisfying the requirement is {want_v!r}', case)
            continue
        # 2. the interpreter's own sequence: accepts_version -> update_version('=<lock version>') -> api
        api_before = api_spec(req)
        if api_before is None or (api_before[0] == 'raise' and want_v is None):
            continue
        try:
            cfg = PackageConfiguration(for_machine=MachineChoice.HOST)
            Interpreter._dep_package(stub, None, dep, cfg)
        except mex:
            continue
        except (AttributeError, TypeError, KeyError, AssertionError) as e:
            incompatible += 1
            continue
        cur = ('=' + want_v) if want_v is not None else (req if req else '=' + pkg_version)
        problems = []
        if dep.version != cur:
            problems.append(f'dep.version is {dep.version!r}, expected {cur!r}')
        at_fetch = ('=' + want_v) if want_v is not None else req
        fetch_api = api_spec(at_fetch)
        if fetched and fetch_api and fetch_api[0] == 'ok' and fetched[0] != ('foo', fetch_api[1]):
            problems.append(f'_fetch_package was asked for {fetched[0]!r}, the requirement at that point {at_fetch!r} '
                            f'has api {fetch_api[1]!r}')
        want_api = api_spec(cur)
        for v in GRID:
            w = accepts_spec(cur, v)
            if w is not None and bool(dep.accepts_version(v)) != w:
                problems.append(f'afterwards dep.accepts_version({v!r}) is {not w} although the requirement is now {cur!r}')
                break
        if want_api and want_api[0] == 'ok':
            try:
                if dep.api != want_api[1]:
                    problems.append(f'afterwards dep.api is {dep.api!r}, documented api of {cur!r} is {want_api[1]!r}')
            except mex:
                problems.append(f'afterwards dep.api raises for {cur!r}')
        if problems:
            ctx.violation(f'object:dep_package:{req}:{",".join(lock_versions)}:{">".join(pre_ops)}', problems[0], case)
    if incompatible:
        ctx.notes.append(f'objects: {incompatible} _dep_package/_resolve_package drives skipped (stub no longer fits the interpreter)')
        ctx.tag('objects:dep_package-stub-incompatible', incompatible)


def drive_cfg_tables(ctx, C, mex, Interpreter, MachineChoice) -> None:
    """cfg evaluation through the interpreter's target-cfg table: rustc `--print cfg` lines and `--cfg` rust_args
    -> _get_cfgs/_split_cfg -> eval_cfg"""
    rng = ctx.rng
    names = ['unix', 'target_os', 'target_arch', 'feature', 'debug_assertions', 'panic', 'a', 'b']
    vals = ['linux', 'x86_64', 'unwind', 'x y', '', 'a,b', '1']
    incompatible = 0
    getter = getattr(Interpreter._get_cfgs, '__wrapped__', Interpreter._get_cfgs)
    for _ in range(ctx.scale(1500, 15000)):
        intended = {n: (rng.choice(vals) if rng.random() < 0.6 else '') for n in rng.sample(names, rng.randint(0, 6))}
        lines = [n if (v == '' and rng.random() < 0.8) else f'{n}="{v}"' for n, v in intended.items()]
        k = rng.randint(0, len(lines))
        rustflags: T.List[str] = []
        for l in lines[k:]:
            rustflags += rng.choice([[], ['-C', 'opt-level=2']]) + ['--cfg', l]
        rustc = types.SimpleNamespace(get_cfgs=lambda lines=lines, k=k: list(lines[:k]))
        machine = MachineChoice.HOST
        stub = types.SimpleNamespace(
            environment=types.SimpleNamespace(coredata=types.SimpleNamespace(
                compilers={machine: {'rust': rustc}},
                optstore=types.SimpleNamespace(get_value_for=lambda *a, **kw: list(rustflags)))),
            _split_cfg=Interpreter._split_cfg)
        try:
            table = getter(stub, machine, '')
        except (AttributeError, TypeError, KeyError) as e:
            incompatible += 1
            continue
        ctx.count()
        ctx.tag('objects:cfg-table')
        if table != intended:
            ctx.violation(f'object:cfg-table:{sorted(intended.items())}',
                          f'_get_cfgs builds {table!r} from cfg lines {lines[:k]} and rust_args {rustflags}; intended {intended!r}',
                          {'object': 'interpreter._get_cfgs', 'lines': lines, 'k': k})
            continue
        t = rand_tree(rng, 3, names, vals[:4] + [''])
        inner = render_tree(t, lambda: rng.choice(['', ' ']))
        try:
            got: T.Any = C.eval_cfg('cfg(' + inner + ')', table)
        except mex:
            got = 'MesonException'
        want = truth(t, intended)
        if got != want:
            ctx.violation(f'object:cfg-eval:{inner}:{sorted(intended.items())}',
                          f'eval_cfg(cfg({inner})) over the interpreter cfg table {table!r} = {got}, structure says {want}',
                          {'expr': 'cfg(' + inner + ')', 'cfgs': intended})
    if incompatible:
        ctx.notes.append(f'objects: {incompatible} _get_cfgs drives skipped (stub no longer fits the interpreter)')
        ctx.tag('objects:cfg-table-stub-incompatible', incompatible)



# ------------------------------------------------------------------ memoised callables (lru_cache & co.)

MEMO_MODULES = ['mesonbuild.cargo.interpreter', 'mesonbuild.cargo.manifest', 'mesonbuild.compilers.rust']
MUTATING = {'append', 'extend', 'insert', 'remove', 'pop', 'clear', 'sort', 'reverse', 'update', 'setdefault',
            'popitem', 'add', 'discard', '__setitem__', '__delitem__'}


def is_memoised(attr: object) -> bool:
    return is_lazy(attr) or (callable(attr) and hasattr(attr, 'cache_info') and hasattr(attr, '__wrapped__'))


def harvest_memoised() -> T.Dict[str, T.Dict[str, T.List[str]]]:
    """{module: {class or '<module>': [memoised names]}} from the live source"""
    import importlib
    out: T.Dict[str, T.Dict[str, T.List[str]]] = {}
    for mn in MEMO_MODULES:
        mod = importlib.import_module(mn)
        per: T.Dict[str, T.List[str]] = {}
        names = sorted(k for k, v in vars(mod).items() if is_memoised(v) and getattr(v, '__module__', mn) == mn)
        if names:
            per['<module>'] = names
        for cn, cls in sorted(vars(mod).items()):
            if inspect.isclass(cls) and cls.__module__ == mn:
                ns = sorted(k for k, v in vars(cls).items() if is_memoised(v))
                if ns:
                    per[cn] = ns
        out[mn] = per
    return out


def aliased_mutations() -> T.List[T.Tuple[str, str]]:
    """functions of cargo/interpreter.py that take the object a memoised callable returns and mutate it in place
    (no copy in between): [(function, memoised callee)]"""
    import importlib
    memo_names = {n for per in harvest_memoised().values() for ns in per.values() for n in ns}
    mod = importlib.import_module('mesonbuild.cargo.interpreter')
    tree = ast.parse(inspect.getsource(mod))
    found: T.Set[T.Tuple[str, str]] = set()

    def memo_source(e: ast.AST) -> T.Optional[str]:
        """name of the memoised callable whose result `e` IS (same object), else None"""
        if isinstance(e, ast.Call) and isinstance(e.func, ast.Attribute) and e.func.attr == 'cast' and len(e.args) == 2:
            return memo_source(e.args[1])                       # T.cast(type, x) is x
        if isinstance(e, ast.Call) and isinstance(e.func, (ast.Attribute, ast.Name)):
            n = e.func.attr if isinstance(e.func, ast.Attribute) else e.func.id
            return n if n in memo_names else None
        if isinstance(e, ast.Attribute) and e.attr in memo_names:   # lazy / cached property read
            return e.attr
        return None

    for fdef in ast.walk(tree):
        if not isinstance(fdef, (ast.FunctionDef, ast.AsyncFunctionDef)):
            continue
        alias: T.Dict[str, str] = {}
        for n in ast.walk(fdef):
            if isinstance(n, ast.Assign) and len(n.targets) == 1 and isinstance(n.targets[0], ast.Name):
                src = memo_source(n.value)
                if src:
                    alias[n.targets[0].id] = src
                elif isinstance(n.value, ast.Name) and n.value.id in alias:
                    alias[n.targets[0].id] = alias[n.value.id]
        if not alias:
            continue
        for n in ast.walk(fdef):
            tgt = None
            if isinstance(n, ast.Call) and isinstance(n.func, ast.Attribute) and n.func.attr in MUTATING \
                    and isinstance(n.func.value, ast.Name):
                tgt = n.func.value.id
            elif isinstance(n, ast.AugAssign) and isinstance(n.target, ast.Name):
                tgt = n.target.id
            elif isinstance(n, (ast.Assign, ast.AugAssign, ast.Delete)):
                tl = n.targets if isinstance(n, (ast.Assign, ast.Delete)) else [n.target]
                for t in tl:
                    if isinstance(t, ast.Subscript) and isinstance(t.value, ast.Name) and t.value.id in alias:
                        found.add((fdef.name, alias[t.value.id]))
            if tgt in alias:
                found.add((fdef.name, alias[tgt]))
    return sorted(found)


class _Obj:
    """plain hashable attribute bag (lru_cache keys on `self`)"""
    def __init__(self, **kw: T.Any) -> None:
        self.__dict__.update(kw)


def make_rust_world(lines_by_machine, args_by_key, MachineChoice):
    """ONE interpreter stub with one compiler object per machine. The compiler class carries the REAL memoised
    functions of RustCompiler (harvested), its `rustc --print cfg` output is served by a fake Popen."""
    from mesonbuild.compilers import rust as R
    from mesonbuild.cargo.interpreter import Interpreter
    memo = {k: v for k, v in vars(R.RustCompiler).items() if is_memoised(v)}
    FakeRustc = type('FakeRustc', (), dict(memo, get_exelist=lambda self, ccache=True: ['fake-rustc', self.tag],
                                           get_exe_args=lambda self: []))
    compilers = {}
    for m, lines in lines_by_machine.items():
        c = FakeRustc()
        c.tag = 'id%x' % id(c)
        _FAKE_RUSTC_OUT[c.tag] = '\n'.join(lines) + ('\n' if lines else '')
        compilers[m] = {'rust': c}

    def get_value_for(key, *a, **kw):
        if getattr(key, 'name', None) != 'rust_args':
            raise KeyError(key)
        return list(args_by_key.get((key.machine, key.subproject or ''), []))
    interp = _Obj(environment=_Obj(coredata=_Obj(compilers=compilers, optstore=_Obj(get_value_for=get_value_for))))
    for n, v in vars(Interpreter).items():
        if isinstance(v, staticmethod):
            setattr(interp, n, v.__func__)
    return interp, compilers


_FAKE_RUSTC_OUT: T.Dict[str, str] = {}


def _fake_popen(cmd, *a, **kw):
    if len(cmd) >= 2 and cmd[0] == 'fake-rustc':
        return None, _FAKE_RUSTC_OUT.get(cmd[1], ''), ''
    raise StubIncompatible(cmd)


def table_wire(t: T.Mapping[str, str]) -> str:
    return ','.join(enc(k) + '=' + enc(v) for k, v in t.items())


def drive_memoised(ctx, C, mex, add) -> None:
    """SEQUENCES of calls of every memoised method of the cargo interpreter (and of the compiler helpers it
    calls) on ONE interpreter / compiler object, keys differing in machine x subproject x --cfg rust_args.
    Oracle after every call: (1) equals what FRESH objects give for that key; (2) nothing returned earlier for
    another key has changed; (3) the compiler's own memoised results are unchanged; (4) the table is exactly
    {rustc cfgs} U {that subproject's --cfg flags} and eval_cfg on it has the value of the expression's structure."""
    import copy
    from mesonbuild.compilers import rust as R
    from mesonbuild.cargo.interpreter import Interpreter
    from mesonbuild.mesonlib import MachineChoice
    rng = ctx.rng
    harvested = harvest_memoised()
    ctx.extra['memoised_callables'] = harvested
    interp_memo = [n for n in harvested.get('mesonbuild.cargo.interpreter', {}).get('Interpreter', [])
                   if hasattr(vars(Interpreter)[n], 'cache_info')]
    rustc_memo0 = [n for n in harvested.get('mesonbuild.compilers.rust', {}).get('RustCompiler', [])
                   if hasattr(vars(R.RustCompiler)[n], 'cache_info')]

    def keyed(fn) -> bool:
        """a memoised method whose key is (machine, subproject): decided from its annotations, not its name"""
        ps = list(inspect.signature(fn.__wrapped__).parameters.values())[1:]
        anns = [str(p.annotation) for p in ps]
        return len(ps) == 2 and 'MachineChoice' in anns[0] and ('SubProject' in anns[1] or anns[1] in ('str', "<class 'str'>"))

    driven = [n for n in interp_memo if keyed(vars(Interpreter)[n])]
    for n in interp_memo:
        if n not in driven:
            ctx.tag('memo:undriven:Interpreter.' + n)
    machines = [MachineChoice.HOST, MachineChoice.BUILD]
    subs = ['', 'a-1-rs', 'b-1-rs', 'c-1-rs']
    names = ['unix', 'target_os', 'target_arch', 'feature', 'debug_assertions', 'panic', 'foo', 'bar', 'a', 'b']
    vals = ['linux', 'x86_64', 'unwind', 'x y', 'a,b', '1']
    orig_popen = R.Popen_safe_logged
    R.Popen_safe_logged = _fake_popen
    skipped = 0
    try:
        def world():
            base = {}
            for m in machines:
                d = {n: (rng.choice(vals) if rng.random() < 0.5 else '') for n in rng.sample(names[:6], rng.randint(0, 5))}
                base[m] = d
            glob = []
            if rng.random() < 0.4:
                glob = rng.choice([[], ['-C', 'opt-level=2']]) + ['--cfg', rng.choice(['glob', 'feature="g"'])]
            args, flags = {}, {}
            for m in machines:
                for sp in subs:
                    own = {n: (rng.choice(vals) if rng.random() < 0.3 else '')
                           for n in rng.sample(names[4:], rng.choice([0, 0, 1, 1, 2]))}
                    a = list(glob)
                    for n, v in own.items():
                        a += rng.choice([[], ['-g']]) + ['--cfg', n if v == '' else f'{n}="{v}"']
                    args[(m, sp)] = a
                    flags[(m, sp)] = own
            return base, glob, args, flags

        def lines_of(d):
            return [n if v == '' else f'{n}="{v}"' for n, v in d.items()]

        def intended(base, glob, flags, key):
            t = dict(base[key[0]])
            for g in glob:
                if g.startswith('-') or g == 'opt-level=2':
                    continue
                k, _, v = g.partition('=')
                t[k] = v.strip('"')
            t.update(flags[key])
            return t

        n_hist = ctx.scale(700, 7000)
        all_keys = [(m, sp) for m in machines for sp in subs]
        for h in range(n_hist):
            base, glob, args, flags = world()
            lines = {m: lines_of(base[m]) for m in machines}
            if h % 3 == 0:
                calls = list(rng.choice(list(itertools.permutations(all_keys[:6], rng.choice([2, 3])))))
            else:
                calls = [rng.choice(all_keys) for _ in range(rng.randint(2, 8))]
            for meth in driven:
                fn = vars(Interpreter)[meth]
                try:
                    interp, comps = make_rust_world(lines, args, MachineChoice)
                    returned: T.List[T.Tuple[T.Any, T.Any, T.Any]] = []   # (key, object, deep copy)
                    trace: T.List[str] = []
                    outs: T.List[str] = []
                    bad = None
                    base_bad = None
                    for key in calls:
                        # optionally read the compiler's own memoised results in between (zero-argument ones)
                        if rustc_memo0 and rng.random() < 0.3:
                            zn = rng.choice(rustc_memo0)
                            try:
                                getattr(comps[key[0]]['rust'], zn)()
                                trace.append(f'rustc[{key[0].name}].{zn}()')
                            except (StubIncompatible, AttributeError, TypeError, KeyError, OSError, IndexError):
                                pass
                        res = fn(interp, key[0], key[1])
                        trace.append(f'{meth}({key[0].name}, {key[1]!r})')
                        outs.append(table_wire(res) if isinstance(res, dict) else repr(res))
                        ctx.count()
                        f_interp, _fc = make_rust_world(lines, args, MachineChoice)
                        fresh = fn(f_interp, key[0], key[1])
                        if res != fresh:
                            bad = (f'{meth}{(key[0].name, key[1])} returns {res!r} after {trace[:-1]}; a fresh interpreter/compiler '
                                   f'gives {fresh!r}')
                        for k0, obj, cp in returned:
                            if bad is None and obj != cp:
                                bad = f'the result returned earlier for {(k0[0].name, k0[1])} changed from {cp!r} to {obj!r} after {trace}'
                        for m in machines:
                            now = comps[m]['rust'].get_cfgs() if 'get_cfgs' in rustc_memo0 else lines[m]
                            if base_bad is None and list(now) != lines[m]:
                                # root cause; the history goes on to show what a consumer then sees
                                base_bad = (f"the {m.name} compiler's memoised get_cfgs() is now {list(now)!r} after {list(trace)}; "
                                            f'`rustc --print cfg` gave {lines[m]!r}')
                        if isinstance(res, dict):
                            want = intended(base, glob, flags, key)
                            if bad is None and dict(res) != want:
                                bad = (f'{meth}{(key[0].name, key[1])} = {res!r} after {trace[:-1]}; expected exactly rustc cfgs + own --cfg '
                                       f'flags = {want!r}')
                            t = rand_tree(rng, 2, names, vals[:3] + [''])
                            inner = render_tree(t, lambda: rng.choice(['', ' ']))
                            try:
                                got: T.Any = C.eval_cfg('cfg(' + inner + ')', res)
                            except mex:
                                got = 'MesonException'
                            if bad is None and got != truth(t, want):
                                bad = (f'cfg({inner}) for {(key[0].name, key[1])} evaluates to {got} after {trace}; under rustc cfgs + own '
                                       f'--cfg flags {want!r} its structure says {truth(t, want)}')
                        returned.append((key, res, copy.deepcopy(res)))
                        if bad:
                            break
                    ctx.tag('memo:history:Interpreter.' + meth)
                    case = {'object': 'memoised:Interpreter.' + meth, 'rustc_cfg': {m.name: lines[m] for m in machines},
                            'rust_args': {f'{m.name}:{sp}': a for (m, sp), a in args.items() if a},
                            'calls': [(k[0].name, k[1]) for k in calls], 'history': trace}
                    if bad and base_bad:
                        bad = bad + ' [cause: ' + base_bad + ']'
                    bad = bad or base_bad
                    if bad:
                        ctx.violation(f'memo:Interpreter.{meth}:{">".join(trace)}:{sorted(case["rust_args"].items())}', bad, case)
                    elif meth == '_get_cfgs' or all(isinstance(x, str) for x in outs):
                        fin = ['H:' + common.enc_list(list(comps[MachineChoice.HOST]['rust'].get_cfgs())),
                               'B:' + common.enc_list(list(comps[MachineChoice.BUILD]['rust'].get_cfgs()))] \
                            if 'get_cfgs' in rustc_memo0 else []
                        mi = {MachineChoice.HOST: '0', MachineChoice.BUILD: '1'}
                        wire_args = ';'.join(f'{mi[m]}.{subs.index(sp)}:{common.enc_list(a)}' for (m, sp), a in args.items() if a)
                        wire_calls = ';'.join(f'{mi[k[0]]}.{subs.index(k[1])}' for k in calls)
                        if meth == '_get_cfgs' and fin:
                            add('cfgs', case, f'cfgs {common.enc_list(lines[MachineChoice.HOST])}|'
                                f'{common.enc_list(lines[MachineChoice.BUILD])}|{wire_args}|{wire_calls}', ';'.join(outs + fin))
                except (StubIncompatible, AttributeError, TypeError, KeyError) as e:
                    skipped += 1
    finally:
        R.Popen_safe_logged = orig_popen
        _FAKE_RUSTC_OUT.clear()
    if skipped:
        ctx.notes.append(f'memo: {skipped} histories skipped (stub no longer fits the interpreter/compiler)')
        ctx.tag('memo:stub-incompatible', skipped)


def e2e_cfg_subprojects(ctx) -> None:
    """thorough tier, real rustc: two cargo subprojects with [target.'cfg(foo)'.dependencies], only the first is
    built with `--cfg foo` (per-subproject rust_args, stored by `setup`, seen by the cargo interpreter on
    `--reconfigure`): cfg(foo) must be true for the first and false for the second."""
    import shutil
    import subprocess
    import sys
    if shutil.which('rustc') is None:
        ctx.notes.append('e2e: rustc not found, end-to-end cfg leg skipped')
        return
    tmp = common.scratch_dir('mverif-c20-')
    try:
        def write(path, text, mode=0o644):
            os.makedirs(os.path.dirname(path), exist_ok=True)
            with open(path, 'w', encoding='utf-8') as f:
                f.write(text)
            os.chmod(path, mode)
        write(os.path.join(tmp, 'bin', 'ninja'), '#!/bin/sh\nif [ "$1" = "--version" ]; then echo 1.11.1; fi\nexit 0\n', 0o755)
        env = dict(os.environ, PYTHONPATH=common.REPO, PATH=os.path.join(tmp, 'bin') + os.pathsep + os.environ.get('PATH', ''))
        env.pop('RUSTFLAGS', None)
        src, build = os.path.join(tmp, 'src'), os.path.join(tmp, 'build')
        write(os.path.join(src, 'meson.build'), "project('top', 'rust')\na = subproject('a-1-rs')\nb = subproject('b-1-rs')\n")
        for name, table in (('a', "[target.'cfg(foo)'.dependencies]\nc = \"1\"\n"),
                            ('b', "[target.'cfg(foo)'.dependencies]\nmissing_for_b = \"1\"\n"), ('c', '')):
            write(os.path.join(src, 'subprojects', f'{name}-1-rs.wrap'), '[wrap-file]\nmethod = cargo\n')
            write(os.path.join(src, 'subprojects', f'{name}-1-rs', 'Cargo.toml'),
                  f'[package]\nname = "{name}"\nversion = "1.0.0"\nedition = "2021"\n\n[lib]\npath = "lib.rs"\n\n' + table)
            write(os.path.join(src, 'subprojects', f'{name}-1-rs', 'lib.rs'), 'pub fn f() -> i32 { 1 }\n')
        out = ''
        for what, args in (('setup', ['setup', build, src, '-Da-1-rs:rust_args=--cfg foo']),
                           ('reconfigure', ['setup', '--reconfigure', build, src])):
            p = subprocess.run([sys.executable, os.path.join(common.REPO, 'meson.py')] + args, env=env,
                               stdout=subprocess.PIPE, stderr=subprocess.STDOUT, universal_newlines=True, timeout=600)
            out = p.stdout
            ctx.count()
            if p.returncode != 0:
                if 'missing_for_b' in out:
                    ctx.violation('e2e:cfg-foo-leaks-into-b-1-rs',
                                  f"meson {what}: [target.'cfg(foo)'.dependencies] of b-1-rs was enabled although only a-1-rs is "
                                  "built with --cfg foo", {'e2e': 'two cargo subprojects, -Da-1-rs:rust_args=--cfg foo, setup + --reconfigure',
                                                           'log_tail': out[-600:]})
                else:
                    ctx.notes.append(f'e2e: meson {what} failed for an unrelated reason; leg inconclusive: {out[-300:]!r}')
                return
        if 'c-1-rs| Project name: c-1-rs' not in out:
            ctx.notes.append('e2e: cfg(foo) was not true for a-1-rs after the reconfigure; leg inconclusive')
        else:
            ctx.tag('e2e:cfg-subprojects-ok')
    except (OSError, subprocess.SubprocessError) as e:
        ctx.notes.append(f'e2e: {type(e).__name__}; leg inconclusive')
    finally:
        common.rmtree(tmp)


# ------------------------------------------------------------------ generators

PART = [0, 1, 2, 10]
VERS = [0, 1, 2, 3, 10, 11]
OPSPELL = ['', '^', '~', '=', '<', '<=', '>', '>=']
WS = ['', ' ', '  ', '\t']


def partials() -> T.List[T.Tuple[int, ...]]:
    out: T.List[T.Tuple[int, ...]] = []
    for n in (1, 2, 3):
        out += list(itertools.product(PART, repeat=n))
    return out


def render_req(rng, op: str, comps: T.Sequence[int], fancy: bool) -> str:
    body = '.'.join(str(c) for c in comps)
    if not fancy:
        return op + body
    return rng.choice(WS) + op + rng.choice(WS) + body + rng.choice(WS)


PRE_IDS = ['0', '1', '2', '10', 'alpha', 'beta', 'rc', 'a', 'A', 'x-y', '-', '1a', 'a1', '0a', 'Z9']
BUILDS = ['', '', '+build', '+1', '+a.b-c', '+001']


def semver_pool(rng, n: int) -> T.List[str]:
    out = []
    cores = ['0.0.0', '0.0.1', '0.1.0', '1.0.0', '1.0.1', '1.2.3', '1.10.0', '2.0.0', '10.0.0']
    for core in cores:
        out.append(core)
    for _ in range(n):
        core = rng.choice(cores) if rng.random() < 0.7 else '.'.join(str(rng.choice(VERS)) for _ in range(3))
        k = rng.choice([0, 1, 1, 2, 2, 3])
        pre = [rng.choice(PRE_IDS) for _ in range(k)]
        out.append(core + ('-' + '.'.join(pre) if pre else '') + rng.choice(BUILDS))
    return sorted(set(out))


def clean_pool(pool: T.List[str]) -> T.List[str]:
    """versions on which the recorded order findings cannot fire (keeps the oracle sharp for the rest)"""
    out = []
    for s in pool:
        pre = semver_fields(s)[1]
        if pre and pre[0].isdigit():
            continue
        if any(p[0].isdigit() and not p.isdigit() for p in pre[1:]):
            continue
        out.append(s)
    return out


JUNKV = list(' .-_+~*^<>=,!\t\n\x1c#é中') + list('019azAZ')


def rand_junk(rng, alphabet, maxlen=8) -> str:
    return ''.join(rng.choice(alphabet) for _ in range(rng.randint(0, maxlen)))


def rand_verish(rng) -> str:
    parts = [rng.choice(['0', '1', '2', '10', '007', 'a', 'rc1', '-', '-x', '*', '']) for _ in range(rng.randint(0, 5))]
    s = ''
    for p in parts:
        s += p + rng.choice(['.', '.', '-', '+', '', ' '])
    return s


ATOMS = [('id', 'a'), ('id', 'b'), ('eq', 'a', 'x'), ('eq', 'b', 'y')]


def trees(depth: int) -> T.List[tuple]:
    if depth == 0:
        return list(ATOMS)
    sub = trees(depth - 1)
    out = list(ATOMS)
    out += [('not', e) for e in sub]
    for k in ('any', 'all'):
        out.append((k, []))
        out += [(k, [e]) for e in sub]
        out += [(k, [e, f]) for e in sub for f in sub]
    return out


def rand_tree(rng, depth: int, names, values) -> tuple:
    r = rng.random()
    if depth == 0 or r < 0.25:
        if rng.random() < 0.5:
            return ('id', rng.choice(names))
        return ('eq', rng.choice(names), rng.choice(values))
    if r < 0.45:
        return ('not', rand_tree(rng, depth - 1, names, values))
    return (rng.choice(['any', 'all']), [rand_tree(rng, depth - 1, names, values) for _ in range(rng.randint(0, 3))])


def render_tree(t, sp: T.Callable[[], str]) -> str:
    k = t[0]
    if k == 'id':
        return t[1]
    if k == 'eq':
        return t[1] + sp() + '=' + sp() + '"' + t[2] + '"'
    if k == 'not':
        return 'not' + sp() + '(' + sp() + render_tree(t[1], sp) + sp() + ')'
    return k + sp() + '(' + sp() + (sp() + ',' + sp()).join(render_tree(a, sp) for a in t[1]) + sp() + ')'


CONFIGS = [dict(a) for a in (
    {}, {'a': 'x'}, {'a': 'z'}, {'b': 'y'}, {'b': 'z'}, {'a': 'x', 'b': 'y'}, {'a': 'x', 'b': 'z'},
    {'a': 'z', 'b': 'y'}, {'a': 'z', 'b': 'z'}, {'a': '', 'b': ''})]

TOKALPHA: T.List[T.Tuple[str, T.Optional[str]]] = [
    ('L', None), ('R', None), ('C', None), ('E', None), ('ALL', None), ('ANY', None), ('NOT', None),
    ('I', 'a'), ('S', 'x')]
CFGCHARS = list('()=,"" \tab') + ['all', 'any', 'not', 'a', 'b', '"x"', ' = ', '_1', '-', 'é']


CFG_CORPUS = ['all(a b)', 'all(a,)', 'any(', 'not(', 'not(any)', '', 'a = b', 'a = "x" "y"', '(a)', 'not(a, b)', 'not()',
              'a)', 'a = ', '= "x"', '"a"', 'all(,a)', 'all a', 'a,b', 'all(a))', 'a = "x"', 'all()', 'any()',
              '"a', 'a"', 'a = "x" "', 'a = " x"', 'a = "x y"', 'a = "x "', 'all("a, b)', 'a = " "', 'b"="', '"-="',
              'all', 'not(all)', 'any(a, not)', 'all(unix,)', 'not(all(unix,))']
ORDER_CORPUS = [('1.0.0-2', '1.0.0-10'), ('1.0.0-1', '1.0.0--'), ('1.0.0-alpha.2', '1.0.0-alpha.1a'),
                ('1.0.0-0.3.7', '1.0.0-x.7.z.92'), ('1.0.0-alpha', '1.0.0'), ('1.0.0-rc.1', '1.0.0-rc.1+b')]
GATE_CORPUS = [('*', '1.0.0-alpha'), ('', '1.0.0-alpha'), ('^1', '1.5.0-pre'), ('>=1.0', '2.0.0-pre1')]

# ------------------------------------------------------------------ run

def run(ctx: Ctx) -> None:
    V, C, mex = impl()
    rng = ctx.rng
    ctx.rule = ('requirement grid: 8 operator spellings + 2 wildcard forms x partial versions over {0,1,2,10} (84) x release '
                'versions over {0,1,2,3,10,11}^3 (216), exhaustive, plus comma pairs, whitespace variants and partial release '
                'versions; SemVer order on pairs/triples of a generated valid-SemVer pool and on junk; cfg: every tree of depth '
                '<=2 over 4 atoms (5156) x 10 configurations, random deeper trees, all token lists of length <=4 over 9 tokens, '
                'mutated renderings and random strings. A case is non-trivial when the model answer for its kind is not the most '
                'common one, counted distinct by input.')
    cases: T.List[T.Tuple[str, T.Any, str, str]] = []

    def add(kind, inp, line, ans):
        cases.append((kind, inp, line, ans))

    def viol(hit, case):
        if hit:
            ctx.violation(hit[0], hit[1], case)

    # ---- 1. requirement x release-version grid (exhaustive)
    parts = partials()
    rel = list(itertools.product(VERS, repeat=3))
    deviates = 0
    for op in OPSPELL:
        sop = op or '^'
        for comps in parts:
            req = render_req(rng, op, comps, False)
            f = V.cargo_parse(req)
            for v in rel:
                vs = '%d.%d.%d' % v
                got = bool(f(vs))
                want = spec_matches(sop, comps, v)
                if cargo_true(sop, comps, v) != want:
                    deviates += 1
                add('match', (req, vs), f'match {enc(req)}|{enc(vs)}', str(int(got)))
                if got != want:
                    ctx.violation(f'req:{req}:{vs}', f'cargo_parse({req!r})({vs!r}) = {got}, Cargo rule says {want}',
                                  {'req': req, 'ver': vs})
    ctx.tag('grid:pairs-where-a-pinned-deviation-decides', deviates)
    # wildcards
    for comps in [c for c in parts if len(c) < 3]:
        req = '.'.join(map(str, comps)) + '.*'
        f = V.cargo_parse(req)
        for v in rel:
            vs = '%d.%d.%d' % v
            got, want = bool(f(vs)), spec_matches('~', comps, v)
            add('match', (req, vs), f'match {enc(req)}|{enc(vs)}', str(int(got)))
            if got != want:
                ctx.violation(f'req:{req}:{vs}', f'cargo_parse({req!r})({vs!r}) = {got}, Cargo rule says {want}',
                              {'req': req, 'ver': vs})
    for req in ['*', ' * ', '', '  ', '*, *']:
        for v in rel[::7]:
            vs = '%d.%d.%d' % v
            got = bool(V.cargo_parse(req)(vs))
            add('match', (req, vs), f'match {enc(req)}|{enc(vs)}', str(int(got)))
            if not got:
                ctx.violation(f'req:{req}:{vs}', f'cargo_parse({req!r}) rejects release {vs}', {'req': req, 'ver': vs})
    # comma lists, whitespace variants, partial release versions
    for _ in range(ctx.scale(30000, 400000)):
        k = rng.choice([1, 2, 2, 3])
        comp = []
        for _i in range(k):
            if rng.random() < 0.1:
                comp.append(('*', None, None))
            elif rng.random() < 0.12:
                cs = rng.choice([c for c in parts if len(c) < 3])
                comp.append(('w', '~', cs))
            else:
                comp.append(('c', rng.choice(OPSPELL), rng.choice(parts)))
        pieces = []
        for kind, op, cs in comp:
            if kind == '*':
                pieces.append(rng.choice(WS) + '*' + rng.choice(WS))
            elif kind == 'w':
                pieces.append(rng.choice(WS) + '.'.join(map(str, cs)) + '.*' + rng.choice(WS))
            else:
                pieces.append(render_req(rng, op, cs, True))
        req = ','.join(pieces)
        v = rng.choice(rel)
        nv = rng.choice([3, 3, 2, 1])
        if any(v[nv:]):
            nv = 3
        vs = '.'.join(str(x) for x in v[:nv])
        got = bool(V.cargo_parse(req)(vs))
        want = all(spec_matches(op or '^', cs, v) for kind, op, cs in comp if kind != '*')
        add('match', (req, vs), f'match {enc(req)}|{enc(vs)}', str(int(got)))
        if got != want:
            ctx.violation(f'req:{req}:{vs}', f'cargo_parse({req!r})({vs!r}) = {got}, conjunction of Cargo rules says {want}',
                          {'req': req, 'ver': vs})

    # ---- 2. SemVer order
    pool = semver_pool(rng, ctx.scale(260, 1500))
    clean = clean_pool(pool)
    ctx.tag('order:pool', len(pool))
    ctx.tag('order:pool-outside-recorded-finding-classes', len(clean))
    for s in pool:
        add('semver', s, f'semver {enc(s)}', show_semver(V.SemVer(s)))
    small = pool[:: max(1, len(pool) // 30)][:30] + ['1.0.0-alpha', '1.0.0-alpha.1', '1.0.0-alpha.beta', '1.0.0-beta',
                                                      '1.0.0-beta.2', '1.0.0-beta.11', '1.0.0-rc.1', '1.0.0']
    pairs = list(itertools.product(clean[:: max(1, len(clean) // ctx.scale(170, 500))], repeat=2))
    pairs += [(rng.choice(pool), rng.choice(pool)) for _ in range(ctx.scale(30000, 300000))]
    pairs += list(itertools.product(small, repeat=2)) + ORDER_CORPUS + [(b, a) for a, b in ORDER_CORPUS]
    # 11.4.4 as a family: every pre-release against its one-identifier extensions (numeric 0 included), both orders
    for s0 in clean:
        b0 = s0.split('+')[0]
        if semver_fields(s0)[1]:
            for ext in ('0', '1', 'a'):
                pairs += [(b0, b0 + '.' + ext), (b0 + '.' + ext, b0)]
    for a, b in pairs:
        x, y = V.SemVer(a), V.SemVer(b)
        ans = ''.join(str(int(z)) for z in (x < y, x > y, x <= y, x >= y, x == y, x != y))
        add('cmp', (a, b), f'cmp {enc(a)}|{enc(b)}', ans)
        viol(oracle_order(V, a, b), {'a': a, 'b': b})
    for a, b, c in itertools.product(small, repeat=3):
        ctx.count()
        msg = oracle_axioms(V, a, b, c)
        if msg:
            ctx.violation(f'axioms:{a}:{b}:{c}', msg, {'a': a, 'b': b, 'c': c})
    junk = [rand_verish(rng) for _ in range(ctx.scale(1500, 15000))] + \
        [rand_junk(rng, JUNKV) for _ in range(ctx.scale(1500, 15000))]
    for s in junk:
        add('semver', s, f'semver {enc(s)}', show_semver(V.SemVer(s)))
    for _ in range(ctx.scale(30000, 300000)):
        a, b, c = rng.choice(junk), rng.choice(junk), rng.choice(pool)
        x, y = V.SemVer(a), V.SemVer(b)
        ans = ''.join(str(int(z)) for z in (x < y, x > y, x <= y, x >= y, x == y, x != y))
        add('cmp', (a, b), f'cmp {enc(a)}|{enc(b)}', ans)
        msg = oracle_axioms(V, a, b, c)
        if msg:
            ctx.violation(f'axioms:{a}:{b}:{c}', msg, {'a': a, 'b': b, 'c': c})
    # build metadata, pre-release below release: direct statements
    for s in pool:
        core, pre = semver_fields(s)
        base = s.split('+')[0]
        for bm in ('+b', '+1.x-'):
            if not (V.SemVer(base + bm) == V.SemVer(base)) or V.SemVer(base + bm) < V.SemVer(base) or \
                    V.SemVer(base + bm) > V.SemVer(base):
                ctx.violation(f'build:{base}{bm}', 'build metadata changes precedence', {'a': base, 'b': base + bm})
        ctx.count(2)
        if pre:
            r = '%d.%d.%d' % core
            if not (V.SemVer(s) < V.SemVer(r) and V.SemVer(r) > V.SemVer(s)):
                ctx.violation(f'prebelow:{s}', 'a pre-release is not below its release', {'a': s, 'b': r})
            if not V.SemVer(s).has_prerelease:
                ctx.violation(f'haspre:{s}', 'has_prerelease is False for a pre-release', {'a': s})

    # ---- 3. pre-release gate (and requirements that do carry a tag: correspondence only)
    prevs = [s for s in pool if semver_fields(s)[1]]
    for req, vs in GATE_CORPUS:
        if V.cargo_parse(req)(vs):
            key = 'gate:requirement-without-comparators' if req.strip() in ('', '*') else f'gate:{req}:{vs}'
            ctx.violation(key, f'pre-release {vs!r} satisfies {req!r}, which names no pre-release', {'req': req, 'ver': vs})
    for _ in range(ctx.scale(30000, 300000)):
        r = rng.random()
        if r < 0.08:
            req = rng.choice(['*', '', ' ', '*,*', ' * '])
            ncomp = 0
        else:
            k = rng.choice([1, 1, 2])
            req = ','.join(render_req(rng, rng.choice(OPSPELL), rng.choice(parts), rng.random() < 0.3) for _ in range(k))
            ncomp = k
        vs = rng.choice(prevs)
        got = bool(V.cargo_parse(req)(vs))
        add('match', (req, vs), f'match {enc(req)}|{enc(vs)}', str(int(got)))
        if got:
            key = 'gate:requirement-without-comparators' if ncomp == 0 else f'gate:{req}:{vs}'
            ctx.violation(key, f'pre-release {vs!r} satisfies {req!r}, which names no pre-release', {'req': req, 'ver': vs})
    for _ in range(ctx.scale(20000, 200000)):
        k = rng.choice([1, 1, 2])
        req = ','.join(rng.choice(OPSPELL + ['!=']) + rng.choice(WS) + rng.choice(pool + junk[:200]) for _ in range(k))
        vs = rng.choice(pool) if rng.random() < 0.8 else rng.choice(junk)
        add('match', (req, vs), f'match {enc(req)}|{enc(vs)}', str(int(bool(V.cargo_parse(req)(vs)))))
    # split / api on anything
    reqs = [rand_junk(rng, JUNKV, 10) for _ in range(ctx.scale(4000, 40000))] + \
        [','.join(rng.choice(WS) + rng.choice(OPSPELL + ['!=', '=>', '~>']) + rng.choice(WS) + rand_verish(rng)
                  for _ in range(rng.randint(0, 3))) for _ in range(ctx.scale(6000, 60000))]
    for req in reqs:
        add('split', req, f'split {enc(req)}', ';'.join(op + ':' + enc(v) for op, v in V.split(req)))
        add('api', req, f'api {enc(req)}', guard(lambda: 'OK:' + enc(V.api(req)), mex))
        vs = rng.choice(pool)
        add('match', (req, vs), f'match {enc(req)}|{enc(vs)}', str(int(bool(V.cargo_parse(req)(vs)))))

    # ---- 4. cfg
    def cfg_case(inner: str, d: T.Dict[str, str]):
        raw = 'cfg(' + inner + ')'
        add('evalcfg', (raw, d), f'evalcfg {enc(raw)}|{enc_cfgs(d)}',
            parse_guard(C, mex, inner, lambda: str(int(C.eval_cfg(raw, d)))))
        viol(oracle_cfg(C, mex, inner, d), {'expr': raw, 'cfgs': d})

    def nosp():
        return ''

    t2 = trees(2)
    ctx.tag('cfg:trees-depth<=2', len(t2))
    for t in t2:
        inner = render_tree(t, nosp)
        add('lexparse', inner, f'lexparse {enc(inner)}',
            parse_guard(C, mex, inner, lambda: 'OK:' + show_ir(C, C.parse(C.lexer(inner)))))
        for d in CONFIGS:
            cfg_case(inner, d)
    names = ['a', 'b', 'unix', 'target_os', 'feature', 'all_', 'any1', 'nota', 'x-y', '1', 'é']
    values = ['x', 'y', '', 'linux', 'x86_64', 'any', 'a.b', "it's", 'é', 'x y', ' x', 'x ', '(', 'a,b', '=', ' ', 'all(a)']
    deep_strings = []
    for _ in range(ctx.scale(6000, 80000)):
        t = rand_tree(rng, 4, names, values)
        inner = render_tree(t, lambda: rng.choice(['', '', ' ', '  ', '\t', '\n']))
        deep_strings.append(inner)
        d = {n: rng.choice(values) for n in names if rng.random() < 0.4}
        add('lexparse', inner, f'lexparse {enc(inner)}',
            parse_guard(C, mex, inner, lambda: 'OK:' + show_ir(C, C.parse(C.lexer(inner)))))
        cfg_case(inner, d)
    # token lists: exhaustive to length 4, random to length 8
    soups = [list(s) for n in range(0, 5) for s in itertools.product(TOKALPHA, repeat=n)]
    for _ in range(ctx.scale(8000, 100000)):
        soups.append([rng.choice(TOKALPHA + [('I', 'b'), ('S', ''), ('I', 'all')]) for _ in range(rng.randint(5, 8))])
    for toks in soups:
        add('parse', toks, 'parse ' + ','.join(wire_tok(w) for w in toks),
            guard(lambda: 'OK:' + show_ir(C, C.parse(iter([mk_tok(C, w) for w in toks]))), mex))
        viol(oracle_cfg_tokens(C, mex, toks), {'tokens': [wire_tok(w) for w in toks]})
    # malformed strings: mutated renderings and random strings
    mal = []
    for s in deep_strings[: ctx.scale(4000, 40000)]:
        if not s:
            continue
        i = rng.randrange(len(s))
        r = rng.random()
        if r < 0.4:
            mal.append(s[:i] + s[i + 1:])
        elif r < 0.8:
            mal.append(s[:i] + rng.choice(['(', ')', ',', '=', '"', ' ', 'a', 'all']) + s[i:])
        else:
            mal.append(s[:i] + rng.choice(['(', ')', ',', '=', '"', 'a']) + s[i + 1:])
    for _ in range(ctx.scale(12000, 150000)):
        mal.append(''.join(rng.choice(CFGCHARS) for _ in range(rng.randint(0, 9))))
    for inner in CFG_CORPUS:
        for d in CONFIGS:
            cfg_case(inner, d)
    for inner in mal + CFG_CORPUS:
        d = rng.choice(CONFIGS)
        add('lex', inner, f'lex {enc(inner)}', lex_answer(C, mex, inner))
        cfg_case(inner, d)
    # the envelope
    for _ in range(ctx.scale(2000, 20000)):
        raw = rng.choice(['', 'cfg', 'cfg(', 'cfg()', 'cfg(a', 'cfg(a)', 'cfg(a) ', ' cfg(a)', 'a', 'cfg(a))', 'CFG(a)',
                          'cfg(' + rng.choice(deep_strings) + ')', rng.choice(deep_strings), rand_junk(rng, CFGCHARS, 6)])
        d = rng.choice(CONFIGS)
        add('evalcfg', (raw, d), f'evalcfg {enc(raw)}|{enc_cfgs(d)}',
            parse_guard(C, mex, raw[4:-1], lambda: str(int(C.eval_cfg(raw, d)))))

    # ---- 5. consumer objects (cached predicates, Cargo.lock resolution, cfg tables): operation histories
    run_objects(ctx, V, C, mex, add, parts)

    # ---- 6. consumers on values: api strings vs caret ranges, Cargo.lock listing/resolution, target-specific
    #         dependency tables, system-deps versions (harness/c20_consumers.py)
    from . import c20_consumers
    c20_consumers.run_consumers(ctx, V, C, mex, add)

    # ---- correspondence: model driver on the same inputs
    ctx.count(len(cases))
    if getattr(ctx, 'model_available', True):
        answers = ctx.driver('cargo', [c[2] for c in cases])
        freq: T.Dict[str, T.Dict[str, int]] = {}
        for (kind, inp, _line, impl_ans), model_ans in zip(cases, answers):
            ctx.tag('kind:' + kind)
            if model_ans.startswith('ERR:'):
                ctx.tag('model-error:' + model_ans[4:])
            freq.setdefault(kind, {}).setdefault(model_ans, 0)
            freq[kind][model_ans] += 1
            if impl_ans != model_ans:
                ctx.disagreement({'kind': kind, 'input': inp, 'impl': impl_ans, 'model': model_ans})
        top = {k: max(v, key=v.get) for k, v in freq.items()}
        for (kind, inp, _line, _ia), model_ans in zip(cases, answers):
            if model_ans != top[kind]:
                ctx.seen_nontrivial((kind, repr(inp)))
    seen_kinds = set()
    for c in cases:
        if c[0] not in seen_kinds:
            seen_kinds.add(c[0])
            ctx.sample({'kind': c[0], 'input': c[1], 'impl': c[3]}, limit=12)
    ctx.assumptions += TRUSTED


# ------------------------------------------------------------------ search / replay

def neighbours(s: str, alphabet: str) -> T.Iterable[str]:
    yield s
    for i in range(len(s)):
        yield s[:i] + s[i + 1:]
    for i in range(len(s) + 1):
        for ch in alphabet:
            yield s[:i] + ch + s[i:]


REQ_RE = re.compile(r'^\s*(\^|~|=|<=|<|>=|>|)\s*(\d+)(?:\.(\d+))?(?:\.(\d+))?(\.\*)?\s*$')


def req_oracle(V, req: str, vs: str) -> T.Optional[T.Tuple[str, str]]:
    """the requirement oracle on free text: only when every comma piece is one of the listed tag-free forms"""
    m = re.match(r'^\s*(\d+)(?:\.(\d+))?(?:\.(\d+))?\s*$', vs)
    if not m:
        return None
    v = tuple(int(x) if x else 0 for x in m.groups())
    want = True
    for piece in req.split(','):
        if piece.strip() == '*':
            continue
        pm = REQ_RE.match(piece)
        if not pm:
            return None
        comps = [int(x) for x in pm.groups()[1:4] if x is not None]
        if any(len(x) > 1 and x[0] == '0' for x in pm.groups()[1:4] if x):
            return None
        op = pm.group(1) or '^'
        if pm.group(5):
            if pm.group(1) or len(comps) == 3:
                return None
            op = '~'
        want = want and spec_matches(op, comps, v)   # type: ignore[arg-type]
    if not req.strip():
        want = True
    got = bool(V.cargo_parse(req)(vs))
    if got != want:
        return f'req:{req}:{vs}', f'cargo_parse({req!r})({vs!r}) = {got}, Cargo rule says {want}'
    return None


def strings_of(x) -> T.List[str]:
    if isinstance(x, str):
        return [x]
    if isinstance(x, (list, tuple)):
        return [s for y in x for s in strings_of(y)]
    return []


def search(ctx: Ctx, disagreements: T.List[dict]) -> None:
    """failing-input search on the implementation alone, around the inputs on which model and
    implementation differ, then a deeper sweep of the generated families."""
    V, C, mex = impl()
    rng = ctx.rng
    rel = ['%d.%d.%d' % v for v in itertools.product(VERS, repeat=3)]
    pool = semver_pool(rng, 400)
    clean = clean_pool(pool)
    from . import c20_consumers
    ckinds = {d.get('kind') for d in disagreements} & set(c20_consumers.KINDS)
    if ckinds:
        c20_consumers.search_consumers(ctx, ckinds)
        if ctx.violations:
            return
    for d in disagreements:
        kind, inp = d.get('kind'), d.get('input')
        strs = strings_of(inp)
        if kind == 'match':
            req, vs = inp
            for r in itertools.islice(neighbours(req, '01.*~^<>=, '), 800):
                for v in [vs] + rng.sample(rel, 25):
                    hit = req_oracle(V, r, v)
                    if hit:
                        ctx.violation(hit[0], hit[1], {'req': r, 'ver': v})
                        return
                    if semver_fields(vs) and semver_fields(vs)[1] and REQ_RE.match(r) and V.cargo_parse(r)(vs):
                        ctx.violation(f'gate:{r}:{vs}', 'pre-release satisfies a requirement naming no pre-release',
                                      {'req': r, 'ver': vs})
                        return
        if kind in ('cmp', 'semver'):
            for a in strs:
                for n in itertools.islice(neighbours(a, '01a.-+'), 600):
                    if not semver_fields(n):
                        continue
                    for b in rng.sample(clean, min(60, len(clean))) + [x for x in strs if semver_fields(x)]:
                        for (x, y) in ((n, b), (b, n)):
                            hit = oracle_order(V, x, y)
                            if hit and hit[0] not in ctx.known:
                                ctx.violation(hit[0], hit[1], {'a': x, 'b': y})
                                return
        if kind in ('evalcfg', 'lexparse', 'lex'):
            raw = strs[0] if strs else ''
            inner = raw[4:-1] if raw.startswith('cfg(') and raw.endswith(')') else raw
            for n in itertools.islice(neighbours(inner, '(),="a '), 1500):
                for dd in CONFIGS[:6]:
                    hit = oracle_cfg(C, mex, n, dd)
                    if hit and hit[0] not in ctx.known:
                        ctx.violation(hit[0], hit[1], {'expr': 'cfg(' + n + ')', 'cfgs': dd})
                        return
        if kind == 'hist':
            from mesonbuild.cargo import manifest as M
            mk, init, ops = inp
            ops = [tuple(o) for o in ops]
            makers = {'str': lambda r: M.Dependency.from_raw('foo', r),
                      'table': lambda r: M.Dependency.from_raw('foo', {'version': r}),
                      'ctor': lambda r: M.Dependency('foo', r)}
            cands = [ops] + [ops[:i] + ops[i + 1:] for i in range(len(ops))]
            for cand in cands:
                _w, _o, fail = run_dependency_history(M, mex, makers.get(mk, makers['str']), init,
                                                      list(cand) + [('ra', None), ('rp', None)])
                if fail:
                    ctx.violation(f'object:Dependency:{mk}:{init}:{">".join(k for k, _ in cand)}', fail,
                                  {'object': 'manifest.Dependency', 'make': mk, 'init': init, 'ops': list(cand)})
                    return
        if kind == 'parse':
            toks = [tuple(w) for w in inp]
            for i in range(len(toks) + 1):
                for cand in [toks[:i] + toks[i + 1:]] + [toks[:i] + [w] + toks[i:] for w in TOKALPHA]:
                    hit = oracle_cfg_tokens(C, mex, cand)
                    if hit:
                        ctx.violation(hit[0], hit[1], {'tokens': [wire_tok(w) for w in cand]})
                        return
    # deeper sweep: order on clean pairs, all depth<=2 trees, grid already covered by run()
    for a in clean:
        for b in clean:
            hit = oracle_order(V, a, b)
            if hit and hit[0] not in ctx.known:
                ctx.violation(hit[0], hit[1], {'a': a, 'b': b})
                return
    for _ in range(200000):
        t = rand_tree(rng, 4, ['a', 'b', 'c'], ['x', 'y', ''])
        inner = render_tree(t, lambda: rng.choice(['', ' ']))
        dd = {n: rng.choice(['x', 'y', '']) for n in 'abc' if rng.random() < 0.5}
        hit = oracle_cfg(C, mex, inner, dd)
        if hit and hit[0] not in ctx.known:
            ctx.violation(hit[0], hit[1], {'expr': 'cfg(' + inner + ')', 'cfgs': dd})
            return


def replay(ctx: Ctx, rep: dict) -> None:
    V, C, mex = impl()
    case = rep.get('case', {})
    print('replay', rep.get('what'), case)
    from . import c20_consumers
    if case.get('consumer') and c20_consumers.replay_consumer(ctx, case):
        return
    if case.get('object') == 'manifest.Dependency' and 'ops' in case:
        from mesonbuild.cargo import manifest as M
        ops = [tuple(o) for o in case['ops']]
        makers = {'str': lambda r: M.Dependency.from_raw('foo', r),
                  'table': lambda r: M.Dependency.from_raw('foo', {'version': r}),
                  'ctor': lambda r: M.Dependency('foo', r)}
        wire, outs, fail = run_dependency_history(M, mex, makers.get(case.get('make'), makers['str']), case['init'], ops)
        print('impl  :', ';'.join(outs))
        print('oracle:', fail)
        print('model :', ctx.driver('cargo', [f'hist {enc(case["init"])}|{",".join(wire)}']))
    elif 'req' in case:
        req, vs = case['req'], case['ver']
        print('impl :', V.cargo_parse(req)(vs))
        print('oracle:', req_oracle(V, req, vs))
        print('model:', ctx.driver('cargo', [f'match {enc(req)}|{enc(vs)}']))
    elif 'expr' in case:
        raw, d = case['expr'], case['cfgs']
        print('impl :', guard(lambda: str(int(C.eval_cfg(raw, d))), mex))
        print('oracle:', oracle_cfg(C, mex, raw[4:-1], d))
        print('model:', ctx.driver('cargo', [f'evalcfg {enc(raw)}|{enc_cfgs(d)}']))
    elif 'tokens' in case:
        print('model:', ctx.driver('cargo', ['parse ' + ','.join(case['tokens'])]))
    elif 'a' in case and 'b' in case:
        a, b = case['a'], case['b']
        x, y = V.SemVer(a), V.SemVer(b)
        print('impl :', x._v, y._v, 'lt', x < y, 'gt', x > y, 'eq', x == y)
        if semver_fields(a) and semver_fields(b):
            print('oracle:', oracle_order(V, a, b))
        print('model:', ctx.driver('cargo', [f'cmp {enc(a)}|{enc(b)}']))
