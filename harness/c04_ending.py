"""C04 — which targets are built by default / needed by tests / needed by the install step.

Three things live here:

  * the *documented rule* (reference manual, docs/yaml/functions/_build_target_base.yaml and custom_target.yaml) as an
    independent Python predicate `doc_built_by_default`;
  * the grid projects: every target kind available on this host x `build_by_default:` (absent/true/false) x `install:`
    (absent/true/false) (x `build_always:` and `install_dir` shapes for custom targets), spread over the root, a
    subdirectory and a subproject, with tests/benchmarks that reach not-built-by-default targets in every way;
  * the tie between the Lean model of the aggregate targets (MesonModel/Ninja/Ending.lean, driver command `ending`) and the
    real code: end to end (the `all` / `meson-test-prereq` / `meson-benchmark-prereq` statements of the real build.ninja
    and the entries of the real install.dat of the grid projects) and in-process (the real
    Backend.get_build_by_default_targets / get_testlike_targets / NinjaBackend.generate_ending / generate_install driven
    on random target tables made of real mesonbuild.build objects).
"""
from __future__ import annotations

import io
import os
import pickle
import shutil
import typing as T

from . import common
from .common import enc, enc_list, dec_list

TRI = {None: 'n', True: 't', False: 'f'}


# ---------------------------------------------------------------------------------------------------------------
# the documented rule

def doc_built_by_default(decl: dict) -> bool:
    """decl: {'fn': meson function, 'bbd': None|bool, 'install': None|bool, 'build_always': None|bool}

    _build_target_base.yaml: `build_by_default` … "The default value is `true` for all built target types."; an installed
    target has to be built by default (install runs after `all`; Installing.md).
    custom_target.yaml: "The default value is `false`. (since 0.50.0) If `build_by_default` is explicitly set to false,
    `install` will no longer override it. If `build_by_default` is not set, `install` will still determine its default."
    build_always: "Equivalent to setting both `build_always_stale` and `build_by_default` to true."
    """
    if decl['fn'] == 'custom_target':
        if decl.get('bbd') is not None:
            return bool(decl['bbd'])
        if decl.get('install'):
            return True
        return decl.get('build_always') is True
    return decl.get('bbd') is not False or decl.get('install') is True


# ---------------------------------------------------------------------------------------------------------------
# install.dat

def read_install_dat(bld: str) -> dict:
    """-> {'mandatory': [paths relative to the build dir], 'optional': [...], 'other': [paths of data/headers/man entries],
           'err': None | reason}.  Never raises."""
    out: T.Dict[str, T.Any] = {'mandatory': [], 'optional': [], 'other': [], 'err': None}
    p = os.path.join(bld, 'meson-private', 'install.dat')
    try:
        with open(p, 'rb') as fh:
            d = pickle.load(fh)
    except FileNotFoundError:
        out['err'] = 'no-install.dat'
        return out
    except Exception as e:  # noqa: BLE001 - any unpickling problem is an outcome, not a crash
        out['err'] = f'unreadable:{type(e).__name__}'
        return out
    try:
        for t in list(getattr(d, 'targets')):
            fname = getattr(t, 'fname')
            if not isinstance(fname, str):
                out['err'] = 'shape:fname'
                continue
            rel = os.path.relpath(fname, bld) if os.path.isabs(fname) else fname
            (out['optional'] if bool(getattr(t, 'optional')) else out['mandatory']).append(rel)
        for lst in ('headers', 'man', 'data'):
            for e in list(getattr(d, lst, []) or []):
                path = getattr(e, 'path', None)
                if isinstance(path, str):
                    out['other'].append(os.path.relpath(path, bld) if os.path.isabs(path) else path)
    except Exception as e:  # noqa: BLE001
        out['err'] = f'shape:{type(e).__name__}'
    return out


# ---------------------------------------------------------------------------------------------------------------
# grid projects

BUILD_FNS = ['executable', 'static_library', 'shared_library', 'shared_module', 'both_libraries', 'library']
PLACES = ['', 'd1', 'subprojects/gsp', 'subprojects/gsp/d2']
MAIN_C = 'int main(void) { return 0; }\n'
LIB_C = 'int grid_fn(void) { return 1; }\n'
GEN_PY = ('#!/usr/bin/env python3\nimport sys\nfor p in sys.argv[1:]:\n    open(p, "w").write("/* generated */\\n")\n')


def _kw(bbd, install, extra='') -> str:
    parts = []
    if bbd is not None:
        parts.append(f'build_by_default: {str(bbd).lower()}')
    if install is not None:
        parts.append(f'install: {str(install).lower()}')
    if extra:
        parts.append(extra)
    return ''.join(', ' + p for p in parts)


def grid_project(rot: int, java: bool = False) -> T.Tuple[T.Dict[str, str], dict]:
    """-> (files, spec).  spec['grid'] = declarations, spec['gtests'] = tests with references by declaration name.
    `rot` rotates which place each declaration goes to."""
    lines: T.Dict[str, T.List[str]] = {p: [] for p in PLACES}
    decls: T.List[dict] = []
    k = rot

    visible: T.Dict[str, int] = {}

    def place(group: str = '', default: bool = True) -> str:
        # the first two not-built-by-default declarations of every kind go where the root meson.build can name them
        nonlocal k
        k += 1
        if not default and visible.get(group, 0) < 2:
            visible[group] = visible.get(group, 0) + 1
            return PLACES[k % 2]
        return PLACES[k % len(PLACES)]
    tri = [None, True, False]
    for fn in BUILD_FNS:
        for bbd in tri:
            for inst in tri:
                name = f'g_{fn[:3]}{fn[-3:]}_{TRI[bbd]}{TRI[inst]}'
                pl = place(fn, doc_built_by_default({'fn': fn, 'bbd': bbd, 'install': inst}))
                src = 'gm.c' if fn == 'executable' else 'gl.c'
                var = 'v_' + name
                lines[pl].append(f"{var} = {fn}('{name}', '{src}'{_kw(bbd, inst)})")
                decls.append({'fn': fn, 'name': name, 'var': var, 'place': pl, 'bbd': bbd, 'install': inst, 'build_always': None,
                              'outputs': None, 'mask': []})
    shapes = [('one', ['@.h'], None), ('two-onedir', ['@.h', '@.c'], "install_dir: 'share/g'"),
              ('two-mask', ['@.h', '@.c'], "install_dir: ['share/g', false]")]
    for shape, outs, idir in shapes:
        for bbd in tri:
            for inst in tri:
                for ba in ([None, True, False] if shape == 'one' else [None]):
                    name = f'c_{shape}_{TRI[bbd]}{TRI[inst]}{TRI[ba]}'
                    pl = place('custom:' + shape, doc_built_by_default({'fn': 'custom_target', 'bbd': bbd, 'install': inst,
                                                                        'build_always': ba}))
                    outputs = [o.replace('@', name) for o in outs]
                    extra = 'output: [' + ', '.join(f"'{o}'" for o in outputs) + "], command: [ggen, '@OUTPUT@']"
                    mask = [True] * len(outputs)
                    if idir is None:
                        extra += ", install_dir: 'share/g'"
                    else:
                        extra += ', ' + idir
                        if shape == 'two-mask':
                            mask = [True, False]
                    if ba is not None:
                        extra += f', build_always: {str(ba).lower()}'
                    var = 'v_' + name.replace('-', '_')
                    lines[pl].append(f"{var} = custom_target('{name}'{_kw(bbd, inst, extra)})")
                    decls.append({'fn': 'custom_target', 'name': name, 'var': var, 'place': pl, 'bbd': bbd, 'install': inst,
                                  'build_always': ba, 'outputs': outputs, 'mask': mask})
    # tests / benchmarks reaching targets that are NOT built by default, in every way the backend distinguishes
    byname = {d['name']: d for d in decls}

    def pick(fn: str, _place: str, nth: int = 0) -> dict:
        c = [d for d in decls if d['fn'] == fn and d['place'] in ('', 'd1') and not doc_built_by_default(d)]
        return c[nth % len(c)]
    gtests: T.List[dict] = []
    root_tail: T.List[str] = []
    e0, e1, e2 = pick('executable', '', 0), pick('executable', '', 1), pick('executable', '', 2)
    c0, c1 = pick('custom_target', '', 0), pick('custom_target', '', 1)
    c2 = [d for d in decls if d['fn'] == 'custom_target' and len(d['outputs']) == 2 and not doc_built_by_default(d)
          and d['place'] in ('', 'd1')][0]
    l0 = pick('static_library', '', 0)
    s0 = pick('shared_library', '', 0)
    root_tail.append("gmain = executable('g_main', 'gm.c')")
    decls.append({'fn': 'executable', 'name': 'g_main', 'var': 'gmain', 'place': '', 'bbd': None, 'install': None,
                  'build_always': None, 'outputs': None, 'mask': []})
    root_tail.append(f"test('gt_exe', {e0['var']})")
    gtests.append({'benchmark': False, 'exe': ('T', e0['name']), 'args': [], 'depends': []})
    root_tail.append(f"test('gt_args', gmain, args: ['-x', {c0['var']}, {c2['var']}[1], {e1['var']}, files('gm.c')])")
    gtests.append({'benchmark': False, 'exe': ('T', 'g_main'),
                   'args': [('O', ''), ('T', c0['name']), ('I', c2['name']), ('T', e1['name']), ('O', '')], 'depends': []})
    root_tail.append(f"test('gt_dep', gmain, depends: [{l0['var']}, {c1['var']}[0]])")
    gtests.append({'benchmark': False, 'exe': ('T', 'g_main'), 'args': [], 'depends': [('T', l0['name']), ('I', c1['name'])]})
    root_tail.append(f"meson.override_find_program('g-ovr', {e2['var']})")
    root_tail.append("benchmark('gb_ovr', find_program('g-ovr'), args: [find_program('g-ovr'), 'y'], depends: " + s0['var'] + ')')
    gtests.append({'benchmark': True, 'exe': ('LT', e2['name']), 'args': [('LT', e2['name']), ('O', '')],
                   'depends': [('T', s0['name'])]})
    root_tail.append(f"benchmark('gb_idx', {c2['var']}[0])")
    gtests.append({'benchmark': True, 'exe': ('I', c2['name']), 'args': [], 'depends': []})
    assert all(d['name'] in byname or d['name'] == 'g_main' for d in decls)
    files = {
        'meson.build': "project('grid', 'c')\nggen = find_program('ggen.py')\n" + '\n'.join(lines['']) +
                       "\nsubdir('d1')\ngsp = subproject('gsp')\n" + '\n'.join(root_tail) + '\n',
        'd1/meson.build': '\n'.join(lines['d1']) + '\n',
        'subprojects/gsp/meson.build': "project('gsp', 'c')\nggen = find_program('ggen.py')\n" + '\n'.join(lines['subprojects/gsp'])
                                       + "\nsubdir('d2')\n",
        'subprojects/gsp/d2/meson.build': '\n'.join(lines['subprojects/gsp/d2']) + '\n',
        'ggen.py': GEN_PY, 'subprojects/gsp/ggen.py': GEN_PY,
    }
    for pl in PLACES:
        files[os.path.join(pl, 'gm.c')] = MAIN_C
        files[os.path.join(pl, 'gl.c')] = LIB_C
    return files, {'targets': [], 'tests': [], 'grid': decls, 'gtests': gtests}


def java_grid_project() -> T.Tuple[T.Dict[str, str], dict]:
    """the jar() column of the grid (only when a Java compiler is present)"""
    decls = []
    lines = ["project('jgrid', 'java')"]
    for bbd in (None, True, False):
        for inst in (None, True, False):
            name = f'g_jar_{TRI[bbd]}{TRI[inst]}'
            extra = "main_class: 'A'" + (", install_dir: 'share/j'" if inst else '')
            lines.append(f"jar('{name}', 'A.java'{_kw(bbd, inst, extra)})")
            decls.append({'fn': 'jar', 'name': name, 'var': name, 'place': '', 'bbd': bbd, 'install': inst, 'build_always': None,
                          'outputs': None, 'mask': []})
    files = {'meson.build': '\n'.join(lines) + '\n',
             'A.java': 'class A { public static void main(String[] a) { } }\n'}
    return files, {'targets': [], 'tests': [], 'grid': decls, 'gtests': []}


def grid_jobs(ctx, matrix: T.List[T.Tuple[str, T.List[str]]]) -> T.List[dict]:
    rng = ctx.rng
    jobs = []
    combos = list(matrix) if ctx.deep else [rng.choice([m for m in matrix if 'mirror' in m[0]]),
                                            rng.choice([m for m in matrix if 'flat' in m[0]])]
    for label, args in combos:
        files, spec = grid_project(rng.randrange(4))
        jobs.append({'kind': 'files', 'label': 'grid:' + label, 'files': files, 'args': list(args), 'spec': spec, 'timeout': 600})
    if shutil.which('javac'):
        files, spec = java_grid_project()
        jobs.append({'kind': 'files', 'label': 'grid:java', 'files': files, 'args': [], 'spec': spec})
    return jobs


def grid_requirements(spec: dict, intro_targets: T.List[dict], rel: T.Callable[[str], str]) -> T.Tuple[list, list]:
    """-> (reqs, problems).  reqs: ('all', file) for every file of every declaration the DOCUMENTATION says is built by
    default; ('meson-test-prereq' | 'meson-benchmark-prereq', file) for every target a grid test uses."""
    reqs: T.List[T.Tuple[str, str]] = []
    problems: T.List[str] = []
    byname: T.Dict[str, T.List[dict]] = {}
    for t in intro_targets:
        byname.setdefault(t.get('name', ''), []).append(t)
    for d in spec.get('grid', []):
        its = byname.get(d['name'], [])
        if not its:
            problems.append(f"declared target {d['name']} is not in intro-targets.json")
            continue
        if doc_built_by_default(d):
            for t in its:
                for f in t.get('filename', []):
                    reqs.append(('all', rel(f)))
    for ts in spec.get('gtests', []):
        root = 'meson-benchmark-prereq' if ts['benchmark'] else 'meson-test-prereq'
        for kind, name in [tuple(ts['exe'])] + [tuple(a) for a in ts['args']] + [tuple(x) for x in ts['depends']]:
            if kind == 'O':
                continue
            for t in byname.get(name, []):
                for f in t.get('filename', []):
                    reqs.append((root, rel(f)))
    return reqs, problems


def table_from_grid(spec: dict, intro_targets: T.List[dict], rel: T.Callable[[str], str]) -> T.Optional[dict]:
    """abstract target table of the Lean model for a configured grid project: keywords from the DECLARATIONS, directory and
    output names from introspection.  -> {'rows': [...], 'index': {name: [row numbers]}} or None when shapes do not fit"""
    rows = []
    index: T.Dict[str, T.List[int]] = {}
    byname: T.Dict[str, T.List[dict]] = {}
    for t in intro_targets:
        byname.setdefault(t.get('name', ''), []).append(t)
    for d in spec.get('grid', []):
        for t in sorted(byname.get(d['name'], []), key=lambda t: t.get('type', '')):
            fns = [rel(f) for f in t.get('filename', [])]
            if not fns:
                return None
            dirs = {os.path.dirname(f) for f in fns}
            if len(dirs) != 1:
                return None
            index.setdefault(d['name'], []).append(len(rows))
            rows.append({'kind': 'c' if d['fn'] == 'custom_target' else 'b', 'dir': dirs.pop(),
                         'outs': [os.path.basename(f) for f in fns], 'bbd': d['bbd'], 'install': bool(d['install']),
                         'ba': d['build_always'], 'mask': list(d['mask'])})
    return {'rows': rows, 'index': index}


def enc_row(r: dict) -> str:
    return ';'.join([r['kind'], enc(r['dir']), enc(r['outs'][0]), enc_list(r['outs'][1:]), TRI[r['bbd']], str(int(r['install'])),
                     TRI[r['ba']], ''.join(str(int(b)) for b in r['mask'])])


def enc_test(t: dict) -> str:
    def ref(r):
        return 'O' if r[0] == 'O' else f'{r[0]}{r[1]}'
    return ';'.join([ref(t['exe']), ','.join(ref(a) for a in t['args']), ','.join(ref(d) for d in t['depends'])])


def ending_line(rows: T.List[dict], tests: T.List[dict], benches: T.List[dict]) -> str:
    return 'ending ' + '|'.join(['/'.join(enc_row(r) for r in rows), '/'.join(enc_test(t) for t in tests),
                                 '/'.join(enc_test(t) for t in benches)])


def parse_ending(ans: str) -> T.Optional[dict]:
    if not ans.startswith('OK|'):
        return None
    d = {}
    for part in ans.split('|')[1:]:
        k, _, v = part.partition('=')
        d[k] = v
    out = {'bbd': d.get('bbd', '')}
    for k in ('all', 'test', 'bench', 'mand', 'opt'):
        out[k] = dec_list(d.get(k, ''))
    inst = []
    for e in (d.get('install', '').split('/') if d.get('install') else []):
        f = e.split(';')
        inst.append((dec_list(f[0]), dec_list(f[1]), common.dec(f[2])))
    out['install'] = inst
    return out


def grid_model_lines(spec: dict, table: dict) -> str:
    """the driver request for a configured grid project (tests resolved to row numbers; a declaration that became two
    targets — both_libraries — is referenced through its first row: the interpreter hands the shared half to test())"""
    def res(r):
        if r[0] == 'O':
            return ('O', '')
        return (r[0], table['index'][r[1]][0])
    tests, benches = [], []
    for ts in spec.get('gtests', []):
        t = {'exe': res(ts['exe']), 'args': [res(a) for a in ts['args']], 'depends': [res(d) for d in ts['depends']]}
        (benches if ts['benchmark'] else tests).append(t)
    return ending_line(table['rows'], tests, benches)


# ---------------------------------------------------------------------------------------------------------------
# in-process stream: the real emitters on random tables of real mesonbuild.build objects

def _mk_backend(rows: T.List[dict], tests: T.List[dict], benches: T.List[dict], layout: str):
    """-> (backend, targets) ; everything the four real methods touch, nothing else"""
    from mesonbuild import build as B
    from mesonbuild.backend import ninjabackend as NB
    from mesonbuild.mesonlib import MachineChoice, PerMachine
    from mesonbuild.options import OptionKey
    from mesonbuild.envconfig import MachineInfo

    class Store:
        def get_value_for(self, key, *a):
            name = key.name if isinstance(key, OptionKey) else str(key)
            return {'layout': layout, 'b_coverage': False, 'stdsplit': True, 'errorlogs': True}.get(name, False)

        def __contains__(self, key):
            return False

    class CoreData:
        optstore = Store()
        cross_files: T.List[str] = []
        config_files: T.List[str] = []

    class Env:
        coredata = CoreData()
        machines = PerMachine(MachineInfo('linux', 'x86_64', 'x86_64', 'little', None, None),
                              MachineInfo('linux', 'x86_64', 'x86_64', 'little', None, None))

        def get_build_command(self, unbuffered=False):
            return ['meson']

        def get_build_dir(self):
            return '/nonexistent-build'

        def get_scratch_dir(self):
            return '/nonexistent-build/meson-private'

        def is_cross_build(self):
            return False

    classes = {'b': [B.Executable, B.StaticLibrary, B.SharedLibrary, B.SharedModule], 'c': [B.CustomTarget]}
    objs = []
    tdict = {}
    for k, r in enumerate(rows):
        cls = classes[r['kind']][k % len(classes[r['kind']])]
        t = object.__new__(cls)
        t.name = f't{k}'
        t.subdir = r['subdir']
        t.build_subdir = ''
        t.builddir = r['subdir']
        t.subproject = ''
        t.for_machine = MachineChoice.HOST
        t.outputs = list(r['outs'])
        t.build_by_default = r['attr_bbd']
        t.aix_so_archive = False
        objs.append(t)
        tdict[f'id{k}'] = t

    def ref(r):
        kind, i = r
        if kind == 'O':
            return 'plain-arg'
        t = objs[i]
        if kind == 'T':
            return t
        if kind == 'I':
            return B.CustomTargetIndex(t, t.outputs[0])
        prog = t if kind == 'LT' else B.CustomTargetIndex(t, t.outputs[0])
        lp = object.__new__(B.LocalProgram)
        lp.program = prog
        lp.name = 'lp'
        return lp

    class FakeTest:
        def __init__(self, d):
            self.exe = ref(d['exe'])
            self.cmd_args = [ref(a) for a in d['args']]
            self.depends = [ref(x) for x in d['depends']]

    class FakeBuild:
        targets = tdict
        def_files: T.List[str] = []

        def get_targets(self):
            return tdict

        def get_tests(self):
            return [FakeTest(t) for t in tests]

        def get_benchmarks(self):
            return [FakeTest(t) for t in benches]

    class Backend(NB.NinjaBackend):
        def __init__(self):   # noqa: super().__init__ needs a whole interpreter
            self.environment = Env()
            self.build = FakeBuild()
            self.all_outputs = set()
            self.ninja = NB.NinjaBuild()
            self.ninja_command = ['ninja']
            self.implicit_meson_outs = []
            self.build_to_src = '../src'
            self.written: T.List[T.Any] = []

        def add_build(self, b):
            self.written.append(b)

        def create_install_data_files(self):
            pass

        def get_regen_filelist(self):
            return ['../src/meson.build']

        def generate_custom_target_clean(self, trees):
            return 'clean-ctlist'
    return Backend(), objs


def real_ending(rows: T.List[dict], tests: T.List[dict], benches: T.List[dict], layout: str) -> dict:
    """-> {'all': [...], 'test': [...], 'bench': [...], 'install': [(outs, ins, rule)…], 'bbd_ids': [...], 'testlike': [...]}
    or {'err': …}"""
    from mesonbuild import mlog
    try:
        with mlog.no_logging():
            be, objs = _mk_backend(rows, tests, benches, layout)
            bbd = list(be.get_build_by_default_targets().keys())
            tl = [objs.index(t) for t in be.get_testlike_targets()]
            bl = [objs.index(t) for t in be.get_testlike_targets(True)]
            be.generate_ending()
            stm = {}
            for el in be.written:
                for o in el.outfilenames:
                    stm[o] = el
            be.written = []
            be.generate_install()
            inst = [(list(el.outfilenames), list(el.infilenames) + sorted(el.deps) + sorted(el.orderdeps), el.rulename)
                    for el in be.written]
            res = {'bbd_ids': bbd, 'testlike': tl, 'benchlike': bl, 'install': inst}
            for key, name in (('all', 'all'), ('test', 'meson-test-prereq'), ('bench', 'meson-benchmark-prereq')):
                el = stm.get(name)
                if el is None or el.rulename != 'phony':
                    return {'err': f'shape:no-phony-{name}'}
                res[key] = list(el.infilenames) + sorted(el.deps) + sorted(el.orderdeps)
            return res
    except Exception as e:  # noqa: BLE001 - the emitters no longer have the shape the adapter mirrors: an outcome
        return {'err': f'{type(e).__name__}:{str(e)[:80]}'}


def rand_table(rng) -> T.Tuple[T.List[dict], T.List[dict], T.List[dict], str]:
    layout = rng.choice(['mirror', 'flat'])
    n = rng.randint(0, 7)
    rows = []
    names = ['a', 'b', 'lib x.a', 'o:1', 'g.h', 'g.c', 'é', 'p$q']
    for k in range(n):
        kind = rng.choice('bbc')
        outs = [f'{rng.choice(names)}{k}'] + ([f'{rng.choice(names)}{k}_{j}' for j in range(rng.randint(0, 2))] if kind == 'c' else [])
        subdir = rng.choice(['', '', 'sub', 'sub/deep', 'subprojects/sp', 'odd dir'])
        r = {'kind': kind, 'subdir': subdir, 'dir': subdir if layout == 'mirror' else 'meson-out', 'outs': outs,
             'bbd': rng.choice([None, True, False]), 'install': rng.random() < 0.5,
             'ba': rng.choice([None, None, True, False]) if kind == 'c' else None,
             'mask': [rng.random() < 0.7 for _ in outs] if kind == 'c' else []}
        rows.append(r)

    def ref(depends=False):
        if not rows or (not depends and rng.random() < 0.25):
            return ('O', '')
        i = rng.randrange(len(rows))
        kinds = ['T', 'I'] if rows[i]['kind'] == 'c' else ['T']
        if not depends:
            kinds += ['LT'] + (['LI'] if rows[i]['kind'] == 'c' else [])
        return (rng.choice(kinds), i)

    def mk_tests():
        out = []
        for _ in range(rng.randint(0, 3)):
            deps = [ref(True) for _ in range(rng.randint(0, 2))] if rows else []
            out.append({'exe': ref(), 'args': [ref() for _ in range(rng.randint(0, 3))], 'depends': deps})
        return out
    return rows, mk_tests(), mk_tests(), layout


def run_ending_stream(ctx) -> None:
    """model vs the real get_build_by_default_targets / get_testlike_targets / generate_ending / generate_install on random
    tables; the attribute `build_by_default` of the fake targets is the documented rule (the constructors that compute it
    are tied end to end by the grid projects), so the oracle part is: what the real emitters list = what the documentation
    + the test declarations require, in order."""
    rng = ctx.rng
    n = ctx.scale(1200, 12000)
    cases = [rand_table(rng) for _ in range(n)]
    for rows, _t, _b, _l in cases:
        for r in rows:
            r['attr_bbd'] = doc_built_by_default({'fn': 'custom_target' if r['kind'] == 'c' else 'executable', 'bbd': r['bbd'],
                                                  'install': r['install'], 'build_always': r['ba']})
    reals = [real_ending(*c) for c in cases]
    ans = ctx.driver('ninja', [ending_line(c[0], c[1], c[2]) for c in cases]) if ctx.model_available else [None] * n
    for (rows, tests, benches, layout), real, a in zip(cases, reals, ans):
        ctx.count()
        case = {'rows': rows, 'tests': tests, 'benches': benches, 'layout': layout}
        if 'err' in real:
            ctx.tag('ending-stream:adapter:' + real['err'].split(':')[0])
            ctx.disagreement({'kind': 'ending-adapter', 'impl': real['err'], 'input': case})
            continue
        ctx.tag(f'ending-stream:{layout}:targets={len(rows)}')
        # oracle on the implementation (no model): every documented-default target is listed in `all` by its first output,
        # every target a test uses is listed in the prerequisite phony
        def first(i):
            return os.path.join(rows[i]['dir'], rows[i]['outs'][0])
        want_all = [first(i) for i, r in enumerate(rows) if r['attr_bbd']]
        if sorted(real['all']) != sorted(want_all):
            ctx.violation(f'ending-all:{len(rows)}', 'generate_ending does not list exactly the built-by-default targets in `all`',
                          {'ending': case, 'all': real['all'], 'expected': want_all})
        for key, ts in (('test', tests), ('bench', benches)):
            want = {first(r[1]) for t in ts for r in [t['exe']] + t['args'] + t['depends'] if r[0] != 'O'}
            if set(real[key]) != want:
                ctx.violation(f'ending-{key}:{len(rows)}', f'generate_ending: the {key} prerequisite phony does not list exactly the '
                              'targets the tests use', {'ending': case, 'listed': real[key], 'expected': sorted(want)})
        iins = {o: ins for outs, ins, _r in real['install'] for o in outs}
        nxt = iins.get('install', [])
        if 'all' not in nxt and not any('all' in iins.get(x, []) for x in nxt):
            ctx.violation('ending-install-all', 'the install statement does not depend on `all`', {'ending': case, 'install': real['install']})
        if a is None:
            continue
        ctx.extra['disagreements_checked'] = ctx.extra.get('disagreements_checked', 0) + 1
        m = parse_ending(a)
        if m is None:
            ctx.disagreement({'kind': 'ending-model-answer', 'model': a[:200], 'input': case})
            continue
        mi = sorted((tuple(o), tuple(sorted(i)), r) for o, i, r in m['install'])
        ri = sorted((tuple(o), tuple(sorted(i)), r) for o, i, r in real['install'])
        if m['all'] != real['all'] or m['test'] != real['test'] or m['bench'] != real['bench'] or mi != ri \
                or m['bbd'] != ''.join(str(int(r['attr_bbd'])) for r in rows):
            ctx.disagreement({'kind': 'ending', 'model': {k: m[k] for k in ('bbd', 'all', 'test', 'bench', 'install')},
                              'impl': {k: real[k] for k in ('all', 'test', 'bench', 'install')}, 'input': case})
        ctx.seen_nontrivial(('ending', layout, len(rows), len(tests), len(benches)))
