"""C06 — Configuration is deterministic and does not disturb unchanged outputs.

Three layers (DESIGN.md §4 C06):
  1. Lean theorems over the modelled emitters (permutation / fresh-id invariance, replace_if_different,
     no-change reconfigure) — MesonModel/Props/C06.lean.
  2. In-process tie: the real emitters run in subprocesses under several PYTHONHASHSEED values
     (harness/c06_worker.py) with their unordered inputs inserted in permuted orders; every answer is
     compared with the model (ctx.disagreement) and, independently of the model, all answers of one group
     (same content, different seed / insertion order) must be equal (ctx.violation).
  3. Whole system: fixed projects (harness/c06_projects) and random ones (harness/projgen.py) are configured
     with the real `meson setup` under varied hash seeds, environment order, directory-listing order and
     build-directory histories; the generated text is byte-compared and mtimes are compared over a
     no-change reconfigure (harness/c06_sys.py).
"""
from __future__ import annotations

import collections
import json
import os
import re
import subprocess
import sys
import typing as T
from concurrent.futures import ThreadPoolExecutor

from . import common, c06_sys as S
from .common import Ctx

ID = 'C06'
LEVEL = 'other'
LEAN_TARGETS = ['MesonModel.Props.C06']
AREAS = ['det']
PINS = [
    'mesonbuild.backend.ninjabackend:ninja_quote',
    'mesonbuild.backend.ninjabackend:NinjaBuildElement.write',
    'mesonbuild.backend.ninjabackend:NinjaBuildElement.add_dep',
    'mesonbuild.backend.ninjabackend:NinjaBuildElement.add_orderdep',
    'mesonbuild.backend.ninjabackend:NinjaBuild.write',
    'mesonbuild.backend.ninjabackend:NinjaBackend.generate',
    'mesonbuild.backend.backends:Backend.get_target_deps',
    'mesonbuild.utils.core:EnvironmentVariables.hash',
    'mesonbuild.backend.backends:Backend.get_executable_serialisation',
    'mesonbuild.backend.backends:Backend.create_test_serialisation',
    'mesonbuild.backend.backends:Backend.generate_depmf_install',
    'mesonbuild.utils.universal:_dump_c_header',
    'mesonbuild.utils.universal:dump_conf_header',
    'mesonbuild.utils.universal:replace_if_different',
    'mesonbuild.utils.universal:do_conf_file',
    'mesonbuild.options:OptionKey.__lt__',
    'mesonbuild.options:OptionKey.__str__',
    'mesonbuild.options:OptionKey._to_tuple',
    'mesonbuild.coredata:CoreData.process_compiler_options',
    'mesonbuild.mintro:_list_buildoptions',
    'mesonbuild.mintro:get_test_list',
    'mesonbuild.mintro:list_targets',
    'mesonbuild.mintro:list_deps',
    'mesonbuild.mintro:list_installed',
    'mesonbuild.mintro:list_install_plan',
    'mesonbuild.mintro:write_intro_info',
    'mesonbuild.dependencies.base:Dependency.__init__',
    'mesonbuild.depfile:DepFile.get_all_dependencies',
    'mesonbuild.build:BuildTarget.rpaths_for_non_system_absolute_shared_libraries',
    'mesonbuild.build:BuildTarget.determine_rpath_dirs',
    'mesonbuild.build:BuildTarget.get_external_rpath_dirs',
    'mesonbuild.build:BuildTarget.get_rpath_dirs_from_link_args',
    'mesonbuild.build:BuildTarget.get_link_dep_subdirs',
    'mesonbuild.build:BuildTarget.get_all_link_deps',
    'mesonbuild.build:BuildTarget.get_dependencies',
    'mesonbuild.linkers.linkers:GnuLikeDynamicLinkerMixin.build_rpath_args',
    'mesonbuild.dependencies.pkgconfig:PkgConfigDependency._search_libs',
    'mesonbuild.dependencies.pkgconfig:PkgConfigDependency._set_libs',
    'mesonbuild.backend.ninjabackend:NinjaBackend.generate_link',
    'mesonbuild.backend.ninjabackend:NinjaBackend.guess_external_link_dependencies',
    'mesonbuild.interpreter.interpreter:Interpreter.add_build_def_file',
    'mesonbuild.interpreter.interpreter:Interpreter.func_configure_file',
    'mesonbuild.interpreter.interpreter:Interpreter.run_command_impl',
    'mesonbuild.interpreter.interpreter:Interpreter.get_build_def_files',
    'mesonbuild.backend.backends:Backend.get_regen_filelist',
    'mesonbuild.modules.pkgconfig:DependenciesHelper',
    'mesonbuild.modules.pkgconfig:PkgConfigModule.generate',
    'mesonbuild.modules.cmake:CmakeModule.configure_package_config_file',
    'mesonbuild.modules.cmake:CmakeModule.write_basic_package_version_file',
    'mesonbuild.modules.keyval:KeyvalModule.load',
    'mesonbuild.modules.sourceset:SourceSetImpl.apply_method',
    'mesonbuild.modules.python:PythonInstallation.install_sources_method',
    'mesonbuild.mintro:list_buildsystem_files',
    'mesonbuild.dependencies.detect:get_dep_identifier',
    'mesonbuild.build:GeneratedList',
    'mesonbuild.build:BuildTarget.get_used_stdlib_args',
    'mesonbuild.backend.ninjabackend:NinjaBackend.generate_dependency_scan_target',
    'mesonbuild.utils.core:EnvironmentVariables.get_env',
    'mesonbuild.compilers.compilers:CompileResult',
    'mesonbuild.compilers.compilers:RunResult',
    'mesonbuild.compilers.compilers:Compiler.cached_compile',
    'mesonbuild.compilers.compilers:Compiler.compile',
    'mesonbuild.compilers.compilers:Compiler.cached_run',
    'mesonbuild.compilers.mixins.gnu:GnuCompiler.has_arguments',
    'mesonbuild.coredata:CoreData.__init__',
    'mesonbuild.coredata:CoreData.clear_cache',
    'mesonbuild.coredata:save',
    'mesonbuild.coredata:load',
    'mesonbuild.depfile:DepFile.__init__',
    'mesonbuild.modules.pkgconfig:PkgConfigModule._generate_pkgconfig_file',
    'mesonbuild.environment:_get_env_var',
    'mesonbuild.environment:Environment._set_default_options_from_env',
    'mesonbuild.environment:Environment.add_lang_args',
    'mesonbuild.options:UserArrayOption.extend_value',
]
TRUSTED = [
    'SHA-1 is an opaque function in the model (wrapperName is parametric in it)',
    'fake ninja (harness/c06_fakebin/ninja): compile_commands.json is whatever `ninja -t compdb` prints, i.e. empty here; '
    'it is byte-compared but carries no information beyond build.ninja',
    'directory-listing order is varied by a sitecustomize shim that permutes os.listdir/os.scandir results in the '
    'meson process (ext4 lists by name hash, creation order alone would not vary it)',
    'held fixed, not modelled: compiler/tool detection output, wall-clock strings; absolute paths: all runs of one '
    'history share one scratch location; the placement of the build directory (sibling / below the source dir / below a '
    'subdirectory of it / source reached through a symlinked path), the spelling of both directories (relative, absolute, '
    'trailing slash) and the working directory (root, source dir, build dir, elsewhere) are varied; results are compared '
    'within one placement (byte for byte after substituting the scratch root), not across placements (relative paths '
    'between the two directories legitimately differ)',
    'mtime oracle reads "configure-time output" as: configure_file outputs (incl. cmake package files), pkg-config '
    'files, depmf.json, meson-info/intro-*.json, compile_commands.json; build.ninja is only required to keep its '
    'content (ninja needs it newer than its inputs); files written by a user command of configure_file(command:) '
    'without capture are excluded (the user program, not meson, writes them)',
    'nasm-format descriptions without line-break characters; no lone surrogates in generated strings',
]



def user_command_outputs(texts: T.Iterable[str]) -> T.Set[str]:
    """basenames of outputs written directly by a user program: configure_file(command: …) without capture"""
    out: T.Set[str] = set()
    for t in texts:
        for m in re.finditer(r'configure_file\s*\(([^()]*(?:\([^()]*\)[^()]*)*)\)', t):
            args = m.group(1)
            if re.search(r'\bcommand\s*:', args) and not re.search(r'\bcapture\s*:\s*true', args):
                mo = re.search(r"output\s*:\s*'([^']*)'", args)
                if mo:
                    out.add(mo.group(1))
    return out


def project_texts(src: str) -> T.List[str]:
    res = []
    for r, _d, fs in os.walk(src):
        for f in fs:
            if f == 'meson.build':
                res.append(open(os.path.join(r, f), encoding='utf-8').read())
    return res

# ---------------------------------------------------------------------------------- generators

ALPHA = list('abcxyzABZ019') + list(' $:\\/._-') + ['é', '中', '\U0001F600', '~', '{', '\t']


def rstr(rng, maxlen=6, nl=0.01) -> str:
    n = rng.randint(0, maxlen)
    s = ''.join(rng.choice(ALPHA) for _ in range(n))
    if rng.random() < nl:
        s += '\n' + rng.choice(ALPHA)
    return s


def fixl(l: T.List[str]) -> T.List[str]:
    """the driver protocol cannot tell [] from ['']: never generate the singleton ['']"""
    return [] if l == [''] else l


def distinct(rng, n, gen) -> T.List[str]:
    out: T.List[str] = []
    for _ in range(n * 4):
        if len(out) >= n:
            break
        s = gen()
        if s not in out:
            out.append(s)
    return fixl(out)


def perms(rng, items: list, k: int) -> T.List[list]:
    """the given order, its reverse, then random shuffles"""
    res = [list(items), list(reversed(items))]
    while len(res) < k:
        x = list(items)
        rng.shuffle(x)
        res.append(x)
    return res[:k]


CORPUS_SORT = [
    ['b', 'a'], ['a', 'A', 'B', 'b'], ['', 'a', ' '], ['ab', 'a', 'abc', 'b'], ['é', 'e', 'f', 'z', '中'],
    ['10', '9', '1'], ['a-b', 'a_b', 'a.b', 'a/b', 'a b'], ['\U0001F600', '￿', 'z'], ['lib/x.so', 'lib/x.so.1', 'lib/x'],
]

OPT_NAMES = ['b_lto', 'b_pie', 'b_ndebug', 'c_std', 'cpp_std', 'opt', 'a', 'z', 'buildtype', 'prefix']
OPT_SUBS = [None, None, '', 'sub', 'a', 'zz']


def base_option_names() -> T.List[str]:
    from mesonbuild import options as O
    return sorted(k.name for k in O.COMPILER_BASE_OPTIONS)


def builtin_names() -> T.List[str]:
    from mesonbuild import options as O
    return sorted(k.name for k in O.BUILTIN_OPTIONS)


def env_tables() -> T.Optional[dict]:
    """the live tables behind Environment._set_default_options_from_env; None when they no longer have the shape
    the model was written for (reported as a failed obligation by run())"""
    try:
        from mesonbuild import environment as E
        from mesonbuild.compilers import compilers as CC
        lf = [(str(k), str(v)) for k, v in CC.CFLAGS_MAPPING.items()]
        nl = [(str(v), str(k)) for v, k in E.NON_LANG_ENV_OPTIONS]
        ld, cpp = sorted(CC.LANGUAGES_USING_LDFLAGS), sorted(CC.LANGUAGES_USING_CPPFLAGS)
        if not (isinstance(CC.LANGUAGES_USING_LDFLAGS, (set, frozenset)) and isinstance(CC.LANGUAGES_USING_CPPFLAGS, (set, frozenset))):
            return None
        return {'langflags': lf, 'nonlang': nl, 'ld': ld, 'cpp': cpp}
    except Exception:
        return None


ENV_VALS = ['-DA', '-O2 -g', '', '-DA -DB -DA', "-DQ='a b'", '-I/x/y -DZ=1', '  -Wall  ', '-DE=\\"s\\"', '-L/lib -lz', '-Wl,--as-needed']
ENV_PATHS = ['/a', '/a:/b', '/a::/b:/a', '/x;/y:/x', '', ':', '/p/q:/r']
ENV_NOISE = ['HOME', 'LANG', 'XFLAGS', 'CFLAGS_EXTRA', 'MY_CPPFLAGS', 'CFLAGS_FOR_TARGET', 'PATH_EXTRA']


def gen_cases(ctx: Ctx, mult: int = 1, only: T.Optional[T.Set[str]] = None) -> T.List[dict]:
    """cases with 'id', 'kind', 'group'; all variants of a group hold the same content"""
    rng = ctx.rng
    cases: T.List[dict] = []
    gid = [0]
    V = 3

    def group(kind: str, variants: T.List[dict]) -> None:
        if only is not None and kind not in only:
            return
        gid[0] += 1
        for v in variants:
            v.update(kind=kind, group=f'{kind}:{gid[0]}', id=len(cases))
            cases.append(v)

    n = lambda q, t: ctx.scale(q, t) * mult  # noqa: E731
    # sorted(set)
    for items in CORPUS_SORT:
        group('sorted', [{'items': p} for p in perms(rng, items, V)])
    for _ in range(n(150, 1500)):
        items = distinct(rng, rng.randint(0, 7), lambda: rstr(rng, 4, 0))
        group('sorted', [{'items': p} for p in perms(rng, items, V)])
    for _ in range(n(60, 600)):
        items = fixl([rstr(rng, 3, 0) for _ in range(rng.randint(0, 7))])
        group('sortedlist', [{'items': p} for p in perms(rng, items, V)])
    for _ in range(n(150, 1500)):
        group('quote', [{'text': rstr(rng, 8, 0.08), 'build': rng.random() < 0.5}])
    # NinjaBuildElement.write
    for _ in range(n(200, 2500)):
        deps = distinct(rng, rng.randint(0, 6), lambda: rstr(rng, 5))
        od = distinct(rng, rng.randint(0, 4), lambda: rstr(rng, 5))
        ins = fixl([rstr(rng, 6) for _ in range(rng.randint(0, 3))])
        if rng.random() < 0.15:
            ins += ['long/input/file/name/%d.c' % i for i in range(20)]
        base = {'outs': fixl([rstr(rng, 5) for _ in range(rng.randint(1, 2))]),
                'imp': fixl([rstr(rng, 4) for _ in range(rng.randint(0, 2))]) if rng.random() < 0.4 else [],
                'rule': rng.choice(['phony', 'cc', 'c_COMPILER', 'CUSTOM_COMMAND']), 'rspable': rng.random() < 0.5, 'ins': ins}
        group('buildline', [dict(base, deps=pd, orderdeps=po)
                            for pd, po in zip(perms(rng, deps, V), perms(rng, od, V))])
    # EnvironmentVariables.hash: operations are an ordered list (program order); unset_vars is a set
    for _ in range(n(100, 1200)):
        keys = distinct(rng, rng.randint(0, 4), lambda: rstr(rng, 4, 0) or 'K')
        ops = [[rng.choice(['set', 'append', 'prepend']), k, rstr(rng, 4, 0)] for k in keys for _r in range(rng.choice([1, 1, 2]))]
        unset = [u for u in distinct(rng, rng.randint(0, 5), lambda: 'U' + rstr(rng, 3, 0).replace(' ', '_')) if u not in keys]
        group('envhash', [{'ops': ops, 'unset': p} for p in perms(rng, unset, V)])
    # _dump_c_header
    for _ in range(n(150, 2000)):
        keys = distinct(rng, rng.randint(0, 6), lambda: rstr(rng, 5, 0.02))
        ents = []
        for k in keys:
            kind = rng.choice([0, 1, 2, 2, 3, 3, 3, 4] if rng.random() < 0.12 else [0, 1, 2, 3, 3])
            v = str(rng.choice([0, 1, -5, 42, 10**25, -10**20])) if kind == 2 else rstr(rng, 6, 0.05)
            d = '' if rng.random() < 0.6 else (rstr(rng, 8, 0).replace('\t', ' ') or 'd')
            ents.append([k, kind, v, d])
        base = {'nasm': rng.random() < 0.4, 'macro': rng.choice(['', '', 'GUARD_H', 'X'])}
        group('cheader', [dict(base, entries=p) for p in perms(rng, ents, V)])
    # OptionKey ordering
    for _ in range(n(150, 2000)):
        keys = []
        for _ in range(rng.randint(0, 7)):
            k = [rng.choice(OPT_NAMES), rng.choice(OPT_SUBS), rng.randint(0, 1)]
            if k not in keys:
                keys.append(k)
        group('optsort', [{'keys': p} for p in perms(rng, keys, V)])
        if rng.random() < 0.3:
            group('optstr', [{'keys': keys}])
    # configure + introspect the option store
    bnames = base_option_names()
    builtins = [b for b in builtin_names() if '.' not in b]
    for _ in range(n(60, 800)):
        store = []
        for nm in rng.sample(builtins, rng.randint(0, 6)):
            store.append(['builtin', [nm, None, 1]])
        if rng.random() < 0.5:
            store.append(['backend', ['backend_max_links', None, 1]])
        for nm in rng.sample(['c_std', 'cpp_std', 'cpp_eh', 'c_winlibs'], rng.randint(0, 3)):
            for m in rng.sample([0, 1], rng.randint(1, 2)):
                store.append(['compiler', [nm, None, m]])
        for nm in rng.sample(['zopt', 'aopt', 'mopt', 'feature'], rng.randint(0, 3)):
            store.append(['project', [nm, rng.choice(['', 'sub', 'asub']), 1]])
        rng.shuffle(store)
        for nm in rng.sample(bnames, rng.randint(0, 2)):      # a base option that is already in the store
            store.append(['base', [nm, None, 1]])
        base = [[nm, None, 1] for nm in rng.sample(bnames, rng.randint(0, min(8, len(bnames))))]
        group('buildopts', [{'store': store, 'base': p} for p in perms(rng, base, V)])
    for _ in range(n(80, 800)):
        ids = distinct(rng, rng.randint(0, 5), lambda: (rstr(rng, 5, 0) or 't') + rng.choice(['@exe', '@sta', '@cus']))
        dirs = distinct(rng, rng.randint(0, 4), lambda: rstr(rng, 4, 0).replace(':', '_') or 'd')
        deps = [[i, rng.sample(dirs, rng.randint(0, len(dirs)))] for i in ids]
        group('testser', [{'deps': pd, 'libdirs': pl} for pd, pl in zip(perms(rng, deps, V), perms(rng, dirs, V))])
    for _ in range(n(40, 300)):
        group('depnames', [{'deps': [rng.choice([None, 'zlib', 'threads', rstr(rng, 4, 0) or 'n']) for _ in range(rng.randint(0, 4))]}])
    for _ in range(n(60, 600)):
        fl = distinct(rng, rng.randint(0, 5), lambda: rstr(rng, 4, 0))
        dl = distinct(rng, rng.randint(0, 4), lambda: rstr(rng, 4, 0))
        group('excludes', [{'files': pf, 'dirs': pd} for pf, pd in zip(perms(rng, fl, V), perms(rng, dl, V))])
    # DepFile.get_all_dependencies: a dependency graph as make rules; variants permute rules and deps
    names = ['out', 'd1', 'd2', 'd3', 'd4', 't1', 't2', 't3', 'u1', 'u2', 'v1', 'x y', 'é', 'Z']
    for _ in range(n(150, 1500)):
        nodes = rng.sample(names, rng.randint(2, 9))
        rules = []
        for _r in range(rng.randint(0, 6)):
            tg = rng.sample(nodes, rng.randint(1, 2))
            dp = [rng.choice(nodes) for _ in range(rng.randint(0, 4))]
            rules.append((tg, dp))
        name = rng.choice(nodes + ['missing'])

        def render(rs):
            return [' '.join(x.replace(' ', '\\ ') for x in tg) + ': ' + ' '.join(x.replace(' ', '\\ ') for x in dp) + '\n'
                    for tg, dp in rs]
        variants = []
        for pr in perms(rng, rules, V):
            pr = [(tg, rng.sample(dp, len(dp))) for tg, dp in pr]
            variants.append({'lines': render(pr), 'name': name})
        group('depfile', variants)
    # pkg-config Requires lines: packages carrying several version constraints (a set per package)
    pk = ['libzeta', 'libalpha', 'mid', 'glib-2.0', 'x']
    vpool = ['>=1.2', '<2.0', '!=1.5', '=3', '==4', '>0', '<=9', '1.0', '>= 1.2']
    for _ in range(n(120, 1200)):
        reqs = rng.sample(pk, rng.randint(1, 4))
        vr = [[nm, rng.sample(vpool, rng.randint(0, 4))] for nm in rng.sample(pk, rng.randint(0, 4))]
        variants = []
        for _v in range(V):
            variants.append({'reqs': reqs, 'vreqs': [[nm, rng.sample(vs, len(vs))] for nm, vs in vr]})
        group('formatreqs', variants)
    # dependency cache key (list-valued keyword) and GeneratedList.depends -> intro-targets.json depends
    for _ in range(n(60, 600)):
        items = [rng.choice(['mod_z', 'mod_a', 'mod_m', 'b', 'é', 'x y']) for _ in range(rng.randint(0, 5))]
        group('depid', [{'items': p} for p in perms(rng, items, V)])
        tg = distinct(rng, rng.randint(0, 5), lambda: (rstr(rng, 4, 0) or 't') + '@cus')
        group('genlistdeps', [{'items': tg + tg[:1]}])
    # cached compiler-check results: pickle round trip + the stderr-reading verdict of GNU-like compilers
    notes = ["cc1: warning: command-line option '-Wx' is valid for C++/ObjC++ but not for C\n",
             "cc1plus: warning: command-line option '-Wx' is valid for C/ObjC but not for C++\n",
             "warning: unrecognized command-line option '-Wno-x'\n", '', 'note: is valid for', 'is valid for C/ObjC', 'x.c:1: warning: y\n']
    for _ in range(n(60, 600)):
        err = ''.join(rng.choice(notes) if rng.random() < 0.7 else rstr(rng, 6, 0.2) for _ in range(rng.randint(0, 3)))
        group('gnuarg', [{'is_c': rng.random() < 0.5, 'rc': rng.choice([0, 0, 0, 1, 4]), 'stdout': rstr(rng, 5, 0.2), 'stderr': err}])
    # environment variables -> option values -> compiler / linker arguments: the same variables in permuted
    # enumeration orders (and, across workers, under different hash seeds: two of the tables are sets)
    tabs = env_tables()
    if tabs is not None:
        allvars = [v for _k, v in tabs['langflags']] + [v for v, _k in tabs['nonlang']]
        pathvars = {v for v, k in tabs['nonlang'] if k.endswith('_path')}
        langs = [k for k, _v in tabs['langflags']]
        for _ in range(n(70, 700)):
            cross = rng.random() < 0.4
            names = rng.sample(allvars, rng.randint(1, min(7, len(allvars))))
            if rng.random() < 0.8:      # the pair whose relative order is fixed by the table, not by the environment
                names = list(dict.fromkeys(names + rng.sample(['CFLAGS', 'CXXFLAGS', 'CPPFLAGS', 'LDFLAGS'], rng.randint(2, 4))))
            env = []
            for nm in names:
                pool = ENV_PATHS if nm in pathvars else ENV_VALS
                which = rng.choice(['plain', 'plain', 'build', 'both']) if cross else rng.choice(['plain', 'plain', 'plain', 'both'])
                if which in ('plain', 'both'):
                    env.append([nm, rng.choice(pool)])
                if which in ('build', 'both'):
                    env.append([nm + '_FOR_BUILD', rng.choice(pool)])
            for nm in rng.sample(ENV_NOISE, rng.randint(0, 3)):
                env.append([nm, rng.choice(ENV_VALS)])
            rng.shuffle(env)
            options = [o for o in [[0, 'pkg_config_path'], [1, 'pkg_config_path'], [1, 'cmake_prefix_path'], [1, 'c_args'], [1, 'buildtype']]
                       if rng.random() < 0.2]
            queries = []
            for lang in rng.sample(langs, rng.randint(1, min(4, len(langs)))):
                for m in rng.sample([0, 1], rng.randint(1, 2)):
                    pa = rng.choice([None, None, None, ['-DPEND'], []])
                    pl = rng.choice([None, None, None, ['-lpend', '-lq']])
                    queries.append([lang, m, rng.random() < 0.75, pa, pl])
            base = {'cross': cross, 'first': rng.random() < 0.9, 'win': [rng.random() < 0.15, rng.random() < 0.15],
                    'options': options, 'queries': queries}
            group('envargs', [dict(base, env=p) for p in perms(rng, env, V)])
    # two more emitters that sort a set before printing: install-plan build_rpaths, the depaccumulate statement
    for _ in range(n(60, 600)):
        items = distinct(rng, rng.randint(0, 6), lambda: '/' + rstr(rng, 5, 0))
        group('buildrpaths', [{'items': p} for p in perms(rng, items, V)])
    pool = ['liba', 'libb', 'sub/libc', 'x y', 'é', 'mod:1', 'z$', 'lib/d.so.p', 'M']
    for _ in range(n(60, 600)):
        linked = [[nm, rng.random() < 0.8] for nm in rng.sample(pool, rng.randint(0, 5))]
        od = [[nm, rng.random() < 0.7] for nm in rng.sample(pool, rng.randint(0, 4))]
        name = rng.choice(['tgt', 'a b', 't:1'])
        group('depacc', [{'name': name, 'linked': pl_, 'od': po} for pl_, po in zip(perms(rng, linked, V), perms(rng, od, V))])
    # writers on a real directory
    for _ in range(n(120, 1500)):
        fam_b = rng.sample([0, 1, 2, 3], rng.randint(0, 2))
        ops = []
        for _o in range(rng.randint(1, 9)):
            i = rng.randint(0, 3)
            k = rng.choice('wrrxxttt' if i not in fam_b else 'wrrxx')
            ops.append([k, i, rng.randint(0, 2)] + ([rng.randint(0, 3)] if k == 't' else []))
        group('fs', [{'ops': ops, 'fam_b': fam_b, 'via_header': rng.random() < 0.5}])
    return cases


# ---------------------------------------------------------------------------------- in-process layer

def run_worker(cases: T.List[dict], hashseed: str) -> T.List[dict]:
    env = dict(os.environ)
    env['PYTHONHASHSEED'] = hashseed
    env['PYTHONDONTWRITEBYTECODE'] = '1'
    env['VERIF_REPO'] = common.REPO
    p = subprocess.run([sys.executable, os.path.join(S.HERE, 'c06_worker.py')], input=json.dumps(cases).encode(),
                       env=env, stdout=subprocess.PIPE, stderr=subprocess.PIPE, timeout=1500)
    if p.returncode != 0:
        raise common.ToolFailure(f'c06 worker (seed {hashseed}) exited {p.returncode}: {p.stderr[-800:]!r}')
    return json.loads(p.stdout)


# the unordered-input findings, keyed like the whole-system diffs of the same defect
KEY_BUILDOPTS = 'intro-buildoptions.json:$[*]:order'
KEY_TESTDEPS = 'intro-tests.json:$[*].depends[*]:order'
KEY_LDPATH = 'intro-tests.json:$[*].env.LD_LIBRARY_PATH:value'
KEY_DEPID = 'intro-targets.json:$[*].dependencies[*]:value'
KEY_EXCL_FILES = 'intro-install_plan.json:$.install_subdirs.*.exclude_files[*]:order'
KEY_EXCL_DIRS = 'intro-install_plan.json:$.install_subdirs.*.exclude_dirs[*]:order'


def strip_case(c: dict) -> dict:
    return {k: v for k, v in c.items() if k not in ('id',)}


def oracle_inproc(ctx: Ctx, cases: T.List[dict], results: T.Dict[str, T.List[dict]]) -> None:
    """property predicates on implementation answers only (no model):
       * all members of a group (same content; different hash seed / insertion order) give the same output
       * replace_if_different keeps an unchanged file untouched; writers write what they are asked to"""
    groups: T.Dict[str, T.List[T.Tuple[str, dict, T.Any]]] = collections.defaultdict(list)
    for seed, res in results.items():
        for c, r in zip(cases, res):
            if r['impl'].startswith('EXC:'):
                ctx.violation(f'emitter:{c["kind"]}:exception', f'emitter raised {r["impl"][:120]}',
                              {'type': 'inproc', 'cases': [strip_case(c)], 'seeds': [seed]})
                continue
            if c['kind'] in ('quote', 'optstr'):
                continue  # tie only: no unordered input
            if c['kind'] == 'depnames':
                if r['out']['first'] != r['out']['again']:
                    ctx.violation(KEY_DEPID, 'the same dependency list gets different names in two constructions '
                                  '(Dependency.__init__ mints dep<uuid4>)',
                                  {'type': 'inproc', 'cases': [strip_case(c)], 'seeds': [seed]})
                continue
            if c['kind'] == 'gnuarg':
                if not r['out']['same_fields'] or r['out']['fresh'] != r['out']['cached']:
                    ctx.violation('cache:compile-result:pickle-roundtrip', 'a compiler-check result read back from the pickled cache '
                                  'differs from the fresh one (fields or has_arguments verdict): ' + json.dumps(r['out']),
                                  {'type': 'inproc', 'cases': [strip_case(c)], 'seeds': [seed]})
                continue
            if c['kind'] == 'fs':
                for o in r['out']:
                    bad = fs_oracle(o)
                    if bad:
                        ctx.violation('writer:' + bad[0], bad[1], {'type': 'inproc', 'cases': [strip_case(c)], 'seeds': [seed]})
                continue
            groups[c['group']].append((seed, c, r['out']))
    for g, members in groups.items():
        ctx.count(len(members))
        first = members[0]
        kind = first[1]['kind']
        for m in members[1:]:
            if m[2] == first[2]:
                continue
            case = {'type': 'inproc', 'cases': [strip_case(first[1]), strip_case(m[1])], 'seeds': [first[0], m[0]],
                    'outputs': [first[2], m[2]]}
            if kind in ('buildopts', 'optsort'):
                ctx.violation(KEY_BUILDOPTS, 'option rows depend on set iteration / insertion order '
                              '(sorted() with OptionKey.__lt__ does not order keys without subproject)', case)
            elif kind == 'testser':
                if m[2][0] != first[2][0]:
                    ctx.violation(KEY_TESTDEPS, 'test `depends` follows set iteration order', case)
                if m[2][1] != first[2][1]:
                    ctx.violation(KEY_LDPATH, 'LD_LIBRARY_PATH of a test follows set iteration order', case)
            elif kind == 'excludes':
                if m[2][1] != first[2][1]:
                    ctx.violation(KEY_EXCL_FILES, 'list(exclude_files set) follows hash order', case)
                if m[2][0] != first[2][0]:
                    ctx.violation(KEY_EXCL_DIRS, 'list(exclude_dirs set) follows hash order', case)
            else:
                ctx.violation(f'emitter:{kind}:order-dependent',
                              f'{kind}: same content, different hash seed / insertion order, different output', case)
            break


def fs_oracle(o: dict) -> T.Optional[T.Tuple[str, str]]:
    if not o['real_writer']:
        return None
    p, c = o['path'], o['content']
    if o['after'].get(p) != c:
        return ('content', f'after {o["op"]} the file holds {o["after"].get(p)!r}, not {c!r}')
    for q, v in o['after'].items():
        if q != p and (q not in o['before'] or o['before'][q] != v):
            return ('stray-file', f'{o["op"]} on {p} created or changed {q}')
    for q in o['before']:
        if q not in o['after']:
            return ('lost-file', f'{o["op"]} on {p} removed {q}')
    for q in o['touched']:
        if q != p:
            return ('touched-other', f'{o["op"]} on {p} touched {q}')
    if o['op'] == 'r' and o['before'].get(p) == c and p in o['touched']:
        return ('replace_if_different:touched-unchanged', 'replace_if_different touched a file whose content is unchanged')
    if o['op'] == 'r' and o['before'].get(p) != c and p not in o['touched']:
        return ('replace_if_different:stale', 'replace_if_different did not install different content')
    if o['op'] == 't':
        same_content = o['before'].get(p) == c
        # "nothing changed" means the template's permission bits are also the ones the output already carries
        same_inputs = same_content and o['mode_before'].get(p) == o['tmode']
        if same_inputs and p in o['touched']:
            return ('do_conf_file:touched-unchanged', 'do_conf_file rewrote an output whose content and mode are unchanged '
                    f'(template mode {oct(o["tmode"])})')
        if same_inputs and o['mode_after'].get(p) != o['mode_before'].get(p):
            return ('do_conf_file:mode-changed', 'do_conf_file changed the mode of an unchanged output')
        if not same_content and (p not in o['touched'] or o['mode_after'].get(p) != o['tmode']):
            return ('do_conf_file:stale', 'do_conf_file did not install new content with the template mode')
    for q in o['mode_before']:
        if q != p and o['mode_after'].get(q) != o['mode_before'][q]:
            return ('mode-other', f'{o["op"]} on {p} changed the mode of {q}')
    return None


def inproc_layer(ctx: Ctx, cases: T.List[dict], seeds: T.List[str], compare_model: bool = True) -> None:
    with ThreadPoolExecutor(len(seeds)) as ex:
        results = dict(zip(seeds, ex.map(lambda s: run_worker(cases, s), seeds)))
    oracle_inproc(ctx, cases, results)
    if not (compare_model and ctx.model_available):
        return
    lines: T.List[str] = []
    meta: T.List[T.Tuple[str, dict, dict]] = []
    for seed, res in results.items():
        for c, r in zip(cases, res):
            if r['line'] is None:
                continue
            lines.append(r['line'])
            meta.append((seed, c, r))
    answers = ctx.driver('det', lines)
    ctx.count(len(lines))
    for (seed, c, r), a in zip(meta, answers):
        ctx.tag('kind:' + c['kind'])
        if r['impl'].startswith('ERR:'):
            ctx.tag('error:' + r['impl'].split(':')[1])
        if a != r['impl']:
            ctx.disagreement({'kind': c['kind'], 'case': strip_case(c), 'hashseed': seed, 'impl': r['impl'][:400], 'model': a[:400]})
        nontrivial = (c['kind'] in ('sorted', 'buildline', 'envhash', 'cheader', 'optsort', 'buildopts', 'excludes', 'testser', 'depfile', 'formatreqs', 'depid', 'genlistdeps', 'envargs', 'buildrpaths', 'depacc')
                      and r['line'] != '' and len(json.dumps(strip_case(c))) > 60) or c['kind'] == 'fs'
        if nontrivial:
            ctx.seen_nontrivial((c['kind'], json.dumps(strip_case(c), sort_keys=True)))
    for (seed, c, r) in meta[::max(1, len(meta) // 6)][:6]:
        ctx.sample({'kind': c['kind'], 'hashseed': seed, 'case': strip_case(c), 'impl': r['impl'][:160]})


# ---------------------------------------------------------------------------------- whole-system layer

def gen_key(k: str) -> str:
    return k if re.fullmatch(r'[A-Za-z_][A-Za-z0-9_]*', k) else '*'


def canon(x: T.Any) -> str:
    return json.dumps(x, sort_keys=True)


def jdiff(a: T.Any, b: T.Any, path: str, out: T.Set[T.Tuple[str, str]]) -> None:
    """differences between two parsed JSON documents as (generalised path, kind); dict order counts
    (the files are compared byte for byte)"""
    if type(a) is not type(b):
        out.add((path, 'type'))
    elif isinstance(a, dict):
        if set(a) == set(b) and list(a) != list(b):
            out.add((path, 'keyorder'))
        for k in sorted(set(a) | set(b)):
            if k not in a or k not in b:
                out.add((path + '.' + gen_key(k), 'presence'))
            else:
                jdiff(a[k], b[k], path + '.' + gen_key(k), out)
    elif isinstance(a, list):
        if len(a) != len(b):
            out.add((path, 'length'))
        elif a != b and sorted(map(canon, a)) == sorted(map(canon, b)):
            out.add((path + '[*]', 'order'))
        else:
            for x, y in zip(a, b):
                jdiff(x, y, path + '[*]', out)
    elif a != b:
        out.add((path, 'value'))


def file_diff_keys(pname: str, rel: str, cls: str, a: bytes, b: bytes, history: str) -> T.List[str]:
    base = rel.rsplit('/', 1)[-1]
    suffix = '' if history == 'fresh' else ':after-' + history
    if cls == 'intro':
        try:
            out: T.Set[T.Tuple[str, str]] = set()
            jdiff(json.loads(a), json.loads(b), '$', out)
            if out:
                return [f'{base}:{p}:{k}' + (suffix if k in ('length', 'presence', 'type') else '') for p, k in sorted(out)]
        except ValueError:
            pass
        return [f'{base}:bytes']
    if cls in ('build.ninja', 'compile_commands', 'depmf'):
        return [f'{base}:content']
    return [f'{cls}:{pname}/{rel}:content']


def first_diff_line(a: bytes, b: bytes) -> str:
    la, lb = a.split(b'\n'), b.split(b'\n')
    for i, (x, y) in enumerate(zip(la, lb)):
        if x != y:
            return f'line {i + 1}: {x[:120]!r} vs {y[:120]!r}'
    return f'length {len(la)} vs {len(lb)} lines'


def fixed_steps(rng, deep: bool, history: str) -> T.List[dict]:
    """>= 4 hash seeds over fresh build dirs (environment order, creation order and listing order permuted with
    them), then a no-change reconfigure, then one more history (`history`: 'roundtrip' = option changed and
    changed back through `meson configure`, 'wipe', or 'none')"""
    r = lambda: rng.randint(2, 10**6)  # noqa: E731
    steps = [
        dict(kind='fresh', hashseed=0, envseed=0, treeseed=0, listseed='none', metaseed=0),
        dict(kind='fresh', hashseed=1, envseed=1, treeseed=1, listseed=1, metaseed=1),
        dict(kind='fresh', hashseed=2, envseed=r(), treeseed=r(), listseed=r(), metaseed=r()),
        dict(kind='fresh', hashseed=rng.randint(3, 2**32 - 1), envseed=r(), treeseed=r(), listseed=r(), metaseed=r()),
        dict(kind='reconf', hashseed=rng.randint(0, 2**32 - 1), envseed=r(), treeseed=0, listseed=r()),
    ]
    if deep:
        for _ in range(4):
            steps.insert(4, dict(kind='fresh', hashseed=rng.randint(0, 2**32 - 1), envseed=r(), treeseed=r(), listseed=r(), metaseed=r()))
        steps.append(dict(kind='reconf', hashseed=rng.randint(0, 2**32 - 1), envseed=r(), treeseed=0, listseed=r()))
    for st in steps[1:]:
        st['spell'] = rng.choice(S.SPELLINGS)
        st['cwd'] = rng.choice(S.CWDS)
    if deep or history == 'roundtrip':
        steps.append(dict(kind='roundtrip', hashseed=rng.randint(0, 2**32 - 1), envseed=r(), treeseed=0, listseed=r()))
    if deep or history == 'wipe':
        steps.append(dict(kind='wipe', hashseed='random', envseed=r(), treeseed=0, listseed=r()))
    return steps


def placement_steps(rng, deep: bool) -> T.List[dict]:
    """the history every placement of the build directory gets: fresh, no-change reconfigure, (thorough tier: wipe) —
    each spelled differently and run from a different working directory"""
    r = lambda: rng.randint(2, 10**6)  # noqa: E731
    steps = [
        dict(kind='fresh', hashseed=0, envseed=0, treeseed=0, listseed='none', metaseed=0),
        dict(kind='reconf', hashseed=rng.randint(0, 2**32 - 1), envseed=r(), treeseed=0, listseed=r()),
        dict(kind='wipe', hashseed=rng.randint(0, 2**32 - 1), envseed=r(), treeseed=0, listseed=r()),
    ]
    if not deep:
        steps.pop()
    for st in steps[1:]:
        st['spell'] = rng.choice(S.SPELLINGS)
        st['cwd'] = rng.choice(S.CWDS)
    return steps


def gen_steps(rng) -> T.List[dict]:
    r = lambda: rng.randint(2, 10**6)  # noqa: E731
    return [
        dict(kind='fresh', hashseed=0, envseed=0, treeseed=0, listseed='none', metaseed=0),
        dict(kind='fresh', hashseed=rng.randint(1, 2**32 - 1), envseed=r(), treeseed=r(), listseed=r(), metaseed=r()),
        dict(kind='fresh', hashseed=rng.randint(1, 2**32 - 1), envseed=1, treeseed=1, listseed=r(), metaseed=r()),
        dict(kind='reconf', hashseed=rng.randint(1, 2**32 - 1), envseed=r(), treeseed=0, listseed=r()),
    ]


def check_project(ctx: Ctx, pname: str, recs: T.List[dict], replay_extra: dict, user_outputs: T.Set[str]) -> None:
    """the property, stated on the snapshots of one project's runs"""
    def case(i: int, j: int, rel: str, extra: T.Optional[dict] = None) -> dict:
        c = {'type': 'system', 'project': pname, 'geom': replay_extra.get('geom', 'sibling'),
             'steps': [recs[k]['step'] for k in range(0, j + 1)], 'compare': [i, j], 'file': rel}
        c.update(replay_extra)
        c.update(extra or {})
        return c

    if recs[0]['rc'] != 0:
        raise common.ToolFailure(f'reference configuration of {pname} failed:\n{recs[0]["log"][-1500:]}')
    ref = recs[0]['snap']
    for j, r in enumerate(recs[1:], 1):
        kind = r['step']['kind']
        if r['rc'] != 0:
            ctx.violation(f'configure-fails:{kind}', f'{pname}: `{kind}` run fails although the reference configuration succeeds',
                          case(0, j, '', {'log': r['log'][-600:]}))
            continue
        sn = r['snap']
        ctx.tag('run:' + kind)
        for rel in sorted(set(ref) | set(sn)):
            a, b = ref.get(rel), sn.get(rel)
            cls = (a or b)['class']
            if cls not in S.COMPARED:
                continue
            ctx.count()
            ctx.tag('compared:' + cls)
            if a is None or b is None:
                ctx.violation(f'presence:{cls}:{pname}/{rel}' if cls == 'configure-output' else f'presence:{cls}',
                              f'{pname}: {rel} exists in only one of two configurations of the same sources', case(0, j, rel))
                continue
            if a['data'] != b['data']:
                for key in file_diff_keys(pname, rel, cls, a['data'], b['data'], kind):
                    ctx.violation(key, f'{pname}: {rel} differs between two configurations of the same sources/options '
                                  f'({recs[0]["step"]} vs {r["step"]}): {first_diff_line(a["data"], b["data"])}', case(0, j, rel))
            else:
                ctx.seen_nontrivial((pname, rel, j))
        if 'before' in r:
            bf = r['before']
            for rel, a in sorted(bf.items()):
                b = sn.get(rel)
                if b is None:
                    continue
                cls = a['class']
                if rel == 'build.ninja' and a['data'] != b['data']:
                    ctx.violation('reconfigure:build.ninja:content', f'{pname}: build.ninja content changes over a no-change reconfigure: '
                                  + first_diff_line(a['data'], b['data']), case(j, j, rel))
                if cls not in ('configure-output', 'pkgconfig', 'depmf', 'intro', 'compile_commands'):
                    continue
                if rel.rsplit('/', 1)[-1] in user_outputs:
                    continue
                if a['data'] == b['data']:
                    ctx.count()
                    if a['mode'] != b['mode']:
                        ctx.violation(f'mode:{cls}', f'{pname}: {rel} changes its permission bits ({oct(a["mode"])} -> {oct(b["mode"])}) '
                                      'over a no-change reconfigure', case(j, j, rel))
                    if a['mode'] != 0o644:
                        ctx.tag('mtime-checked-nondefault-mode:' + cls)
                    if a['mtime'] != b['mtime']:
                        ctx.tag('mtime-changed:' + cls)
                        key = f'mtime:{cls}:{pname}/{rel}' if cls == 'configure-output' else f'mtime:{cls}'
                        ctx.violation(key, f'{pname}: {rel} is rewritten (mtime {a["mtime"]} -> {b["mtime"]}) by a no-change '
                                      'reconfigure although its content is unchanged', case(j, j, rel))
                    else:
                        ctx.tag('mtime-kept:' + cls)


def run_fixed(name: str, root0: str, steps: T.List[dict], geom: str = 'sibling') -> T.List[dict]:
    root = os.path.join(root0, name + '.' + geom)
    os.makedirs(root, exist_ok=True)
    return S.run_plan(os.path.join(S.PROJECTS, name), root, steps, geom=geom)


def run_generated(idx: int, files: T.Dict[str, str], root0: str, steps: T.List[dict], geom: str = 'sibling') -> T.List[dict]:
    from . import projgen
    root = os.path.join(root0, f'g{idx:03d}.{geom}')
    proto = os.path.join(root0, f'g{idx:03d}.proto')
    os.makedirs(root, exist_ok=True)
    os.makedirs(proto, exist_ok=True)
    projgen.write_project(proto, files)
    return S.run_plan(proto, root, steps, geom=geom)


def system_layer(ctx: Ctx, root0: str) -> T.Callable[[], None]:
    """starts the runs on a thread pool; returns a function that waits for them and applies the oracle"""
    rng = ctx.rng
    jobs: T.List[T.Tuple[str, T.Any, dict]] = []
    ex = ThreadPoolExecutor(16)
    names = S.project_names()
    # quick tier: the two extra histories rotate over the projects (p07 always gets the option round trip:
    # it is the one with subprojects)
    hist = {n: 'none' for n in names}
    others = [n for n in names if not n.startswith('p07')]
    rng.shuffle(others)
    for n in others[:1]:
        hist[n] = 'roundtrip'
    for n in others[1:3]:
        hist[n] = 'wipe'
    for n in names:
        if n.startswith('p07'):
            hist[n] = 'roundtrip'
    # the projects with the most expensive configurations are started first
    for name in sorted(names, key=lambda n: not os.path.exists(os.path.join(S.PROJECTS, n, S.PLAN_FILE))):
        steps = fixed_steps(rng, ctx.deep, hist[name])
        planf = os.path.join(S.PROJECTS, name, S.PLAN_FILE)
        if not ctx.deep and os.path.exists(planf):
            keep = json.load(open(planf)).get('quick_fresh', 4)
            fresh = [s for s in steps if s['kind'] == 'fresh']
            steps = fresh[:1] + fresh[len(fresh) - (keep - 1):] + [s for s in steps if s['kind'] != 'fresh']
        # placement of the build directory: the main history runs in a placement drawn at random, and a short
        # history (fresh, reconfigure, wipe) runs in another one, so that every project meets an in-tree build
        # directory on every run; the thorough tier runs the short history in all the other placements
        geom = rng.choice(S.GEOMETRIES)
        jobs.append((name, ex.submit(run_fixed, name, root0, steps, geom), {'geom': geom}))
        others = [g for g in S.GEOMETRIES if g != geom] if ctx.deep else ['intree' if geom != 'intree' else 'sibling']
        for g in others:
            jobs.append((name, ex.submit(run_fixed, name, root0, placement_steps(rng, ctx.deep), g), {'geom': g}))
    try:
        from . import projgen
        n = ctx.scale(3, 40)
        import random
        for i in range(n):
            sub = random.Random(rng.randint(0, 2**62))
            tmp = os.path.join(root0, f'spec{i:03d}')
            os.makedirs(tmp, exist_ok=True)
            spec = projgen.gen_project(sub, tmp)
            common.rmtree(tmp)
            steps = gen_steps(rng)
            geom = rng.choice(S.GEOMETRIES)
            jobs.append((f'gen{i:03d}', ex.submit(run_generated, i, spec['files'], root0, steps, geom),
                         {'files': spec['files'], 'geom': geom}))
        ctx.notes.append(f'projgen: {n} random projects')
    except ImportError:
        ctx.notes.append('harness/projgen.py not available: fixed projects only')

    def finish() -> None:
        nproj = 0
        for name, fut, extra in jobs:
            recs = fut.result()
            if name.startswith('gen') and recs[0]['rc'] != 0:
                ctx.tag('projgen:reference-configure-failed')   # generator problem, not a C06 matter
                continue
            if name.startswith('gen'):
                uo = user_command_outputs(v for k, v in extra['files'].items() if k.endswith('meson.build'))
            else:
                uo = user_command_outputs(project_texts(os.path.join(S.PROJECTS, name)))
            check_project(ctx, name if not name.startswith('gen') else 'gen', recs, extra, uo)
            ctx.tag('placement:' + extra.get('geom', 'sibling'))
            nproj += 1
            ctx.tag('project:' + ('generated' if name.startswith('gen') else name))
        ex.shutdown()
        ctx.extra['programs'] = nproj
    return finish


# ---------------------------------------------------------------------------------- entry points

def hash_seeds(ctx: Ctx) -> T.List[str]:
    seeds = ['0', '1', '2', '3', str(ctx.rng.randint(4, 2**32 - 1))]
    if ctx.deep:
        seeds += [str(ctx.rng.randint(4, 2**32 - 1)) for _ in range(7)]
    return seeds


def run(ctx: Ctx) -> None:
    ctx.rule = ('in-process: a case is non-trivial when the unordered input has enough content to be reorderable '
                '(serialised case > 60 chars) or is a file-system trace; whole system: a (project, file, run) triple whose '
                'bytes were compared with the reference run and found equal')
    root0 = common.scratch_dir('c06-')
    try:
        finish = system_layer(ctx, root0)       # meson subprocesses run while the in-process layer works
        cases = gen_cases(ctx)
        inproc_layer(ctx, cases, hash_seeds(ctx))
        finish()
    finally:
        S.force_rmtree(root0)
    # the literal tables the Lean examples are stated on must be the live ones
    tabs = env_tables()
    if tabs is None:
        ctx.obligation_failed('env-tables', 'CFLAGS_MAPPING / NON_LANG_ENV_OPTIONS / LANGUAGES_USING_LDFLAGS / LANGUAGES_USING_CPPFLAGS no longer '
                              'have the shape the model of Environment._set_default_options_from_env was written for')
    elif ctx.model_available:
        live = '#'.join([common.enc_list([k for k, _ in tabs['langflags']]), common.enc_list([v for _, v in tabs['langflags']]),
                         common.enc_list([v for v, _ in tabs['nonlang']]), common.enc_list([k for _, k in tabs['nonlang']]),
                         common.enc_list(tabs['ld']), common.enc_list(tabs['cpp'])])
        ans = ctx.driver('det', ['envtable x'])
        if ans != [live]:
            ctx.obligation_failed('env-tables', 'the environment-variable tables of the source differ from the ones the Lean examples '
                                  f'(MesonModel.Det.liveCfg) are stated on: live {tabs}')
        bad = [k for _v, k in tabs['nonlang'] if not re.fullmatch(r'[a-z_]+', k)] + [k for k, _v in tabs['langflags'] if not re.fullmatch(r'[a-z]+', k)]
        if bad:
            ctx.obligation_failed('env-tables', f'key names that OptionKey.from_string would not read as plain names: {bad}')
    from . import c06_sites
    sites = c06_sites.scan()
    ctx.extra['unordered_sites_total'] = sites['total']
    ctx.extra['unordered_sites_driven'] = sites['driven']
    ctx.extra['unordered_sites_membership_only'] = sites['membership_only']
    ctx.extra['unordered_sites'] = [{'site': r[0], 'status': {'D': 'driven', 'U': 'not reachable', 'M': 'membership only', '?': 'not reviewed'}[r[1]],
                                     'by': r[2]} for r in sites['rows'] if r[1] != 'M']
    for r in sites['unreachable']:
        ctx.assumptions.append(f'unordered collection not driven by the corpus: {r[0]} — {r[2]}')
    for r in sites['unclassified']:
        # a place that creates an unordered collection in configure-time code and is neither in the reviewed table
        # nor driven by a corpus project: the exploration cannot vouch for it -> failed obligation (and search)
        ctx.obligation_failed('unordered-site-table', f'{r[0]} creates an unordered collection (or lists a directory / the '
                              'environment) in configure-time code; it is not in the reviewed table of harness/c06_sites.py and no '
                              'corpus project is known to drive it')
    lc = c06_sites.link_collections()
    ctx.extra['link_collections'] = lc
    ctx.extra['link_collections_total'] = len(lc)
    ctx.extra['link_collections_reached'] = sum(1 for r in lc if not r['reached_by'].startswith(('not reachable', 'NOT REVIEWED')))
    for r in lc:
        if r['reached_by'] == 'NOT REVIEWED':
            ctx.notes.append(f'ordered collection on the way to link arguments not reviewed: {r["function"]}')
            ctx.assumptions.append(f'ordered collection feeding link arguments NOT REVIEWED: {r["function"]}')
        elif r['reached_by'].startswith('not reachable'):
            ctx.assumptions.append(f'ordered collection feeding link arguments not driven: {r["function"]} — {r["reached_by"]}')
    ctx.assumptions += TRUSTED
    ctx.extra['explanation'] = (
        'Lean proves, for every input, that the modelled emitters (sorted deps/orderdeps of NinjaBuildElement.write, '
        'NinjaBuild.write, EnvironmentVariables.hash / exe-wrapper name, _dump_c_header) are invariant under permutation of '
        'their unordered inputs and minted ids, that replace_if_different keeps content and mtime of an unchanged file, and that a '
        'no-change reconfigure over the modelled writers is the identity on contents (and on mtimes of files written through '
        'replace_if_different, which since 880fde3 includes pkg-config files and depmf.json); _list_buildoptions (OptionKey.__lt__ '
        'is the strict part of a total order since 8af551c), test depends / LD_LIBRARY_PATH and install-plan excludes (sorted since '
        '41e7e99) are proved permutation invariant at full strength; for target dependency names (dep<uuid4>) and the unconditional '
        'writers (intro-*.json via os.replace, compile_commands.json in place) it proves the negation on a witness plus the partial '
        'statement. The model is tied to /repo by running the real emitters under several '
        'PYTHONHASHSEED values with permuted insertion orders and comparing every answer. That no *other* emitter leaks iteration '
        'order is not provable from a model of part of the code: it is explored by configuring fixed and random projects with '
        'the real `meson setup` under >=4 hash seeds, permuted environment, permuted directory listings, fresh / reconfigured / '
        'wiped / option-round-trip build directories and byte-comparing build.ninja, intro-*.json, configure_file outputs, .pc '
        'files, depmf.json, compile_commands.json, and comparing mtimes across a no-change reconfigure.')


def search(ctx: Ctx, disagreements: T.List[dict]) -> None:
    """a theorem / correspondence no longer checks: look for an input on which the *implementation* breaks
    the property — larger case stream for the affected emitters (all when a proof broke), more hash seeds"""
    if getattr(ctx, 'violations', None):
        # run() already holds a concrete failing input found by the oracle on the implementation: the verdict is
        # settled, a 4x stream under 12 hash seeds would only repeat it (it dominated the run time of a broken tree)
        ctx.notes.append('search skipped: the oracle of run() already produced a concrete failing input')
        return
    kinds = {d['kind'] for d in disagreements} or None
    if ctx.obligations_failed:
        kinds = None
    if any(o.startswith('unordered-site-table') for o in ctx.obligations_failed) and not ctx.deep:
        # code the exploration was not designed for: repeat the whole-system layer at thorough size
        ctx.deep = True
        root0 = common.scratch_dir('c06-')
        try:
            system_layer(ctx, root0)()
        finally:
            S.force_rmtree(root0)
    cases = gen_cases(ctx, mult=4, only=kinds)
    seeds = [str(i) for i in range(4)] + [str(ctx.rng.randint(4, 2**32 - 1)) for _ in range(8)]
    inproc_layer(ctx, cases, seeds, compare_model=False)


def replay(ctx: Ctx, rep: dict) -> None:
    case = rep.get('case', rep)
    if case.get('type') == 'inproc':
        cases = [dict(c, id=i, group=c.get('group', 'g')) for i, c in enumerate(case['cases'])]
        inproc_layer(ctx, cases, [str(s) for s in case['seeds']])
    elif case.get('type') == 'system':
        root0 = common.scratch_dir('c06-')
        try:
            if 'files' in case:
                recs = run_generated(0, case['files'], root0, case['steps'], case.get('geom', 'sibling'))
                uo = user_command_outputs(v for k, v in case['files'].items() if k.endswith('meson.build'))
            else:
                recs = run_fixed(case['project'], root0, case['steps'], case.get('geom', 'sibling'))
                uo = user_command_outputs(project_texts(os.path.join(S.PROJECTS, case['project'])))
            extra = {'geom': case.get('geom', 'sibling')}
            if 'files' in case:
                extra['files'] = case['files']
            check_project(ctx, case['project'], recs, extra, uo)
        finally:
            S.force_rmtree(root0)
    else:
        raise common.ToolFailure('unknown replay record')
