"""C01 — build definitions evaluate exactly as the language reference prescribes.

Correspondence: generated programs are parsed by the REAL parser; the real tree is (a) evaluated by the real
`Interpreter` in-process on a fresh variable table and (b) serialised to the Lean evaluator (`mvdriver-eval`);
final variables, `message()` lines, error class and line are compared.
Oracle: `harness/c01_oracle.py` — the laws of the reference as Python predicates on implementation results
(incl. subdir()/subproject() end to end through the real `meson setup --backend=none`).
"""
from __future__ import annotations

import collections
import hashlib
import multiprocessing
import os
import random
import typing as T

from . import common, c01_gen, c01_history, c01_impl, c01_oracle, c01_tables
from .common import Ctx

ID = 'C01'
LEVEL = 'proof'
LEAN_TARGETS = ['MesonModel.Props.C01']
AREAS = ['eval']
PINS = [
    'mesonbuild.interpreterbase.interpreterbase:InterpreterBase.evaluate_codeblock',
    'mesonbuild.interpreterbase.interpreterbase:InterpreterBase.evaluate_statement',
    'mesonbuild.interpreterbase.interpreterbase:InterpreterBase.evaluate_arraystatement',
    'mesonbuild.interpreterbase.interpreterbase:InterpreterBase.evaluate_dictstatement',
    'mesonbuild.interpreterbase.interpreterbase:InterpreterBase.evaluate_notstatement',
    'mesonbuild.interpreterbase.interpreterbase:InterpreterBase.evaluate_if',
    'mesonbuild.interpreterbase.interpreterbase:InterpreterBase.evaluate_comparison',
    'mesonbuild.interpreterbase.interpreterbase:InterpreterBase.evaluate_andstatement',
    'mesonbuild.interpreterbase.interpreterbase:InterpreterBase.evaluate_orstatement',
    'mesonbuild.interpreterbase.interpreterbase:InterpreterBase.evaluate_uminusstatement',
    'mesonbuild.interpreterbase.interpreterbase:InterpreterBase.evaluate_arithmeticstatement',
    'mesonbuild.interpreterbase.interpreterbase:InterpreterBase.evaluate_ternary',
    'mesonbuild.interpreterbase.interpreterbase:InterpreterBase.evaluate_fstring',
    'mesonbuild.interpreterbase.interpreterbase:InterpreterBase.evaluate_foreach',
    'mesonbuild.interpreterbase.interpreterbase:InterpreterBase.evaluate_plusassign',
    'mesonbuild.interpreterbase.interpreterbase:InterpreterBase.evaluate_indexing',
    'mesonbuild.interpreterbase.interpreterbase:InterpreterBase.function_call',
    'mesonbuild.interpreterbase.interpreterbase:InterpreterBase.method_call',
    'mesonbuild.interpreterbase.interpreterbase:InterpreterBase.reduce_arguments',
    'mesonbuild.interpreterbase.interpreterbase:InterpreterBase.expand_default_kwargs',
    'mesonbuild.interpreterbase.interpreterbase:InterpreterBase.assignment',
    'mesonbuild.interpreterbase.interpreterbase:InterpreterBase.set_variable',
    'mesonbuild.interpreterbase.interpreterbase:InterpreterBase.get_variable',
    'mesonbuild.interpreterbase.baseobjects:InterpreterObject.operator_call',
    'mesonbuild.interpreterbase.baseobjects:InterpreterObject.method_call',
    'mesonbuild.interpreterbase.baseobjects:InterpreterObject.op_equals',
    'mesonbuild.interpreterbase.baseobjects:ObjectHolder.op_equals',
    'mesonbuild.interpreterbase.baseobjects:ObjectHolder.op_not_equals',
    'mesonbuild.interpreterbase.helpers:flatten',
    'mesonbuild.interpreterbase.helpers:stringifyUserArguments',
    'mesonbuild.interpreterbase.decorators:typed_pos_args',
    'mesonbuild.interpreterbase.decorators:typed_operator',
    'mesonbuild.interpreterbase.decorators:noPosargs',
    'mesonbuild.interpreterbase.decorators:noKwargs',
    'mesonbuild.interpreter.primitives.integer:IntegerHolder',
    'mesonbuild.interpreter.primitives.boolean:BooleanHolder',
    'mesonbuild.interpreter.primitives.string:StringHolder',
    'mesonbuild.interpreter.primitives.array:ArrayHolder',
    'mesonbuild.interpreter.primitives.dict:DictHolder',
    'mesonbuild.interpreter.primitives.range:RangeHolder',
    'mesonbuild.interpreter.interpreter:Interpreter.func_message',
    'mesonbuild.interpreter.interpreter:Interpreter.func_set_variable',
    'mesonbuild.interpreter.interpreter:Interpreter.func_get_variable',
    'mesonbuild.interpreter.interpreter:Interpreter.func_is_variable',
    'mesonbuild.interpreter.interpreter:Interpreter.func_unset_variable',
    'mesonbuild.interpreter.interpreter:Interpreter.func_range',
    'mesonbuild.interpreter.interpreter:Interpreter.func_assert',
    'mesonbuild.interpreterbase.interpreterbase:InterpreterBase._evaluate_codeblock',
    'mesonbuild.interpreterbase.interpreterbase:InterpreterBase._evaluate_subdir',
    'mesonbuild.interpreterbase.interpreterbase:InterpreterBase._resolve_subdir',
    'mesonbuild.interpreter.interpreter:Interpreter.func_subdir',
    'mesonbuild.interpreter.interpreter:Interpreter.func_subdir_done',
    'mesonbuild.interpreter.interpreter:Interpreter.func_subproject',
    'mesonbuild.interpreter.interpreter:Interpreter.do_subproject',
    'mesonbuild.interpreter.interpreter:Interpreter._do_subproject_meson',
    'mesonbuild.interpreter.interpreterobjects:SubprojectHolder',
    'mesonbuild.mparser:Parser',
    'mesonbuild.mparser:StringNode',
    'mesonbuild.mparser:Lexer',
    'mesonbuild.mparser:decode_match',
    'mesonbuild.utils.universal:underscorify',
]
TRUSTED = [
    'the real mparser.Parser produces the tree both sides evaluate (parser laws are checked by the oracle only: '
    'precedence/associativity of random operator trees, rejected forms)',
    'domain: ASCII strings plus non-ASCII code points without case mapping / digit / space / line-break property; '
    'integers far below the 4300-digit str<->int limit; programs of <= 12 statements, expression depth <= 5; '
    'programs whose values grow beyond what the list-based model evaluates within 4 GiB / the time limit '
    '(CPython OverflowError/MemoryError/RecursionError, or model driver out of memory) are counted and skipped',
    'not modelled (model answers UNSUPPORTED, never compared): builtin objects (meson, *_machine), functions other than '
    'message/set_variable/get_variable/is_variable/unset_variable/range/assert/subdir/subdir_done/subproject, keyword '
    'arguments of subdir()/subproject() (if_found, required, default_options, version), wrap resolution of a subproject '
    'without a directory, paths os.path.realpath would normalise, RangeHolder / SubprojectHolder inside containers and '
    '== between two of them (object identity), str.format() of non-printable objects, int.to_string(fill: <bool>)',
    'multi-file programs: the in-process Interpreter evaluates the top-level block with evaluate_codeblock (not run()), '
    'the harness rewrites the scratch source tree and forgets directory/subproject records between programs as a new '
    '`meson setup` would; a subproject root file is modelled without its project() call; fuel 2*files+2 bounds nesting',
]

NCPU = max(1, min(16, os.cpu_count() or 1))

_IM: T.Optional[c01_impl.Impl] = None


def _init(base: str) -> None:
    global _IM
    import resource
    resource.setrlimit(resource.RLIMIT_AS, (6 << 30, 6 << 30))   # a runaway program must fail, not swap
    _IM = c01_impl.Impl(base)


def _programs(kind: str, rng: random.Random, n: int, full: bool) -> T.Iterator[T.Tuple[str, str]]:
    if kind == 'rand':
        g = c01_gen.Gen(rng)
        for _ in range(n):
            yield 'rand', g.program()
    elif kind == 'mutant':
        g = c01_gen.Gen(rng, mutant=True)
        for _ in range(n):
            yield 'mutant', g.program()
    elif kind == 'alias':
        for _ in range(n):
            yield 'alias', c01_gen.alias_program(rng)
    elif kind == 'ops':
        yield from c01_gen.operator_grid(full)
    elif kind == 'methods':
        mn = {h: sorted(c.METHODS) for h, c in c01_tables.holders()}
        yield from c01_gen.method_grid(mn, rng, 6 if full else 3)
    elif kind == 'functions':
        yield from c01_gen.function_grid(rng)
    elif kind == 'strgrid':         # exhaustive, sharded: `n` = number of shards, the shard number is the task's seed
        for i, item in enumerate(c01_gen.string_grid(full)):
            if i % max(1, n) == rng.shard:
                yield item
    elif kind == 'corpus':
        d = os.path.join(common.VERIF, 'corpus', 'C01')
        if os.path.isdir(d):
            for f in sorted(os.listdir(d)):
                if f.endswith('.meson'):
                    yield ('corpus-reject' if f.endswith('.reject.meson') else 'corpus'), open(os.path.join(d, f), encoding='utf-8').read()


def _task(t: T.Tuple[str, int, int, bool]) -> dict:
    """one chunk of work in a pool worker: generate, parse with the real parser, run the real interpreter
    (stepwise, with the immutability oracle), serialise the real tree for the model"""
    kind, seed, n, full = t
    im = _IM
    assert im is not None
    rng = random.Random(seed)
    rng.shard = seed        # type: ignore[attr-defined]
    res: dict = {'cases': [], 'viol': [], 'parse_errors': 0, 'n': 0, 'oracle_checks': 0, 'unser': 0}
    if kind.startswith('oracle:'):
        name = kind[7:]
        if name == 'short_circuit':
            v = c01_oracle.oracle_short_circuit(im, rng, n)
        elif name == 'divmod':
            v = c01_oracle.oracle_divmod(im, rng, n)
        elif name == 'cross_type':
            v = c01_oracle.oracle_cross_type(im, rng, full)
            n = 1500
        elif name == 'index':
            v = c01_oracle.oracle_index(im, rng, n)
        elif name == 'keys':
            v = c01_oracle.oracle_keys(im, rng, n)
        elif name == 'escapes':
            v = c01_oracle.oracle_escapes(im)
            v2, reached, n2 = c01_oracle.oracle_escape_product(im)
            v = v + v2
            n = 2 * len(c01_oracle.ESCAPES) + n2
            res['string_kinds'] = (sorted(c01_oracle.string_token_kinds(im)), sorted(reached))
        elif name == 'parse_laws':
            v = c01_oracle.oracle_parse_laws(im, rng, n)
        elif name == 'precedence_values':
            v = c01_oracle.oracle_precedence_values(im, rng, n)
        elif name == 'control':
            v = c01_oracle.oracle_control(im, rng, n)
        elif name == 'variables':
            v = c01_oracle.oracle_variables(im, rng, n)
        elif name == 'method_relations':
            v = c01_oracle.oracle_method_relations(im, rng, n)
            n = 8 * n
        elif name == 'substitution':
            v = c01_oracle.oracle_substitution(im, rng, n)
            n = 2 * n
        elif name == 'files':
            v = c01_oracle.oracle_files(im, rng, n, os.path.dirname(im.dir))
            n = 5 * n
        else:
            raise ValueError(name)
        res['viol'] = v
        res['oracle_checks'] = n
        return res
    if kind == 'history':       # `seed` = shard, `n` = number of shards; this worker has evaluated nothing yet (see execute)
        mn = {h: sorted(c.METHODS) for h, c in c01_tables.holders()}
        pairs = c01_history.PAIRS if full else c01_history.PAIRS[:QUICK_HISTORY_PAIRS]
        res['history_missing'] = c01_history.covered(c01_history.contexts(mn), mn)
        viol, combined, counters = c01_history.run_shard(im, mn, seed, n, pairs)
        res['viol'] = viol
        res['history'] = counters
        res['n'] = counters['combined']
        res['oracle_checks'] = counters['fresh_ok']
        for tagname, code, ans in combined:
            try:
                line = 'run ' + c01_impl.serialise(im.mparser, im.parse(code))
            except Exception:
                res['unser'] += 1
                continue
            res['cases'].append((tagname, code, line, ans))
        return res
    if kind in ('tree', 'aliasgrid'):
        mp = im.mparser
        if kind == 'aliasgrid':        # `seed` = shard, `n` = number of shards (the grid is exhaustive, not random)
            items = [(t, c, f) for i, (t, c, f) in enumerate(c01_gen.alias_grid()) if i % max(1, n) == seed]
        else:
            items = [('tree',) + c01_gen.tree_program(rng) for _ in range(n)]
        for tagname, code, files in items:
            res['n'] += 1
            try:
                ast = im.parse(code)
                fasts = {rel: im.parse(txt) for rel, txt in files.items()}
                line = c01_impl.serialise_tree(mp, ast, fasts)
            except Exception:
                res['parse_errors'] += 1
                continue
            res['viol'] += c01_oracle.check_string_nodes(im, code, ast)
            for rel, txt in files.items():
                res['viol'] += c01_oracle.check_string_nodes(im, txt, fasts[rel])
            try:
                ans, viol = c01_oracle.run_stepwise(im, code, ast, files)
            except (MemoryError, RecursionError):
                res['skipped'] = res.get('skipped', 0) + 1
                continue
            for key, what, case in viol:
                case['files'] = files
            res['viol'] += viol
            if kind == 'aliasgrid':
                res['alias_ran'] = res.get('alias_ran', 0) + 1
                res['alias_live'] = res.get('alias_live', 0) + (1 if im.saw_live_alias else 0)
            res['cases'].append((kind, code + ''.join(f'\n#--- {rel}/meson.build\n{txt}' for rel, txt in files.items()),
                                 line, ans))
        return res
    for sub, code in _programs(kind, rng, n, full):
        res['n'] += 1
        if sub == 'corpus-reject':      # a program the reference says must be rejected (at parse time or when evaluated)
            ok, _vs, ans = c01_oracle.ev(im, code)
            if ok:
                res['viol'].append((f'parse-accepts:{code!r}', 'a program the reference rejects is accepted and evaluated',
                                    {'program': code, 'answer': ans}))
            continue
        try:
            ast = im.parse(code)
        except Exception:
            res['parse_errors'] += 1
            continue
        try:
            line = 'run ' + c01_impl.serialise(im.mparser, ast)
        except c01_impl.Unserialisable:
            res['unser'] += 1
            continue
        res['viol'] += c01_oracle.check_string_nodes(im, code, ast)
        try:
            ans, viol = c01_oracle.run_stepwise(im, code, ast)
        except (MemoryError, RecursionError):   # a value too large to snapshot/print under the worker's limit
            res['skipped'] = res.get('skipped', 0) + 1
            continue
        if kind == 'alias':
            res['alias_ran'] = res.get('alias_ran', 0) + 1
            res['alias_live'] = res.get('alias_live', 0) + (1 if im.saw_live_alias else 0)
        res['snapshots'] = res.get('snapshots', 0) + len(ast.lines)
        res['viol'] += viol
        res['cases'].append((sub, code, line, ans))
    return res


QUICK_HISTORY_PAIRS = 12
HISTORY_SHARDS = 32


# every kept seeded change of this property has a minimised program of its class in the corpus (run first)
SEED_CLASSES = {
    'C01-a': 'alias_get_variable_after_plusassign.meson',
    'C01-b': 'dict_get_falsy_value.meson',
    'C01-c3': 'fstring_triple_quoted_escapes.meson',
    'C01-c4': 'nested_ternary_false_branch.reject.meson',
    'C01-c5': 'contains_array_needle.meson',
    'C01-c6': 'underscorify_non_ascii.meson',
    'C01-c7': 'array_get_lowest_negative_index.meson',
    'C01-c8': 'stringify_equal_values_other_type.meson',
    'C01-c9': 'logical_right_operand_not_bool.reject.meson',
}


def corpus_self_check() -> T.List[str]:
    out = []
    d = os.path.join(common.VERIF, 'corpus', 'C01')
    for seed, fname in SEED_CLASSES.items():
        if not os.path.isfile(os.path.join(d, fname)):
            out.append(f'no corpus program for the class of kept seed {seed} ({fname})')
    sd = os.path.join(common.VERIF, 'seeded')
    if os.path.isdir(sd):
        for name in sorted(os.listdir(sd)):
            if name.startswith('C01-') and name not in SEED_CLASSES:
                out.append(f'kept seed {name} has no corpus program registered in SEED_CLASSES')
    return out


def gen_tables(ctx: Ctx) -> None:
    im = c01_impl.Impl()
    try:
        if c01_tables.write(im.func_names, im.builtin_names):
            ctx.notes.append('Generated/EvalTables.lean rewritten from the live holder classes')
    finally:
        im.close()


def plan(ctx: Ctx) -> T.List[T.Tuple[str, int, int, bool]]:
    rng = ctx.rng
    full = ctx.deep
    tasks: T.List[T.Tuple[str, int, int, bool]] = [('corpus', 0, 0, full)] + [('aliasgrid', i, 8, full) for i in range(8)] + [
        ('ops', 0, 0, full),
        ('methods', rng.getrandbits(32), 0, full), ('functions', rng.getrandbits(32), 0, full)]
    tasks += [('history', i, HISTORY_SHARDS, full) for i in range(HISTORY_SHARDS)]
    tasks += [('strgrid', i, 8, full) for i in range(8)]
    chunk = 250
    for kind, total in (('rand', ctx.scale(9000, 40000)), ('mutant', ctx.scale(7000, 25000)),
                        ('alias', ctx.scale(3000, 10000)), ('tree', ctx.scale(2000, 10000))):
        for _ in range(total // chunk):
            tasks.append((kind, rng.getrandbits(32), chunk, full))
    for name, total, ch in (('short_circuit', ctx.scale(1500, 5000), 250), ('divmod', ctx.scale(3000, 10000), 500),
                            ('index', ctx.scale(3000, 10000), 500), ('keys', ctx.scale(1000, 3000), 250),
                            ('parse_laws', ctx.scale(4000, 12000), 500), ('precedence_values', ctx.scale(3000, 10000), 500),
                            ('control', ctx.scale(800, 2400), 200), ('variables', ctx.scale(1500, 5000), 250),
                            ('method_relations', ctx.scale(800, 3000), 100), ('substitution', ctx.scale(2000, 8000), 500)):
        for _ in range(max(1, total // ch)):
            tasks.append(('oracle:' + name, rng.getrandbits(32), ch, full))
    tasks.append(('oracle:cross_type', 0, 0, True))
    tasks.append(('oracle:escapes', 0, 0, True))
    for _ in range(ctx.scale(8, 64)):
        tasks.append(('oracle:files', rng.getrandbits(32), 1, full))
    return tasks


def execute(tasks: T.List[T.Tuple[str, int, int, bool]]) -> T.List[dict]:
    base = common.scratch_dir('mverif-c01-')
    try:
        ctxm = multiprocessing.get_context('fork')
        # the history family needs workers that have not evaluated ANY program before (its from-scratch evaluations are
        # forks of them): a second pool whose processes serve exactly one task each, forked from this process, which
        # never evaluates a program itself before this point
        hist = [t for t in tasks if t[0] == 'history']
        rest = [t for t in tasks if t[0] != 'history']
        with ctxm.Pool(NCPU, initializer=_init, initargs=(base,)) as pool:
            hres = None
            hpool = None
            if hist:
                hpool = ctxm.Pool(min(NCPU, len(hist)), initializer=_init, initargs=(base,), maxtasksperchild=1)
                hres = hpool.map_async(_task, hist, chunksize=1)
            try:
                out = pool.map(_task, rest, chunksize=1) if rest else []
                if hres is not None:
                    out += hres.get()
            finally:
                if hpool is not None:
                    hpool.terminate()
                    hpool.join()
            return out
    finally:
        common.rmtree(base)


def split_answer(a: str) -> T.Tuple[str, T.List[str]]:
    head, _, tags = a.rpartition('|')
    return head, [t for t in tags.split(',') if t]


RESOURCE_ERRORS = ('OverflowError', 'MemoryError', 'RecursionError')


def _limit() -> None:
    import resource
    resource.setrlimit(resource.RLIMIT_AS, (4 << 30, 4 << 30))


def run_model(lines: T.Sequence[str]) -> T.List[T.Optional[str]]:
    """the model driver on `lines`, in chunks under a 4 GiB address-space limit; a program on which the
    model exhausts memory/time (values that grow exponentially — a list-of-characters model is far less
    compact than CPython) is answered None and stays outside the comparison"""
    import subprocess
    drv = common.driver_path('eval')
    if not os.path.exists(drv):
        raise common.ToolFailure('driver not built: ' + drv)

    def go(part: T.Sequence[str]) -> T.List[T.Optional[str]]:
        try:
            p = subprocess.run([drv], input=('\n'.join(part) + '\n').encode(), stdout=subprocess.PIPE,
                               stderr=subprocess.PIPE, preexec_fn=_limit, timeout=60 + len(part) // 20)
            res = p.stdout.decode().split('\n')
            if res and res[-1] == '':
                res.pop()
            if p.returncode == 0 and len(res) == len(part):
                return list(res)
        except subprocess.TimeoutExpired:
            pass
        if len(part) == 1:
            return [None]
        mid = len(part) // 2
        return go(part[:mid]) + go(part[mid:])
    out: T.List[T.Optional[str]] = []
    for i in range(0, len(lines), 4000):
        out += go(lines[i:i + 4000])
    return out


def compare(ctx: Ctx, cases: T.List[T.Tuple[str, str, str, str]]) -> None:
    if not ctx.model_available or not cases:
        return
    keep = []
    for c in cases:
        if c[3].startswith('ERR:') and c[3].split(':')[1] in RESOURCE_ERRORS:
            ctx.tag('resource-limit(impl)')
        else:
            keep.append(c)
    cases = keep
    raw = run_model([c[2] for c in cases])
    answers = []
    kept = []
    for c, a in zip(cases, raw):
        if a is None:
            ctx.tag('resource-limit(model)')
        else:
            kept.append(c)
            answers.append(a)
    cases = kept
    tagsets: T.Dict[str, int] = collections.Counter()
    per_case: T.List[T.Optional[str]] = []
    for (kind, code, _line, impl), model in zip(cases, answers):
        head, tags = split_answer(model)
        status = head.split('|')[0]
        if status.startswith('ERR:UNSUPPORTED') or model == 'bad-program':
            ctx.tag('outside-model' if model != 'bad-program' else 'bad-program')
            per_case.append(None)
            if model == 'bad-program':
                ctx.disagreement({'kind': kind, 'program': code, 'impl': impl, 'model': model})
            continue
        ctx.tag('stream:' + kind.split(':')[0])
        ctx.tag('outcome:' + (status.split(':')[1] if status.startswith('ERR') else 'OK'))
        for t in tags:
            ctx.tag('model:' + t)
        key = ','.join(tags)
        tagsets[key] += 1
        per_case.append(key)
        if head != impl:
            ctx.disagreement({'kind': kind, 'program': code, 'impl': impl, 'model': head})
    if tagsets:
        top = max(tagsets, key=lambda k: tagsets[k])
        for (kind, code, _l, _i), key in zip(cases, per_case):
            if key is not None and key != top:
                ctx.seen_nontrivial(hashlib.sha1(code.encode()).hexdigest()[:16])


def coverage_report(ctx: Ctx) -> None:
    """which dispatch entries of the regenerated tables did the model exercise in this run"""
    hit = {k[6:] for k in ctx.dist if k.startswith('model:')}
    tyn = {'int': 'int', 'bool': 'bool', 'str': 'str', 'arr': 'array', 'dict': 'dict', 'range': 'range', 'subproj': 'subproject'}
    opn = {'plus': '+', 'minus': '-', 'times': '*', 'div': '/', 'mod': '%', 'uminus': 'uminus', 'not_': 'not', 'bool': 'bool()',
           'equals': '==', 'notEquals': '!=', 'greater': '>', 'less': '<', 'greaterEquals': '>=', 'lessEquals': '<=',
           'in_': 'in', 'notIn': 'not-in', 'index': '[]'}
    missing = []
    total = 0
    for h, o, _a in c01_tables.op_rows():
        total += 1
        if o in ('uminus', 'not_', 'bool'):
            ok = any(t.startswith(f'un:{opn[o]}:{tyn[h]}:ok') for t in hit)
        else:
            ok = any(t.startswith(f'op:{tyn[h]}{opn[o]}') and t.endswith(':ok') for t in hit)
        if not ok and h not in ('range', 'subproj'):
            missing.append(f'{h} {o}')
    for h, ms in c01_tables.method_rows():
        for m in ms:
            total += 1
            if f'm:{tyn[h]}.{m}:ok' not in hit:
                missing.append(f'{h}.{m}')
    ctx.extra['model_dispatch_entries'] = total
    ctx.extra['model_dispatch_entries_not_reached_ok'] = missing
    ctx.extra['model_tags_distinct'] = len(hit)


def run(ctx: Ctx) -> None:
    ctx.rule = ('streams: corpus, exhaustive operator grid (15 binary operators x all pairs of sample values of the 6 value kinds '
                'and void; unary/if/ternary/foreach/index/+= forms), method grid (every METHODS entry x pooled argument shapes), '
                'function grid, exhaustive short-string grid of the str methods / .format() / f-strings, history family (every operator / '
                'method / stringification context on equal-but-differently-typed values in both orders and through one loop node, judged '
                'against from-scratch evaluations in fresh forks), type-directed random programs, ill-typed/erroneous mutants, '
                'alias-sensitive programs. '
                'A program is non-trivial when it parses, lies inside the modelled subset and the set of model dispatch '
                'tags it exercised differs from the most common set; counted distinct by program text.')
    bad = c01_gen.check_alphabet()
    if bad:
        raise common.ToolFailure(f'inert alphabet is not inert in this CPython: {bad}')
    results = execute(plan(ctx))
    cases: T.List[T.Tuple[str, str, str, str]] = []
    alias_ran = sum(r.get('alias_ran', 0) for r in results)
    alias_live = sum(r.get('alias_live', 0) for r in results)
    snapshots = sum(r.get('snapshots', 0) for r in results)
    ctx.extra['alias_family'] = {'programs_run': alias_ran, 'programs_with_a_live_alias': alias_live,
                                 'statement_snapshots_checked': snapshots}
    # vacuity: the immutability clause is only tested where two names really share one object
    if alias_ran == 0:
        ctx.obligation_failed('alias-family', 'no alias-family program ran')
    if alias_live == 0:
        ctx.obligation_failed('alias-family', 'no alias-family program created a live alias (two names for one list/dict object)')
    if snapshots == 0:
        ctx.obligation_failed('snapshot-oracle', 'the per-statement immutability oracle was applied to no statement')
    for miss in corpus_self_check():
        ctx.obligation_failed('corpus', miss)
    # vacuity of the history family: it ran, its from-scratch evaluations were obtained, and its contexts reach
    # every operator and every METHODS entry of the live holder classes
    hist = [r for r in results if 'history' in r]
    hsum = {k: sum(r['history'].get(k, 0) for r in hist) for k in ('contexts', 'fresh_ok', 'fresh_failed', 'combined')}
    ctx.extra['history_family'] = dict(hsum, shards=len(hist))
    if not hist or hsum['combined'] == 0:
        ctx.obligation_failed('history-family', 'no program of the history family ran')
    elif hsum['fresh_ok'] == 0 or hsum['fresh_failed'] > hsum['fresh_ok'] // 10:
        ctx.obligation_failed('history-family', f'from-scratch evaluations could not be obtained: {hsum}')
    for miss in sorted({m for r in hist for m in r.get('history_missing', [])}):
        ctx.obligation_failed('history-family', f'no context of the history family exercises {miss}')
    for r in results:
        cases += r['cases']
        ctx.count(r['n'] + r['oracle_checks'])
        ctx.tag('parse-errors(generated)', r['parse_errors'])
        ctx.tag('resource-limit(harness)', r.get('skipped', 0))
        ctx.tag('oracle-checks', r['oracle_checks'])
        for key, what, case in r['viol']:
            ctx.violation(key, what, case)
        if 'string_kinds' in r:
            have, reached = r['string_kinds']
            ctx.extra['string_token_kinds'] = {'lexer': have, 'reached_by_escape_oracle': reached}
            missing = [k for k in have if k not in reached]
            if missing:
                ctx.obligation_failed('string-token-kinds', f'the lexer has string token kinds the escape oracle never produced: {missing}')
    compare(ctx, cases)
    try:
        coverage_report(ctx)
    except Exception as e:   # the tables no longer have the shape the report expects: not a verdict
        ctx.notes.append(f'coverage report skipped: {type(e).__name__}: {e}')
    ctx.extra['programs'] = len(cases)
    for c in cases[::max(1, len(cases) // 8)][:8]:
        ctx.sample({'kind': c[0], 'program': c[1], 'impl': c[3][:200]})
    ctx.assumptions += TRUSTED


# ---------------------------------------------------------------- search / replay

def one(im: c01_impl.Impl, code: str) -> T.Tuple[T.Optional[str], str, T.List[c01_oracle.Viol]]:
    """-> (model head or None, impl answer, immutability violations) for one program"""
    try:
        ast = im.parse(code)
    except Exception as e:
        return None, 'PARSE:' + type(e).__name__, []
    ans, viol = c01_oracle.run_stepwise(im, code, ast)
    try:
        line = 'run ' + c01_impl.serialise(im.mparser, ast)
        raw = run_model([line])[0]
        model = split_answer(raw)[0] if raw is not None else None
    except Exception:
        model = None
    return model, ans, viol


def shrink(im: c01_impl.Impl, code: str) -> str:
    """drop lines while model and implementation still differ"""
    def differs(c: str) -> bool:
        m, a, _ = one(im, c)
        return m is not None and not m.startswith('ERR:UNSUPPORTED') and not a.startswith('PARSE') and m != a
    lines = code.split('\n')
    changed = True
    while changed and len(lines) > 1:
        changed = False
        for i in range(len(lines)):
            cand = lines[:i] + lines[i + 1:]
            c = '\n'.join(cand)
            if c.strip() and differs(c if c.endswith('\n') else c + '\n'):
                lines = cand
                changed = True
                break
    return '\n'.join(lines)


def search(ctx: Ctx, disagreements: T.List[dict]) -> None:
    """the property's predicates on the implementation: around every program on which model and implementation
    differ (whole, shrunk, statement prefixes) and all oracle families at thorough size"""
    im = c01_impl.Impl()
    try:
        for d in disagreements[:20]:
            code = d.get('program')
            if not isinstance(code, str):
                continue
            if ctx.model_available:
                small = shrink(im, code)
                d['shrunk'] = small
            else:
                small = code
            for c in {code, small}:
                _m, _a, viol = one(im, c if c.endswith('\n') else c + '\n')
                for key, what, case in viol:
                    ctx.violation(key, what, case)
    finally:
        im.close()
    if ctx.violations:
        return  # the oracle pass of run() already produced a failing input
    rng = ctx.rng
    tasks: T.List[T.Tuple[str, int, int, bool]] = []
    for name, total, ch in (('short_circuit', 5000, 250), ('divmod', 10000, 500), ('index', 10000, 500), ('keys', 3000, 250),
                            ('parse_laws', 10000, 500), ('precedence_values', 10000, 500), ('control', 3000, 200),
                            ('variables', 5000, 250), ('method_relations', 4000, 100), ('substitution', 8000, 500)):
        for _ in range(total // ch):
            tasks.append(('oracle:' + name, rng.getrandbits(32), ch, True))
    tasks += [('oracle:cross_type', 0, 0, True), ('oracle:escapes', 0, 0, True)]
    tasks += [('oracle:files', rng.getrandbits(32), 1, True) for _ in range(64)]
    for kind in ('alias', 'rand', 'mutant'):
        for _ in range(16):
            tasks.append((kind, rng.getrandbits(32), 250, True))
    for r in execute(tasks):
        for key, what, case in r['viol']:
            ctx.violation(key, what, case)


def replay(ctx: Ctx, rep: dict) -> None:
    case = rep.get('case') or {}
    progs = []
    if isinstance(case.get('program'), str):
        progs.append(case['program'])
    for d in rep.get('correspondence_disagreements', []):
        if isinstance(d.get('program'), str):
            progs.append(d['program'])
    im = c01_impl.Impl()
    try:
        if str(rep.get('key', '')).startswith('history:'):
            # before anything else is evaluated in this process: the from-scratch halves are forks of it
            still = c01_history.recheck(im, case)
            print('program:')
            print(case.get('program'))
            print('recorded  :', rep.get('what'))
            print('still fails' if still else 'no longer fails')
            if still:
                ctx.violation(rep['key'], rep.get('what', ''), case)
            return
        for code in progs:
            model, ans, viol = one(im, code)
            print('program:')
            print(code)
            print('implementation:', ans)
            print('model         :', model)
            for key, what, c in viol:
                print('oracle        :', what, c)
                ctx.violation(key, what, c)
            if model is not None and not model.startswith('ERR:UNSUPPORTED') and not ans.startswith('PARSE') and model != ans:
                ctx.disagreement({'program': code, 'impl': ans, 'model': model})
        key = rep.get('key', '')
        if key and not key.startswith('immut:'):
            # re-run the oracle family the key belongs to on the recorded program
            fam = key.split(':')[0]
            print('oracle family:', fam, '->', rep.get('what'))
            if isinstance(case.get('program'), str):
                ok, vs, ans = c01_oracle.ev(im, case['program'])
                print('implementation now answers:', ans)
                ctx.violation(key, rep.get('what', ''), case) if _still_fails(im, rep) else None
    finally:
        im.close()


MUST_FAIL = ('cross-type', 'int-op-bool', 'bool-as-int-argument', 'div-zero', 'index-bounds', 'short-circuit-eager', 'parse-accepts',
             'fstring-undefined', 'format-out-of-range')


def _still_fails(im: c01_impl.Impl, rep: dict) -> bool:
    """re-judge a recorded oracle verdict on the implementation as it is now"""
    case = rep.get('case') or {}
    code = case.get('program')
    if not isinstance(code, str):
        return False
    fam = rep.get('key', '').split(':')[0]
    ok, vs, ans = c01_oracle.ev(im, code)
    if fam in MUST_FAIL:
        return ok                       # these programs must be rejected
    if fam in ('method', 'bool-to-string-empty', 'relation', 'relations'):
        im.record_calls = True
        try:
            c01_oracle.ev(im, code)
            viol = c01_oracle.judge_calls(im, code)
        finally:
            im.record_calls = False
        if fam in ('relation', 'relations'):
            return bool(viol) or case.get('answer') == ans
        return any(k.split(':')[0] == fam for k, _w, _c in viol)
    if fam == 'literal-value':
        try:
            return bool(c01_oracle.check_string_nodes(im, code, im.parse(code)))
        except Exception:
            return True
    if fam in ('fstring', 'format') and 'expected' in case:
        return not (ok and vs and vs.get('r') == case['expected'])
    if fam in ('escape', 'raw') and 'expected' in case:
        return not (ok and vs and vs.get('x') == case['expected'])
    if fam.startswith('container-eq'):
        return bool(ok and vs and vs.get('x') is True)
    if fam == 'dict-literal-kwargs':
        return not ok or 'kwargs' not in ((vs or {}).get('d') or {})
    if fam == 'short-circuit':
        want = ' or ' in code.split('=', 1)[1] and ' and ' not in code
        return not (ok and vs and vs.get('x') is want and not im.messages)
    if fam == 'divmod' and ok and vs:
        return vs.get('q') == case.get('q') and vs.get('r') == case.get('r')
    if 'answer' in case:
        return case['answer'] == ans    # the implementation still answers what the oracle rejected
    return True
