"""C17 — everything that touches the REAL implementation (mesonbuild.mparser / ast.printer / rewriter):
serialisation of real nodes into the driver's tree protocol, the property oracle (pure Python over real
parse results, independent of the Lean model), and the worker that runs rewriter commands on a project.
"""
from __future__ import annotations

import argparse
import contextlib
import io
import json
import os
import re
import typing as T

from . import common
from .common import enc

TARGET_FUNCS = {'executable', 'library', 'static_library', 'shared_library', 'shared_module', 'both_libraries', 'jar',
                'build_target'}


def mp():
    from mesonbuild import mparser
    return mparser


# ------------------------------------------------------------------------------------------------ serialisation

class Unsupported(Exception):
    pass


def ser(node: T.Any, erase: bool = False) -> str:
    out: T.List[str] = []
    _ser(node, out, erase)
    return ';'.join(out)


def _lvl(node: T.Any, erase: bool) -> int:
    return 0 if erase else int(getattr(node, 'level', 0))


def _ser_args(args: T.Any, out: T.List[str], erase: bool) -> None:
    for a in args.arguments:
        out.append('p')
        _ser(a, out, erase)
    for k, v in args.kwargs.items():
        out.append('k')
        _ser(k, out, erase)
        _ser(v, out, erase)


def _ser(node: T.Any, out: T.List[str], erase: bool) -> None:
    M = mp()
    L = _lvl(node, erase)
    if isinstance(node, M.BooleanNode):
        out.append(f'b:{L}:{1 if node.value else 0}')
    elif isinstance(node, M.IdNode):
        out.append(f'i:{L}:{enc(node.value)}')
    elif isinstance(node, M.NumberNode):
        out.append(f'n:{L}:{node.value}')
    elif isinstance(node, M.StringNode):
        ml = 0 if erase else int(bool(node.is_multiline))
        out.append(f's:{L}:{ml}{int(bool(node.is_fstring))}:{enc(node.value)}')
    elif isinstance(node, (M.ArrayNode, M.DictNode)):
        tag = 'A' if isinstance(node, M.ArrayNode) else 'D'
        out.append(f'{tag}:{L}:{_lvl(node.args, erase)}:{len(node.args.arguments) + len(node.args.kwargs)}')
        _ser_args(node.args, out, erase)
    elif isinstance(node, M.OrNode):
        out.append(f'O:{L}')
        _ser(node.left, out, erase)
        _ser(node.right, out, erase)
    elif isinstance(node, M.AndNode):
        out.append(f'N:{L}')
        _ser(node.left, out, erase)
        _ser(node.right, out, erase)
    elif isinstance(node, M.ComparisonNode):
        out.append(f'C:{L}:{enc(node.ctype)}')
        _ser(node.left, out, erase)
        _ser(node.right, out, erase)
    elif isinstance(node, M.ArithmeticNode):
        optext = node.operation if erase else node.operator.value
        out.append(f'R:{L}:{enc(node.operation)}:{enc(optext)}')
        _ser(node.left, out, erase)
        _ser(node.right, out, erase)
    elif isinstance(node, M.NotNode):
        out.append(f'!:{L}')
        _ser(node.value, out, erase)
    elif isinstance(node, M.UMinusNode):
        out.append(f'-:{L}')
        _ser(node.value, out, erase)
    elif isinstance(node, M.IndexNode):
        out.append(f'X:{L}')
        _ser(node.iobject, out, erase)
        _ser(node.index, out, erase)
    elif isinstance(node, M.MethodNode):
        out.append(f'M:{L}:{enc(node.name.value)}:{_lvl(node.args, erase)}:{len(node.args.arguments) + len(node.args.kwargs)}')
        _ser(node.source_object, out, erase)
        _ser_args(node.args, out, erase)
    elif isinstance(node, M.FunctionNode):
        out.append(f'F:{L}:{enc(node.func_name.value)}:{_lvl(node.args, erase)}:{len(node.args.arguments) + len(node.args.kwargs)}')
        _ser_args(node.args, out, erase)
    elif isinstance(node, M.TernaryNode):
        out.append(f'T:{L}')
        _ser(node.condition, out, erase)
        _ser(node.trueblock, out, erase)
        _ser(node.falseblock, out, erase)
    elif isinstance(node, M.ParenthesizedNode):
        if erase:
            _ser(node.inner, out, erase)
        else:
            out.append(f'P:{L}')
            _ser(node.inner, out, erase)
    elif isinstance(node, M.PlusAssignmentNode):
        out.append(f'+:{L}:{enc(node.var_name.value)}')
        _ser(node.value, out, erase)
    elif isinstance(node, M.AssignmentNode):
        out.append(f'=:{L}:{enc(node.var_name.value)}')
        _ser(node.value, out, erase)
    elif isinstance(node, M.EmptyNode):
        out.append('E')
    else:
        raise Unsupported(type(node).__name__)


# ------------------------------------------------------------------------------------------------ real parser helpers

def quiet() -> None:
    """lexer / interpreter warnings are not part of any check"""
    from mesonbuild import mlog
    mlog._logger.log_disable_stdout = True


def parse(code: str) -> T.Any:
    return mp().Parser(code, 'meson.build').parse()


def flat_statements(block: T.Any) -> T.List[T.Any]:
    """simple statements in source order (descending into if / foreach blocks)"""
    M = mp()
    out: T.List[T.Any] = []
    for st in block.lines:
        if isinstance(st, M.IfClauseNode):
            for i in st.ifs:
                out += flat_statements(i.block)
            if not isinstance(st.elseblock, M.EmptyNode):
                out += flat_statements(st.elseblock.block)
        elif isinstance(st, M.ForeachClauseNode):
            out += flat_statements(st.block)
        else:
            out.append(st)
    return out


def logical_lines(code: str) -> T.List[T.Tuple[int, str]]:
    """(first line number, text) of every non-blank logical line: the lexer's token stream cut at the `eol`
    tokens it emits outside brackets; text stripped of blanks at both ends"""
    M = mp()
    out: T.List[T.Tuple[int, str]] = []
    start: T.Optional[int] = None
    start_line = 1
    end = 0
    for tok in M.Lexer(code).lex('meson.build'):
        if tok.tid == 'eol':
            if start is not None:
                out.append((start_line, code[start:end]))
            start = None
            continue
        if tok.tid == 'whitespace' and start is None:
            continue
        if start is None:
            start = tok.bytespan[0]
            start_line = tok.lineno
        if tok.tid != 'whitespace':
            end = tok.bytespan[1]
    if start is not None:
        out.append((start_line, code[start:end]))
    return out


def raw_newline_string_tokens(code: str) -> bool:
    M = mp()
    try:
        for tok in M.Lexer(code).lex('meson.build'):
            if tok.tid in ('string', 'fstring') and '\n' in code[tok.bytespan[0]:tok.bytespan[1]]:
                return True
    except Exception:
        return False
    return False


def exotic_separators(code: str) -> T.List[str]:
    return sorted({c for c in code if c != '\n' and len(('a' + c + 'b').splitlines()) == 2})


def func_of(stmt: T.Any) -> T.Optional[T.Any]:
    M = mp()
    if isinstance(stmt, M.AssignmentNode):
        stmt = stmt.value
    return stmt if isinstance(stmt, M.FunctionNode) else None


def find_target(stmts: T.List[T.Any], name: str) -> T.Optional[T.Tuple[int, T.Any]]:
    M = mp()
    for i, st in enumerate(stmts):
        f = func_of(st)
        if f is not None and f.func_name.value in TARGET_FUNCS and f.args.arguments \
                and isinstance(f.args.arguments[0], M.StringNode) and f.args.arguments[0].value == name:
            return i, f
    return None


def find_func(stmts: T.List[T.Any], fname: str, ident: T.Optional[str] = None) -> T.Optional[T.Tuple[int, T.Any]]:
    M = mp()
    for i, st in enumerate(stmts):
        f = func_of(st)
        if f is None or f.func_name.value != fname:
            continue
        if ident is None:
            return i, f
        if isinstance(st, M.AssignmentNode) and st.var_name.value == ident:
            return i, f
        if f.args.arguments and isinstance(f.args.arguments[0], M.StringNode) and f.args.arguments[0].value == ident:
            return i, f
    return None


def kwarg(f: T.Any, key: str) -> T.Optional[T.Any]:
    M = mp()
    res = None
    for k, v in f.args.kwargs.items():
        if isinstance(k, M.IdNode) and k.value == key:
            res = v
    return res


UNKNOWN = object()


def resolve_files(node: T.Any, stmts: T.List[T.Any], used: T.Set[int], depth: int = 0,
                  dirs: T.Optional[T.List[str]] = None, here: str = '', base: str = '') -> T.List[T.Any]:
    """the files (paths relative to the source root, normalised) a sources / extra_files expression denotes, for the
    literal forms the generator writes (strings, lists, files(...), variables assigned once, `+`); anything else
    yields UNKNOWN. meson semantics: a plain string is relative to the directory of the target that consumes it
    (`base`), a string inside files(...) to the directory of the meson.build holding that call (`here`).
    `used` collects the indices of the assignment statements consulted; `dirs[i]` is the directory of statement i."""
    M = mp()
    if depth > 20:
        return [UNKNOWN]
    kw = dict(dirs=dirs, here=here, base=base)
    if isinstance(node, M.ParenthesizedNode):
        return resolve_files(node.inner, stmts, used, depth + 1, **kw)
    if isinstance(node, M.StringNode):
        return [os.path.normpath(os.path.join(base, node.value))]
    if isinstance(node, M.ArrayNode):
        out: T.List[T.Any] = []
        for a in node.args.arguments:
            out += resolve_files(a, stmts, used, depth + 1, **kw)
        return out
    if isinstance(node, M.FunctionNode) and node.func_name.value == 'files':
        out = []
        for a in node.args.arguments:
            out += resolve_files(a, stmts, used, depth + 1, dirs=dirs, here=here, base=here)
        return out
    if isinstance(node, M.ArithmeticNode) and node.operation == '+':
        return resolve_files(node.left, stmts, used, depth + 1, **kw) + resolve_files(node.right, stmts, used, depth + 1, **kw)
    if isinstance(node, M.IdNode):
        hits = [(i, st) for i, st in enumerate(stmts) if isinstance(st, M.AssignmentNode) and st.var_name.value == node.value]
        if len(hits) != 1:
            # assigned in several places (branches, +=): which one reaches the target is a control-flow question the
            # ground-truth evaluator answers; any of these statements may legitimately be the one that is edited
            for i, st in enumerate(stmts):
                if isinstance(st, (M.AssignmentNode, M.PlusAssignmentNode)) and st.var_name.value == node.value:
                    used.add(i)
            return [UNKNOWN]
        if any(isinstance(st, M.PlusAssignmentNode) and st.var_name.value == node.value for st in stmts):
            for i, st in enumerate(stmts):
                if isinstance(st, (M.AssignmentNode, M.PlusAssignmentNode)) and st.var_name.value == node.value:
                    used.add(i)
            return [UNKNOWN]
        used.add(hits[0][0])
        there = dirs[hits[0][0]] if dirs is not None else here
        return resolve_files(hits[0][1].value, stmts, used, depth + 1, dirs=dirs, here=there, base=base)
    return [UNKNOWN]


def target_files(stmts: T.List[T.Any], f: T.Any, what: str, used: T.Set[int],
                 dirs: T.Optional[T.List[str]] = None, tdir: str = '') -> T.List[T.Any]:
    out: T.List[T.Any] = []
    kw = dict(dirs=dirs, here=tdir, base=tdir)
    if what == 'src':
        for a in f.args.arguments[1:]:
            out += resolve_files(a, stmts, used, **kw)
        kv = kwarg(f, 'sources')
        if kv is not None:
            out += resolve_files(kv, stmts, used, **kw)
    else:
        kv = kwarg(f, 'extra_files')
        if kv is not None:
            out += resolve_files(kv, stmts, used, **kw)
    return out


class View:
    """every build file of a project tree as the real parser reads it: `stmts` = the simple statements of all files in
    evaluation order (a `subdir('x')` call is followed by the statements of x/meson.build), `where[i]` = (file, index of
    the statement within its own file), `dirs[i]` = directory of that file"""

    def __init__(self, files: T.Dict[str, str]):
        self.files = files
        self.stmts: T.List[T.Any] = []
        self.where: T.List[T.Tuple[str, int]] = []
        self.dirs: T.List[str] = []
        self.per_file: T.Dict[str, T.List[T.Any]] = {}
        self._load('meson.build', 0)
        for f in sorted(files):           # build files no subdir() leads to: still part of the tree
            if f not in self.per_file:
                self._load(f, 0)

    def _load(self, rel: str, depth: int) -> None:
        M = mp()
        if rel in self.per_file or rel not in self.files or depth > 8:
            return
        fl = flat_statements(parse(self.files[rel]))
        self.per_file[rel] = fl
        d = os.path.dirname(rel)
        for i, st in enumerate(fl):
            self.stmts.append(st)
            self.where.append((rel, i))
            self.dirs.append(d)
            if isinstance(st, M.FunctionNode) and st.func_name.value == 'subdir' and st.args.arguments \
                    and isinstance(st.args.arguments[0], M.StringNode):
                self._load(os.path.normpath(os.path.join(d, st.args.arguments[0].value, 'meson.build')), depth + 1)


def lit(node: T.Any) -> T.Any:
    """Python value of a literal keyword value; ('complex',) for anything that is not a literal"""
    M = mp()
    if node is None:
        return None
    if isinstance(node, M.StringNode):
        return node.value
    if isinstance(node, M.BooleanNode):
        return bool(node.value)
    if isinstance(node, M.IdNode):
        return ('id', node.value)
    if isinstance(node, M.ArrayNode) and not node.args.kwargs:
        items = [lit(a) for a in node.args.arguments]
        if any(isinstance(i, tuple) and i == ('complex',) for i in items) or any(isinstance(i, list) for i in items):
            return ('complex',)
        return items
    return ('complex',)


# ------------------------------------------------------------------------------------------------ structural comparison

def canon(node: T.Any) -> T.Any:
    """nested tuples: the tree without positions, whitespace, comments and explicit parentheses"""
    M = mp()
    if isinstance(node, M.ParenthesizedNode):
        return canon(node.inner)
    if isinstance(node, M.BooleanNode):
        return ('bool', bool(node.value))
    if isinstance(node, M.IdNode):
        return ('id', node.value)
    if isinstance(node, M.NumberNode):
        return ('num', node.value)
    if isinstance(node, M.StringNode):
        return ('str', node.value, bool(node.is_fstring))
    if isinstance(node, M.ArrayNode):
        return ('arr', canon_args(node.args))
    if isinstance(node, M.DictNode):
        return ('dict', canon_args(node.args))
    if isinstance(node, M.OrNode):
        return ('or', canon(node.left), canon(node.right))
    if isinstance(node, M.AndNode):
        return ('and', canon(node.left), canon(node.right))
    if isinstance(node, M.ComparisonNode):
        return ('cmp', node.ctype, canon(node.left), canon(node.right))
    if isinstance(node, M.ArithmeticNode):
        return _rot(node.operation, canon(node.left), canon(node.right))
    if isinstance(node, M.NotNode):
        return ('not', canon(node.value))
    if isinstance(node, M.UMinusNode):
        return ('uminus', canon(node.value))
    if isinstance(node, M.IndexNode):
        return ('index', canon(node.iobject), canon(node.index))
    if isinstance(node, M.MethodNode):
        return ('method', canon(node.source_object), node.name.value, canon_args(node.args))
    if isinstance(node, M.FunctionNode):
        return ('call', node.func_name.value, canon_args(node.args))
    if isinstance(node, M.TernaryNode):
        return ('ternary', canon(node.condition), canon(node.trueblock), canon(node.falseblock))
    if isinstance(node, M.PlusAssignmentNode):
        return ('plusassign', node.var_name.value, canon(node.value))
    if isinstance(node, M.AssignmentNode):
        return ('assign', node.var_name.value, canon(node.value))
    if isinstance(node, M.EmptyNode):
        return ('empty',)
    return ('other', type(node).__name__)


def _rot(op: str, a: T.Any, r: T.Any) -> T.Any:
    """`a op r` with `a + (b + c)`, `a + (b - c)`, `a * (b * c)` re-associated to the left: these groupings denote
    the same value for every operand type meson gives the operators (AstPrinter prints them without parentheses).
    `a * (b / c)` and `a * (b % c)` are NOT re-associated: integer division / modulo do not commute with `*`."""
    if isinstance(r, tuple) and r and r[0] == 'arith' and ((op == '+' and r[1] in ('+', '-')) or (op == '*' and r[1] == '*')):
        return ('arith', r[1], _rot(op, a, r[2]), r[3])
    return ('arith', op, a, r)


def canon_args(args: T.Any) -> T.Any:
    return (tuple(canon(a) for a in args.arguments), tuple((canon(k), canon(v)) for k, v in args.kwargs.items()))


def _multiset_sub(a: T.List[str], b: T.List[str]) -> T.List[str]:
    a = list(a)
    for x in b:
        if x in a:
            a.remove(x)
    return a


def same_canon(a: T.Any, b: T.Any, uni: T.Set[str], cf: T.Set[str], path: T.List[str], diffs: T.List[T.List[str]]) -> bool:
    """a = before, b = after; tolerated: positional strings of an all-source-file list may be re-ordered and may
    gain / lose the files named in the command"""
    if not isinstance(a, tuple) or not isinstance(b, tuple) or not a or not b or a[0] != b[0]:
        diffs.append(list(path))
        return False
    kind = a[0]
    if kind in ('arr', 'dict', 'call', 'method'):
        ok = True
        if kind == 'call':
            if a[1] != b[1]:
                diffs.append(list(path))
                return False
            aa, ba = a[2], b[2]
        elif kind == 'method':
            if a[2] != b[2]:
                diffs.append(list(path))
                return False
            ok = same_canon(a[1], b[1], uni, cf, path + ['obj'], diffs) and ok
            aa, ba = a[3], b[3]
        else:
            aa, ba = a[1], b[1]
        sb = [x[1] for x in aa[0] if x[0] == 'str']
        sa = [x[1] for x in ba[0] if x[0] == 'str']
        if sb != sa:
            ub, ua = [s for s in sb if s in uni], [s for s in sa if s in uni]
            if not ([s for s in sb if s not in uni] == [s for s in sa if s not in uni]
                    and all(s in cf for s in _multiset_sub(ua, ub)) and all(s in cf for s in _multiset_sub(ub, ua))):
                diffs.append(path + ['strings'])
                ok = False
        elif [x for x in aa[0] if x[0] == 'str'] != [x for x in ba[0] if x[0] == 'str']:
            diffs.append(path + ['fstring-flag'])
            ok = False
        ob = [x for x in aa[0] if x[0] != 'str']
        oa = [x for x in ba[0] if x[0] != 'str']
        if len(ob) != len(oa) or len(aa[1]) != len(ba[1]):
            diffs.append(path + ['arity'])
            return False
        for i, (x, y) in enumerate(zip(ob, oa)):
            ok = same_canon(x, y, uni, cf, path + ['pos%d' % i], diffs) and ok
        for (kx, vx), (ky, vy) in zip(aa[1], ba[1]):
            kn = kx[1] if kx[0] in ('id', 'str') else '?'
            if kx != ky:
                diffs.append(path + ['kwname:' + str(kn)])
                ok = False
                continue
            ok = same_canon(vx, vy, uni, cf, path + ['kw:' + str(kn)], diffs) and ok
        return ok
    if kind in ('bool', 'id', 'num', 'str', 'empty', 'other'):
        if a != b:
            diffs.append(list(path))
            return False
        return True
    # operators: head fields that are not tuples must be equal, sub-trees compared recursively
    if len(a) != len(b):
        diffs.append(list(path))
        return False
    ok = True
    for i, (x, y) in enumerate(zip(a[1:], b[1:])):
        if isinstance(x, tuple) and isinstance(y, tuple):
            ok = same_canon(x, y, uni, cf, path + [f'{kind}.{i}'], diffs) and ok
        elif x != y:
            diffs.append(list(path))
            ok = False
    return ok


def drop_keys(c: T.Any, keys: T.Set[str]) -> T.Any:
    def dk(call: T.Any) -> T.Any:
        pos, kws = call[2]
        return ('call', call[1], (pos, tuple((k, v) for k, v in kws if not (k[0] == 'id' and k[1] in keys))))
    if c[0] == 'call':
        return dk(c)
    if c[0] == 'assign' and c[2][0] == 'call':
        return ('assign', c[1], dk(c[2]))
    return c


def same_except(before: T.Any, after: T.Any, uni: T.Set[str], cf: T.Set[str], keys: T.Set[str]) -> T.Tuple[bool, T.List[T.List[str]]]:
    diffs: T.List[T.List[str]] = []
    ok = same_canon(drop_keys(canon(before), keys), drop_keys(canon(after), keys), uni, cf, [], diffs)
    return ok, diffs


# ------------------------------------------------------------------------------------------------ hazard classification

def walk(node: T.Any, parent: T.Any = None) -> T.Iterator[T.Tuple[T.Any, T.Any]]:
    M = mp()
    yield node, parent
    kids: T.List[T.Any] = []
    if isinstance(node, (M.ArrayNode, M.DictNode)):
        kids = list(node.args.arguments) + [x for kv in node.args.kwargs.items() for x in kv]
    elif isinstance(node, (M.OrNode, M.AndNode, M.ComparisonNode, M.ArithmeticNode)):
        kids = [node.left, node.right]
    elif isinstance(node, (M.NotNode, M.UMinusNode)):
        kids = [node.value]
    elif isinstance(node, M.IndexNode):
        kids = [node.iobject, node.index]
    elif isinstance(node, M.MethodNode):
        kids = [node.source_object] + list(node.args.arguments) + [x for kv in node.args.kwargs.items() for x in kv]
    elif isinstance(node, M.FunctionNode):
        kids = list(node.args.arguments) + [x for kv in node.args.kwargs.items() for x in kv]
    elif isinstance(node, M.TernaryNode):
        kids = [node.condition, node.trueblock, node.falseblock]
    elif isinstance(node, M.ParenthesizedNode):
        kids = [node.inner]
    elif isinstance(node, (M.AssignmentNode, M.PlusAssignmentNode)):
        kids = [node.value]
    for k in kids:
        yield from walk(k, node)


def _arg_roots(st: T.Any, diffs: T.Optional[T.List[T.List[str]]]) -> T.List[T.Any]:
    """the top-level arguments of statement `st` that the differences `diffs` (paths of same_canon) lie in"""
    M = mp()
    if diffs is None:
        return [st]
    f = func_of(st)
    if f is None:
        return [st]
    roots: T.List[T.Any] = []
    nonstr = [a for a in f.args.arguments if not isinstance(a, M.StringNode)]
    for path in diffs:
        hit = None
        for el in path[:3]:
            if el.startswith('kw:'):
                hit = kwarg(f, el[3:])
                break
            if el.startswith('pos'):
                try:
                    hit = nonstr[int(el[3:])]
                except Exception:
                    hit = None
                break
        roots.append(hit if hit is not None else st)
    return roots


def hazards_in(code: str, stmt_index: int, diffs: T.Optional[T.List[T.List[str]]] = None) -> T.Set[str]:
    """known-defect triggers present in statement `stmt_index` of `code` (the BEFORE text) — restricted to the
    top-level arguments the differences lie in — as finding keys. Parentheses that are needed under an
    ArithmeticNode are NOT a trigger: AstPrinter re-creates those."""
    M = mp()
    keys: T.Set[str] = set()
    try:
        stmts = flat_statements(parse(code))
        st = stmts[stmt_index]
    except Exception:
        return keys
    base = canon(st)
    parents: T.Dict[int, T.Any] = {}
    for node, parent in walk(st):
        parents[id(node)] = parent
    seen: T.Set[int] = set()
    for root in _arg_roots(st, diffs):
        if id(root) in seen:
            continue
        seen.add(id(root))
        for node, _p in walk(root, parents.get(id(root))):
            parent = parents.get(id(node))
            if isinstance(node, M.StringNode):
                if "'" in node.value and not node.is_multiline:
                    keys.add('reprint:quote-in-string-not-escaped')
                if re.search(r'\s\n', node.value):
                    keys.add('reprint:whitespace-before-newline-in-string-lost')
                if '\r' in node.value:
                    keys.add('reprint:carriage-return-in-string-printed-raw')
            if isinstance(node, M.ParenthesizedNode):
                p = parent
                while isinstance(p, M.ParenthesizedNode):
                    p = parents.get(id(p))
                if isinstance(p, M.ArithmeticNode):
                    inner = node.inner
                    while isinstance(inner, M.ParenthesizedNode):
                        inner = inner.inner
                    right = p.right
                    while isinstance(right, M.ParenthesizedNode) and right is not node:
                        right = right.inner
                    if not (p.operation == '*' and right is node and isinstance(inner, M.ArithmeticNode)
                            and inner.operation in ('/', '%')):
                        continue     # AstPrinter re-creates every other needed pair under an ArithmeticNode
                # is the pair of parentheses needed? remove it textually and re-read the file
                a, b = node.lpar.bytespan, node.rpar.bytespan
                txt = code[:a[0]] + ' ' + code[a[1]:b[0]] + ' ' + code[b[1]:]
                try:
                    st2 = flat_statements(parse(txt))[stmt_index]
                    needed = canon(st2) != base
                except Exception:
                    needed = True
                if needed and isinstance(p, M.ArithmeticNode):
                    keys.add('reprint:parentheses-dropped:right-operand-of-multiplication')
                elif needed:
                    keys.add('reprint:parentheses-dropped:under-' + (type(p).__name__ if p is not None else 'None'))
    return keys


def string_plus_list(stmts: T.List[T.Any]) -> bool:
    """some statement holds `<string literal> + [ ... ]` (not a valid meson expression)"""
    M = mp()
    for st in stmts:
        for node, _p in walk(st):
            if isinstance(node, M.ArithmeticNode) and node.operation == '+' and isinstance(node.left, M.StringNode) \
                    and isinstance(node.right, M.ArrayNode):
                return True
    return False


# ------------------------------------------------------------------------------------------------ running the rewriter

class Capture:
    """per `apply_changes` call: texts before / after, the work nodes as the model's `apply` request"""

    def __init__(self) -> None:
        self.applies: T.List[T.Dict[str, T.Any]] = []
        self.removals: T.List[T.Dict[str, T.Any]] = []


def nested_works(works: T.List[T.Dict[str, T.Any]]) -> bool:
    """some modified node lies inside another modified node of the same file (their text extents overlap)"""
    sp = []
    for w in works:
        m = [int(x) for x in w['meta'].split(',')]
        if m[0] == 0:
            sp.append((w['file'], (m[2], m[3]), (m[4], m[5])))
    for i, (f1, a1, b1) in enumerate(sp):
        for j, (f2, a2, b2) in enumerate(sp):
            if i != j and f1 == f2 and a1 <= a2 and b2 <= b1:
                return True
    return False


def _span(n: T.Any) -> T.Tuple[int, int, int, int]:
    return (int(n.lineno), int(n.colno), int(getattr(n, 'end_lineno', n.lineno)), int(getattr(n, 'end_colno', n.colno)))


def _work(action: int, n: T.Any) -> T.Dict[str, T.Any]:
    M = mp()
    if isinstance(n, (M.ArrayNode, M.FunctionNode)):
        kind, vflag, vs = 0, 0, (0, 0, 0, 0)
    elif isinstance(n, M.AssignmentNode):
        kind = 1
        if isinstance(n.value, (M.ArrayNode, M.FunctionNode)):
            vflag, vs = 1, _span(n.value)
        else:
            vflag, vs = 0, (0, 0, 0, 0)
    else:
        kind, vflag, vs = 2, 0, (0, 0, 0, 0)
    s = _span(n)
    try:
        tree = ser(n)
    except Unsupported:
        tree = None
    return {'meta': ','.join(str(x) for x in (action, kind) + s + (vflag,) + vs), 'tree': tree,
            'file': os.path.realpath(n.filename)}


def install_hook(cap: Capture) -> T.Callable[[], None]:
    from mesonbuild import rewriter as RW
    orig = RW.Rewriter.apply_changes

    class OrderPrinter(RW.AstPrinter):
        """apply_changes makes one printer per work item, in the order it will apply them: remember each root node"""
        log: T.List[T.Any] = []

        def __init__(self, *a: T.Any, **k: T.Any) -> None:
            super().__init__(*a, **k)
            self._root_seen = False

        def _root(self, node: T.Any) -> None:
            if not self._root_seen:
                self._root_seen = True
                OrderPrinter.log.append(node)

        def visit_ArrayNode(self, node: T.Any) -> None:
            self._root(node)
            super().visit_ArrayNode(node)

        def visit_FunctionNode(self, node: T.Any) -> None:
            self._root(node)
            super().visit_FunctionNode(node)

        def visit_AssignmentNode(self, node: T.Any) -> None:
            self._root(node)
            super().visit_AssignmentNode(node)

    def hooked(self: T.Any) -> None:
        queued = list(self.modified_nodes) + list(self.to_remove_nodes) + list(self.to_add_nodes)
        works = [_work(0, n) for n in self.modified_nodes] + [_work(1, n) for n in self.to_remove_nodes] + \
                [_work(2, n) for n in self.to_add_nodes]
        rec: T.Dict[str, T.Any] = {'nm': len(self.modified_nodes), 'nr': len(self.to_remove_nodes), 'works': works, 'exc': None,
                                   'order': None}
        cap.applies.append(rec)
        OrderPrinter.log = []
        saved = RW.AstPrinter
        RW.AstPrinter = OrderPrinter
        try:
            orig(self)
        except Exception as e:
            rec['exc'] = type(e).__name__
            raise
        finally:
            RW.AstPrinter = saved
            # indices (into the queue: modified, removed, added) of the PRINTED items in the order they were handled
            rec['order'] = [next((i for i, q_ in enumerate(queued) if q_ is n), -1) for n in OrderPrinter.log]
    RW.Rewriter.apply_changes = hooked
    orig_rm = RW.Rewriter.rm_src_or_extra

    def hooked_rm(self: T.Any, op: str, target: T.Any, to_be_removed: T.List[str], to_sort_nodes: T.List[T.Any]) -> None:
        """record the candidate lists find_node will walk (with the directory their strings are relative to) and, afterwards,
        which strings were really removed"""
        from pathlib import Path
        M = mp()
        rec: T.Dict[str, T.Any] = {'op': op, 'srcs': list(to_be_removed), 'cands': [], 'removed': None, 'root': None}
        snap: T.List[T.Tuple[T.Any, T.List[T.Any]]] = []
        try:
            from mesonbuild.interpreterbase import UnknownValue
            if op == 'src_rm':
                nodes = self.interpreter.dataflow_dag.reachable(set(target.source_nodes), True).union({target.node})
            else:
                nodes = self.interpreter.dataflow_dag.reachable({target.extra_files}, True)
            rec['root'] = str(Path(os.getcwd()) / self.interpreter.source_root)
            for n in nodes:
                if isinstance(n, UnknownValue):
                    continue
                relto = self.get_relto(target.node, n)
                if relto is None:
                    continue
                strs = [j for j in self.arg_list_from_node(n) if isinstance(j, M.StringNode)]
                if not strs:
                    continue
                snap.append((n, strs))
                rec['cands'].append({'relto': str(relto), 'strings': [j.value for j in strs],
                                     'removable': [bool(self.affects_no_other_targets(j)) for j in strs]})
        except Exception as e:     # e.g. the AssertionError of a target without extra_files: nothing to compare
            rec['cands'] = None
            rec['err'] = type(e).__name__
        cap.removals.append(rec)
        orig_rm(self, op, target, to_be_removed, to_sort_nodes)
        if rec['cands'] is not None:
            removed = []
            for ci, (n, strs) in enumerate(snap):
                now = [id(j) for j in self.arg_list_from_node(n)]
                for ji, j in enumerate(strs):
                    if id(j) not in now:
                        removed.append((ci, ji))
            rec['removed'] = removed
    RW.Rewriter.rm_src_or_extra = hooked_rm

    def restore() -> None:
        RW.Rewriter.apply_changes = orig
        RW.Rewriter.rm_src_or_extra = orig_rm
    return restore


def run_rewriter(srcdir: str, cmds: T.List[T.Dict[str, T.Any]], skip: bool = False) -> T.Tuple[str, str, str]:
    """`meson rewrite command <json>` in-process: (status, stdout, stderr); status 'ok' or 'EXC:<type>'"""
    from mesonbuild import rewriter as RW
    from mesonbuild import mlog
    opts = argparse.Namespace(sourcedir=srcdir, verbose=False, skip=skip, type='command', json=json.dumps(cmds))
    out, err = io.StringIO(), io.StringIO()
    status = 'ok'
    with contextlib.redirect_stdout(out), contextlib.redirect_stderr(err):
        try:
            rc = RW.run(opts)
            if rc != 0:
                status = f'rc:{rc}'
        except Exception as e:
            from mesonbuild.mesonlib import MesonException, MesonBugException
            status = f'EXC:{type(e).__name__}'
            if isinstance(e, MesonException) and not isinstance(e, MesonBugException):
                status += ':meson'       # the command / project was rejected with a diagnostic
            err.write(f'\n{type(e).__name__}: {e}')
        finally:
            try:
                mlog.set_quiet()
            except Exception:
                pass
    return status, out.getvalue(), err.getvalue()


def read_tree(root: str) -> T.Dict[str, str]:
    out: T.Dict[str, str] = {}
    for dp, _dn, fn in os.walk(root):
        for f in fn:
            if f == 'meson.build':
                p = os.path.join(dp, f)
                with open(p, encoding='utf-8', newline='') as fh:
                    out[os.path.relpath(p, root)] = fh.read()
    return out


def as_read(text: str) -> str:
    """the text as `open(path, encoding='utf-8').read()` returns it (universal newlines)"""
    return text.replace('\r\n', '\n').replace('\r', '\n')


def write_tree(root: str, files: T.Dict[str, str]) -> None:
    for rel, text in files.items():
        p = os.path.join(root, rel)
        os.makedirs(os.path.dirname(p), exist_ok=True)
        with open(p, 'w', encoding='utf-8', newline='') as fh:
            fh.write(text)


# ------------------------------------------------------------------------------------------------ layout-hostile tokens

_NL_PROBES = ["'''a\nb'''", "f'''a\nb'''", "\\\n", "\\  # c\n", "'a\nb'", "f'a\nb'", "# c\n", " \n", "\t\n", "x\n", "1\n", "+=\n", "==\n",
              "!=\n", "<=\n", ">=\n"]


def harvest_hostile_token_kinds() -> T.Dict[str, str]:
    """from the LIVE `Lexer.token_specification`: every token kind whose match can contain a newline (so that the line /
    column of everything after it on its last line depends on extra bookkeeping), with a sample text"""
    M = mp()
    kinds: T.Dict[str, str] = {}
    for tid, reg in M.Lexer('').token_specification:
        for p in _NL_PROBES:
            m = reg.match(p)
            if m and '\n' in m.group():
                kinds[tid] = m.group()
                break
    return kinds


def adjacent_tokens(code: str, span: T.Tuple[int, int, int, int]) -> T.Set[str]:
    """token kinds of `code` that share a physical line with the start / the end of the node at `span`
    (lineno, colno, end_lineno, end_colno): '<tid>:before-start', '<tid>:before-end', '<tid>:after-end'.
    A token spanning several lines counts for its LAST line (what follows it is what gets a column)."""
    M = mp()
    starts = [0]
    for i, ch in enumerate(code):
        if ch == '\n':
            starts.append(i + 1)
    try:
        s_off = starts[span[0] - 1] + span[1]
        e_off = starts[span[2] - 1] + span[3]
    except IndexError:
        return set()
    out: T.Set[str] = set()

    def line_of(off: int) -> int:
        lo = 0
        for i, st in enumerate(starts):
            if st <= off:
                lo = i
        return lo + 1
    try:
        toks = list(M.Lexer(code).lex('f'))
    except Exception:
        return out
    for t in toks:
        a, b = t.bytespan
        text = code[a:b]
        if t.tid == 'eol':
            continue
        kind = t.tid
        if t.tid == 'whitespace':
            kind = 'whitespace-tab' if '\t' in text else ('eol_cont' if text.startswith('\\') else None)
        elif t.tid in ('string', 'fstring') and '\n' not in text:
            kind = 'string-escape' if '\\' in text else ('string-nonascii' if any(ord(c) > 127 for c in text) else None)
        elif t.tid in ('multiline_string', 'multiline_fstring') and '\n' not in text:
            kind = None
        elif t.tid not in ('string', 'fstring', 'multiline_string', 'multiline_fstring', 'comment'):
            kind = None
        if kind is None:
            continue
        last_line = line_of(max(a, b - 1))
        if kind == 'eol_cont':
            last_line = line_of(b)        # what follows a continuation is on the next physical line
        if b <= s_off and last_line == span[0]:
            out.add(kind + ':before-start')
        elif s_off <= a and b <= e_off and last_line == span[2]:
            out.add(kind + ':before-end')
        elif a >= e_off and line_of(a) == span[2]:
            out.add(kind + ':after-end')
    if not code.endswith('\n') and line_of(e_off) == len(starts):
        out.add('eof-without-newline:after-end')
    return out
