"""C18 — TAP streams are interpreted per the TAP specification.

Implementation under test: mesonbuild.mtest.TAPParser (parse/parse_line/parse_test and the seven
line regexes) and TestRunTAP (parse_async fold + complete + TestRun._complete), called in-process.

Three layers, all fed by ctx.rng:
  * correspondence with the Lean model (driver `mvdriver-tap`): classifier vs the live regex objects,
    event lists, parser state, parse_test, verdict;
  * the property oracle, independent of the model: (a) a reference TAP consumer over *structured*
    line items whose meaning the generator knows (so no regex is involved on the oracle side),
    (b) event-list consistency rules for arbitrary text, (c) the bad-verdict iff, (d) "never raises";
  * state that outlives a parser object (harness/c18_state.py): shared-state harvest, sessions of fresh parsers in one
    process / in fresh interpreters, concurrent TestRunTAP objects; the consumer (TestRunTAP) as a state machine;
  * search/replay.
"""
from __future__ import annotations

import ast
import asyncio
import itertools
import json
import os
import re
import subprocess
import types
import typing as T

from . import common
from .common import Ctx, enc

ID = 'C18'
LEVEL = 'proof'
LEAN_TARGETS = ['MesonModel.Props.C18']
AREAS = ['tap']
PINS = [
    'mesonbuild.mtest:TAPParser',
    'mesonbuild.mtest:TestRunTAP',
    'mesonbuild.mtest:read_decode',
    'mesonbuild.mtest:decode',
    'mesonbuild.mtest:queue_iter',
    'mesonbuild.mtest:TestSubprocess.stdout_lines',
    'mesonbuild.mtest:TestSubprocess.communicate',
    'mesonbuild.mtest:SingleTestRunner._run_cmd',
    'mesonbuild.mtest:SingleTestRunner._run_subprocess',
    'mesonbuild.mtest:TestRun._complete',
    'mesonbuild.mtest:TestRun.get_results',
    'mesonbuild.mtest:TestRun.__init__',
    'mesonbuild.mtest:TestResult',
]
TRUSTED = [
    'Python re semantics of the seven TAPParser patterns as transcribed into hand-written matchers '
    '(validated on every run against the live compiled pattern objects, not proved)',
    'domain: ASCII text plus non-ASCII code points that CPython classes as neither space, word character, '
    'digit nor cased letter; sys.get_int_max_str_digits() at its default 4300 (the model mirrors the guarded int() calls '
    'with that constant; checked at start-up)',
    'test numbers whose successors stay below 10**4300 (beyond that str() of the number raises: recorded finding)',
    'TAP 12/13 rules as restated by the reference consumer in harness/c18.py (written from the property statement)',
    'shared-state harvest: syntactic (class-body containers, writes through a class name / cls / type(self) / __class__, '
    'global statements, mutable defaults, module-level containers of mtest.py) plus the class dicts of the imported module; '
    'state kept elsewhere (other modules, closures, C extensions) is only seen by the session / fresh-interpreter legs',
    'the 7 reviewed shared-state sites of harness/c18_state.py REVIEWED (constants, the protocol registry, the console test counter)',
]


RESIDUAL_KEY = 'raise-on-printing-test-number-10^4300'

# non-ASCII characters used by generators; verified at start-up to be inert for every predicate in play
OTHER_CHARS = ['€', '→', '✓', '…', '§', '»']


def mt():
    from mesonbuild import mtest
    return mtest


# ------------------------------------------------------------------ canonical forms (implementation side)

def opt(s: T.Optional[str]) -> str:
    return 'N' if s is None else 'S' + enc(s)


ERR_PATTERNS: T.List[T.Tuple[T.Pattern[str], T.Callable[[T.Match[str]], str]]] = [
    (re.compile(r'YAML block not terminated \(started on line (\d+|None)\)\Z'), lambda m: 'yaml:' + m.group(1)),
    (re.compile(r'unexpected test after late plan\Z'), lambda m: 'late'),
    (re.compile(r'test number exceeds maximum specified in test plan\Z'), lambda m: 'exceeds'),
    (re.compile(r'invalid directive "(.*)"\Z', re.S), lambda m: 'baddir:' + enc(m.group(1))),
    (re.compile(r'more than one plan found\Z'), lambda m: 'plan2'),
    (re.compile(r'invalid SKIP directive for plan\Z'), lambda m: 'planskip'),
    (re.compile(r'invalid directive for plan\Z'), lambda m: 'plandir'),
    (re.compile(r'version number must be on the first line\Z'), lambda m: 'verpos'),
    (re.compile(r'version number should be at least 13\Z'), lambda m: 'verlow'),
    (re.compile(r'Too few tests run \(expected (\d+), got (\d+)\)\Z'), lambda m: f'few:{m.group(1)}:{m.group(2)}'),
    (re.compile(r'Too many tests run \(expected (\d+), got (\d+)\)\Z'), lambda m: f'many:{m.group(1)}:{m.group(2)}'),
    (re.compile(r'Duplicate test numbers \(expected (\d+), got test numbered (\d+)\Z'),
     lambda m: f'dup:{m.group(1)}:{m.group(2)}'),
    (re.compile(r'Missing test numbers \(expected (\d+), got test numbered (\d+)\Z'),
     lambda m: f'miss:{m.group(1)}:{m.group(2)}'),
    (re.compile(r'test number too large\Z'), lambda m: 'numlarge'),
    (re.compile(r'plan count too large\Z'), lambda m: 'planlarge'),
    (re.compile(r'version number too large\Z'), lambda m: 'verlarge'),
]


def err_kind(msg: str) -> str:
    for pat, f in ERR_PATTERNS:
        m = pat.match(msg)
        if m:
            return f(m)
    return '?:' + enc(msg)


def canon_event(M, e) -> str:
    P = M.TAPParser
    if isinstance(e, P.Plan):
        return f'P:{e.num_tests}:{int(e.late)}:{int(e.skipped)}:{opt(e.explanation)}'
    if isinstance(e, P.Bailout):
        return 'B:' + enc(e.message)
    if isinstance(e, P.Test):
        return f'T:{e.number}:{enc(e.name)}:{e.result.name}:{opt(e.explanation)}'
    if isinstance(e, P.Error):
        return 'E:' + err_kind(e.message)
    if isinstance(e, P.UnknownLine):
        return f'U:{enc(e.message)}:{e.lineno}'
    if isinstance(e, P.Version):
        return f'V:{e.version}'
    return '?' + type(e).__name__


def impl_parse(M, lines: T.Sequence[str]):
    """-> (events or None, parser, exception or None)"""
    p = M.TAPParser()
    try:
        evs = list(p.parse(iter(lines)))
        return evs, p, None
    except Exception as ex:  # the property forbids any raise
        return None, p, ex


def canon_events(M, evs) -> str:
    try:
        return ';'.join(canon_event(M, e) for e in evs)
    except Exception as ex:
        return f'ADAPTER-ERROR:events:{type(ex).__name__}:{str(ex)[:60]}'


def _attr(o: T.Any, name: str) -> T.Any:
    """adapter: an attribute the implementation no longer has becomes an outcome string, never an exception"""
    try:
        return getattr(o, name)
    except Exception as ex:
        return f'<no-attr:{name}:{type(ex).__name__}>'


def _b(x: T.Any) -> str:
    return str(int(x)) if isinstance(x, bool) else f'<{type(x).__name__}:{str(x)[:40]}>'


def canon_state(p) -> str:
    plan = _attr(p, 'plan')
    if plan is None:
        pl = 'None'
    else:
        try:
            pl = f'{plan.num_tests}:{int(plan.late)}:{int(plan.skipped)}:{opt(plan.explanation)}'
        except Exception as ex:
            pl = f'<plan-shape:{type(ex).__name__}>'
    yi = _attr(p, 'yaml_indent')
    return (f'{_attr(p, "state")}/{pl}/{_attr(p, "num_tests")}/{_attr(p, "last_test")}/{_attr(p, "highest_test")}/'
            f'{_b(_attr(p, "found_late_test"))}/{_b(_attr(p, "bailed_out"))}/{_attr(p, "version")}/{_attr(p, "lineno")}/'
            f'{_attr(p, "yaml_lineno")}/{enc(yi) if isinstance(yi, str) else _b(yi)}')


_ADAPTER_REPORTED: T.Set[str] = set()


def safe(ctx: T.Optional[Ctx], name: str, f: T.Callable[..., T.Any], *a: T.Any, default: T.Any = None) -> T.Any:
    """run an adapter / oracle helper; a shape change of the implementation (missing attribute, other field
    names, another type) is recorded once as a failed obligation and becomes an outcome string"""
    try:
        return f(*a)
    except Exception as ex:
        what = f'{name}: {type(ex).__name__}: {str(ex)[:160]}'
        if ctx is not None and what not in _ADAPTER_REPORTED:
            _ADAPTER_REPORTED.add(what)
            ctx.obligation_failed('adapter shape (the implementation no longer has the shape the harness reads)', what)
        return default if default is not None else f'ADAPTER-ERROR:{name}:{type(ex).__name__}'


def impl_cls(M, line: str) -> str:
    try:
        return _impl_cls(M, line)
    except Exception as ex:
        return f'ADAPTER-ERROR:cls:{type(ex).__name__}:{str(ex)[:60]}'


def _impl_cls(M, line: str) -> str:
    """the cascade of `parse_line` in the _MAIN state, read off the live compiled patterns"""
    P = M.TAPParser
    l = line.rstrip()
    if not l or l.startswith('#'):
        return 'skip'
    m = P._RE_TEST.match(l)
    if m:
        return f'test:{int(m.group(1) == "ok")}:{opt(m.group(2))}:{enc(m.group(3))}:{opt(m.group(4))}:{opt(m.group(5))}'
    m = P._RE_PLAN.match(l)
    if m:
        return f'plan:{enc(m.group(1))}:{opt(m.group(2))}:{opt(m.group(3))}'
    m = P._RE_BAILOUT.match(l)
    if m:
        return 'bail:' + enc(m.group(1))
    m = P._RE_VERSION.match(l)
    if m:
        return 'version:' + enc(m.group(1))
    return 'unknown'


def impl_yaml(M, line: str) -> str:
    try:
        P = M.TAPParser
        m = P._RE_YAML_START.match(line)
        return f'{opt(m.group(1) if m else None)}:{int(bool(P._RE_YAML_END.match(line)))}'
    except Exception as ex:
        return f'ADAPTER-ERROR:yaml:{type(ex).__name__}:{str(ex)[:60]}'


class _Harness:
    def log_subtest(self, *a: T.Any) -> None:
        pass


def impl_verdicts(M, cases: T.Sequence[T.Tuple[T.Sequence[str], bool, bool, int]]) -> T.List[str]:
    """real TestRunTAP objects driven through parse (parse_async inside) + complete, one event loop"""
    async def main() -> T.List[str]:
        out = []
        for lines, ef, inter, rc in cases:
            test = types.SimpleNamespace(protocol=M.TestProtocol.TAP, expected_fail=ef, expected_exitcode=0,
                                         project_name='p', name='t', workdir=None)
            tr = M.TestRun(test, {}, 't', None, False, False, inter)
            tr.start(['prog'])

            async def gen(ls=lines):
                for l in ls:
                    yield l
            try:
                await tr.parse(_Harness(), gen())
                tr.returncode = rc
                tr.complete()
                out.append(tr.res.name)
            except Exception as ex:
                out.append('RAISE:' + type(ex).__name__)
        return out
    return asyncio.run(main())


class RecHarness:
    """stands in for TestHarness: records the log_subtest calls of TestRunTAP.parse"""

    def __init__(self) -> None:
        self.calls: T.List[T.Tuple[T.Any, T.Any, T.Any]] = []

    def log_subtest(self, test: T.Any, s: T.Any = None, res: T.Any = None, explanation: T.Any = None, *a: T.Any) -> None:
        self.calls.append((s, res, explanation))


_WARN_RE = re.compile(r'stdout: +(\d+): \S*UNKNOWN:\S* (.*)\Z', re.S)
_PR_RE = re.compile(r'(\d+)(?:/(\d+))? subtests passed\Z')


def canon_run(M, tr, h: RecHarness) -> str:
    """canonical text of a TestRunTAP after parse + complete (same layout as Driver.Tap.showRun)"""
    warns, trailer = [], 'none'
    for w in tr.warnings:
        m = _WARN_RE.match(w)
        if m:
            warns.append(f'{int(m.group(1))}:{enc(m.group(2))}')
        elif w.startswith('Unknown TAP output lines have been ignored'):
            trailer = 'ignored'
        elif 'Unknown TAP output lines for a supported TAP version' in w:
            trailer = 'bug'
        else:
            warns.append('?' + enc(w))
    errs = [err_kind(m) for m in tr.additional_error.split('TAP parsing error: ') if m]
    logged = [f'{enc(str(s_))}:{getattr(r, "name", r)}:{opt(e)}' for s_, r, e in h.calls]
    g = tr.get_results()
    m = _PR_RE.match(g)
    pr = '' if not g else ('?' + g if not m else (m.group(1) if m.group(2) is None else f'{m.group(1)}/{m.group(2)}'))
    note = int('(test program exited with status code' in (tr.stde or ''))
    return (f'res={tr.res.name}|results={canon_events(M, tr.results)}|errs={",".join(errs)}|warns={",".join(warns)}|'
            f'trailer={trailer}|note={note}|logged={",".join(logged)}|pr={pr}')


def impl_consume(M, cases: T.Sequence[T.Tuple[T.Sequence[str], bool, bool, int, str]], concurrent: T.Optional[T.Any] = None
                 ) -> T.List[str]:
    """real TestRunTAP objects: start, parse the stream (res0 = what `self.res` is when parsing ends: RUNNING, or
    TIMEOUT / INTERRUPT as TestSubprocess.wait sets it), complete with the exit status.  With `concurrent` (an rng)
    all parse coroutines run interleaved in one event loop, as `meson test` runs several TAP tests at once."""
    async def one(lines, ef, inter, rc, res0, rng) -> str:
        try:
            test = types.SimpleNamespace(protocol=M.TestProtocol.TAP, expected_fail=ef, expected_exitcode=0,
                                         project_name='p', name='t', workdir=None)
            tr = M.TestRun(test, {}, 't', None, False, False, inter)
            tr.start(['prog'])
            h = RecHarness()
            gaps = [rng.randint(0, 3) for _ in lines] if rng is not None else None

            async def gen():
                for i, l in enumerate(lines):
                    if gaps is not None:
                        for _ in range(gaps[i]):
                            await asyncio.sleep(0)
                    yield l
            if res0 != 'RUNNING':
                tr.res = M.TestResult[res0]
            await tr.parse(h, gen())
            tr.returncode = rc
            tr.complete()
            return canon_run(M, tr, h)
        except Exception as ex:
            return 'RAISE:' + type(ex).__name__

    async def main() -> T.List[str]:
        if concurrent is not None:
            return list(await asyncio.gather(*(one(*c, concurrent) for c in cases)))
        return [await one(*c, None) for c in cases]
    return asyncio.run(main())


def expected_class(M, evs, rc: int) -> T.Set[str]:
    """the classification rule, from the property statement: any failed / unexpectedly passed subtest -> FAIL, an
    error or bail-out event or a bad exit status -> ERROR (a stream with both kinds is bad either way: FAIL or
    ERROR), nothing bad: every subtest skipped (or no subtest at all) -> SKIP, else OK"""
    P = M.TAPParser
    tests = [e for e in evs if isinstance(e, P.Test)]
    bad_sub = any(t.result.name in ('FAIL', 'UNEXPECTEDPASS') for t in tests)
    err = any(isinstance(e, (P.Error, P.Bailout)) for e in evs)
    if bad_sub and err:
        return {'FAIL', 'ERROR'}
    if bad_sub:
        return {'FAIL'}
    if err or rc != 0:
        return {'ERROR'}
    return {'SKIP'} if all(t.result.name == 'SKIP' for t in tests) else {'OK'}


def lines_field(lines: T.Sequence[str]) -> str:
    return f'{len(lines)}|' + ','.join(enc(l) for l in lines)


# ------------------------------------------------------------------ structured items + reference consumer

class Item(T.NamedTuple):
    kind: str            # version plan test diag blank ystart ybody yend bail junk
    text: str            # the rendered line
    a: T.Any = None      # kind-specific payload (see reference())


def mk_test(ok: bool, num: T.Optional[int], name: str, directive: T.Optional[str], expl: T.Optional[str],
            sp: T.Sequence[str] = (' ', ' ', ' ', ' ', ' '), nl: str = '', comment: T.Optional[str] = None) -> Item:
    """`name` has no '#', no leading/trailing space and does not start with a digit; `directive` is a
    spelling of SKIP…/TODO; `expl` has no leading/trailing space and no newline"""
    s = 'ok' if ok else 'not ok'
    if num is not None:
        s += sp[0] + str(num)
    if name:
        s += sp[1] + name
    if directive is not None:
        s += sp[2] + '#' + sp[3] + directive
        if expl:
            s += sp[4] + expl
    elif comment is not None:
        # a trailing comment that is no directive: the status must stay plain
        s += sp[2] + '#' + sp[3] + comment
    return Item('test', s + nl, (ok, num, name, directive, expl or None))


def mk_plan(n: int, directive: T.Optional[str], expl: T.Optional[str], nl: str = '') -> Item:
    s = f'1..{n}'
    if directive is not None:
        s += ' # ' + directive
        if expl:
            s += ' ' + expl
    return Item('plan', s + nl, (n, directive, (expl or '') if directive is not None else None))


def reference(items: T.Sequence[Item]) -> dict:
    """TAP 12/13 consumer over structured items, written from the property statement.
    Returns what the property fixes: the subtests in order, the plan / bail-out / version events and the
    multiset of error conditions, plus the number of lines that are none of those (unknown lines)."""
    version = 12
    plan = None
    ntests = last = highest = 0
    late_reported = False
    bailed = False
    tests: T.List[tuple] = []
    errors: T.List[str] = []
    plans: T.List[tuple] = []
    bails: T.List[str] = []
    versions: T.List[int] = []
    unknown = 0
    after_test = False
    yaml_indent: T.Optional[str] = None
    yaml_line = 0
    lineno = 0
    for it in items:
        lineno += 1
        was_after_test, after_test = after_test, False
        if yaml_indent is not None:
            if it.kind == 'yend':
                yaml_indent = None
                continue
            if it.text.startswith(yaml_indent):
                after_test = False
                continue
            errors.append(f'yaml:{yaml_line}')
            yaml_indent = None
        elif was_after_test and version >= 13 and it.kind == 'ystart':
            yaml_indent = it.a
            yaml_line = lineno
            continue
        k = it.kind
        if k in ('diag', 'blank'):
            continue
        if k == 'test':
            ok, num, name, directive, expl = it.a
            if plan is not None and plan[1] and not late_reported:
                errors.append('late')
                late_reported = True
            ntests += 1
            if isinstance(num, str):
                # a number int() refuses: reported, the subtest is numbered as if no number was written
                errors.append('numlarge')
                last = last + 1
            else:
                last = last + 1 if num is None else num
            highest = max(highest, last)
            if plan is not None and last > plan[0]:
                errors.append('exceeds')
            d = directive.upper() if directive is not None else None
            if d is None:
                res = 'OK' if ok else 'FAIL'
            elif d.startswith('SKIP'):
                res = 'SKIP' if ok else 'FAIL'
            else:
                assert d == 'TODO'
                res = 'UNEXPECTEDPASS' if ok else 'EXPECTEDFAIL'
            tests.append((last, name, res, expl))
            after_test = True
        elif k == 'plan':
            n, directive, expl = it.a
            if plan is not None:
                errors.append('plan2')
            elif isinstance(n, str):
                errors.append('planlarge')  # reported, otherwise ignored
            else:
                skipped = n == 0
                if directive is not None:
                    if directive.upper().startswith('SKIP'):
                        if n > 0:
                            errors.append('planskip')
                        skipped = True
                    else:
                        errors.append('plandir')
                plan = (n, ntests > 0, skipped, expl)
                plans.append(plan)
        elif k == 'bail':
            bails.append(it.a)
            bailed = True
        elif k == 'version':
            if lineno != 1:
                errors.append('verpos')
            elif isinstance(it.a, str):
                errors.append('verlarge')  # reported, otherwise ignored
            else:
                version = it.a
                if version < 13:
                    errors.append('verlow')
                else:
                    versions.append(version)
        else:  # junk, and YAML-looking lines where no YAML block can be
            unknown += 1
    if yaml_indent is not None:
        errors.append(f'yaml:{yaml_line}')
    if not bailed:
        if plan is not None and ntests != plan[0]:
            errors.append(('few' if ntests < plan[0] else 'many') + f':{plan[0]}:{ntests}')
        elif highest != ntests:
            errors.append(('dup' if highest < ntests else 'miss') + f':{ntests}:{highest}')
    return {'tests': tests, 'errors': sorted(errors), 'plans': plans, 'bails': bails, 'versions': versions,
            'unknown': unknown}


def observed(M, evs) -> dict:
    P = M.TAPParser
    return {
        'tests': [(e.number, e.name, e.result.name, e.explanation) for e in evs if isinstance(e, P.Test)],
        'errors': sorted(err_kind(e.message) for e in evs if isinstance(e, P.Error)),
        'plans': [(e.num_tests, e.late, e.skipped, e.explanation) for e in evs if isinstance(e, P.Plan)],
        'bails': [e.message for e in evs if isinstance(e, P.Bailout)],
        'versions': [e.version for e in evs if isinstance(e, P.Version)],
        'unknown': sum(1 for e in evs if isinstance(e, P.UnknownLine)),
    }


RULE_TEXT = {
    'tests': 'each ok/not ok line outside a YAML block must yield one subtest with the right number, name and '
             'directive-adjusted status; diagnostics and YAML blocks yield none',
    'errors': 'error events (plan/count mismatch, duplicate/missing numbers, beyond plan, test after late plan, '
              'second plan, unterminated YAML, misplaced version) differ from the TAP rules',
    'plans': 'plan event differs', 'bails': 'bail-out event differs', 'versions': 'version event differs',
    'unknown': 'diagnostics / YAML block lines must be ignored (unknown-line events differ)',
}


def oracle_items(M, items: T.Sequence[Item], evs: T.Optional[list] = None) -> T.Optional[str]:
    lines = [it.text for it in items]
    if evs is None:
        evs, _p, ex = impl_parse(M, lines)
        if ex is not None:
            return f'parser raised {type(ex).__name__}'
    try:
        want, got = reference(items), observed(M, evs)
    except Exception as ex:
        return f'event objects no longer have the documented fields ({type(ex).__name__}: {str(ex)[:80]})'
    for k in ('tests', 'errors', 'plans', 'bails', 'versions', 'unknown'):
        if want[k] != got[k]:
            return f'{RULE_TEXT[k]}: expected {want[k]!r}, got {got[k]!r}'
    return None


def oracle_events(M, evs) -> T.Optional[str]:
    try:
        return _oracle_events(M, evs)
    except Exception as ex:
        return f'event objects no longer have the documented fields ({type(ex).__name__}: {str(ex)[:80]})'


def _oracle_events(M, evs) -> T.Optional[str]:
    """rules that every event list must satisfy whatever the text was"""
    P = M.TAPParser
    plans = [e for e in evs if isinstance(e, P.Plan)]
    if len(plans) > 1:
        return 'more than one plan event'
    tests = [e for e in evs if isinstance(e, P.Test)]
    n = len(tests)
    hi = max([t.number for t in tests], default=0)
    errs = [err_kind(e.message) for e in evs if isinstance(e, P.Error)]
    bailed = any(isinstance(e, P.Bailout) for e in evs)
    fin = [x for x in errs if x.split(':')[0] in ('few', 'many', 'dup', 'miss')]
    want: T.List[str] = []
    if not bailed:
        if plans and plans[0].num_tests != n:
            want = [('few' if n < plans[0].num_tests else 'many') + f':{plans[0].num_tests}:{n}']
        elif hi != n:
            want = [('dup' if hi < n else 'miss') + f':{n}:{hi}']
    if fin != want:
        return f'end-of-stream count/numbering errors {fin} but plan/count/numbers require {want}'
    if plans:
        i = evs.index(plans[0])
        before = sum(1 for e in evs[:i] if isinstance(e, P.Test))
        after = [e for e in evs[i:] if isinstance(e, P.Test)]
        if plans[0].late != (before > 0):
            return 'plan.late does not say whether tests preceded the plan'
        want_late = 1 if (plans[0].late and after) else 0
        if errs.count('late') != want_late:
            return f'{errs.count("late")} test-after-late-plan errors, expected {want_late}'
        beyond = sum(1 for t in after if t.number > plans[0].num_tests)
        if errs.count('exceeds') != beyond:
            return f'{errs.count("exceeds")} beyond-plan errors for {beyond} tests numbered beyond the plan'
    elif 'late' in errs or 'exceeds' in errs:
        return 'plan-related error without a plan'
    if any(x.startswith('?') for x in errs):
        return 'unclassified error message ' + [x for x in errs if x.startswith('?')][0]
    return None


def expected_bad(M, evs, rc: int) -> bool:
    """the property's sentence: bad iff some subtest failed or unexpectedly passed, an error or bail-out
    event occurred, or the program exited non-zero"""
    P = M.TAPParser
    return (any(isinstance(e, P.Test) and e.result.name in ('FAIL', 'UNEXPECTEDPASS') for e in evs)
            or any(isinstance(e, (P.Error, P.Bailout)) for e in evs) or rc != 0)


BAD_NAMES = ('FAIL', 'TIMEOUT', 'INTERRUPT', 'UNEXPECTEDPASS', 'ERROR')


def key_of(prefix: str, lines: T.Sequence[str]) -> str:
    k = prefix + ':' + json.dumps(list(lines), ensure_ascii=True).replace(' ', '\\u0020')
    return re.sub(r'[0-9]{41,}', lambda m: f'<{len(m.group(0))}digits:{m.group(0)[:3]}>', k)


def report_raise(ctx: Ctx, lines: T.Sequence[str], ex: BaseException) -> None:
    ctx.violation(key_of('raise', lines), f'parser raised {type(ex).__name__}: {str(ex)[:120]}',
                  {'lines': list(lines)})


# ------------------------------------------------------------------ generators

NAMES = ['', 'abc', 'a b', 'first test', 'x-1', 'ok', 'not ok', 'SKIP', 'todo list', 'v 1.2', 'Bail out!', '1..3 x',
         'caf€', 'a\tb', '- dash', 'q?']
SKIPS = ['SKIP', 'skip', 'Skip', 'SKIPPED', 'skipped', 'SkIpPiNg', 'SKIP-x', 'skip_all', 'SKIP2']
TODOS = ['TODO', 'todo', 'ToDo', 'tOdO']
EXPLS = [None, 'why', 'not yet', 'see #12', 'needs  space', '- later', ': colon', '→ arrow', 'SKIP', 'TODO ok']
SPACES = [' ', '  ', '\t', ' \t ']


def long_digits(rng) -> str:
    """a digit string int() refuses (more than 4300 characters, leading zeros count)"""
    return rng.choice(['1' * 4301, '0' * 4301, '0' * 4300 + '7', '9' * 4400, '12' * 2151])
# comments after a test that are not TAP directives (no word boundary after TODO, no SKIP prefix, ...)
NOT_DIRECTIVES = ['TODOS', 'todo_x', 'TODO2 later', 'ToDone', 'FIXME', 'note', 'SKI', 'S KIP', 'T ODO', 'skp why', '', 'see TODO',
                  'x SKIP', '#SKIP', ': TODO']


def rand_test_item(rng, simple: bool = False) -> Item:
    ok = rng.random() < 0.6
    num = None if rng.random() < 0.4 else rng.choice([1, 2, 3, 4, 5, 7, 10, 12, 100, rng.randint(0, 30)])
    if rng.random() < 0.004:
        num = long_digits(rng)
    name = rng.choice(NAMES)
    if num is None and name[:1].isdigit():
        name = 'n' + name
    r = rng.random()
    directive = None if r < 0.5 else (rng.choice(SKIPS) if r < 0.75 else rng.choice(TODOS))
    expl = rng.choice(EXPLS) if directive is not None else None
    sp = [' '] * 5 if simple or rng.random() < 0.6 else [rng.choice(SPACES) for _ in range(5)]
    if directive is not None and rng.random() < 0.15:
        sp[2] = sp[3] = ''
        if not name and num is None:
            pass
    if num is None and not name and directive is not None and rng.random() < 0.3:
        sp[2] = ''
    nl = rng.choice(['', '', '\n', ' \n', '\r\n', '  '])
    comment = None
    if directive is None and rng.random() < 0.2:
        comment = rng.choice(NOT_DIRECTIVES)
    return mk_test(ok, num, name, directive, expl, sp, nl, comment)


def rand_items(rng, maxlen: int) -> T.List[Item]:
    """mostly-valid TAP with structured faults"""
    items: T.List[Item] = []
    r = rng.random()
    v13 = r < 0.55
    if r > 0.995:
        items.append(Item('version', 'TAP version ' + long_digits(rng), 'long'))
    elif v13:
        items.append(Item('version', 'TAP version ' + str(rng.choice([13, 13, 13, 14, 130])) + rng.choice(['', '\n']), None))
        items[-1] = items[-1]._replace(a=int(items[-1].text.split()[2]))
    elif r < 0.65:
        v = rng.choice([12, 1, 0, 9])
        items.append(Item('version', f'TAP version {v}\n', v))
    n = rng.randint(0, maxlen)
    plan_at = rng.choice(['early', 'late', 'none', 'middle', 'both'])
    planned = rng.choice([n, n, n, max(0, n - 1), n + 1, 0, rng.randint(0, 6)])

    def plan_item() -> Item:
        r2 = rng.random()
        if r2 < 0.01:
            return mk_plan(long_digits(rng), rng.choice([None, 'SKIP']), None)  # type: ignore[arg-type]
        if r2 < 0.7:
            return mk_plan(planned, None, None, rng.choice(['', '\n']))
        if r2 < 0.9:
            return mk_plan(planned if rng.random() < 0.5 else 0, rng.choice(SKIPS), rng.choice([None, 'no need', 'x y']))
        return mk_plan(planned, rng.choice(TODOS), rng.choice([None, 'later']))
    if plan_at in ('early', 'both'):
        items.append(plan_item())
    mid = rng.randint(0, n)
    for i in range(n):
        if plan_at == 'middle' and i == mid:
            items.append(plan_item())
        r3 = rng.random()
        if r3 < 0.62:
            items.append(rand_test_item(rng))
            # YAML block after a test
            if rng.random() < 0.3:
                ind = rng.choice([' ', '  ', '\t', '   '])
                items.append(Item('ystart', ind + '---' + rng.choice(['', ' x', '\n']), ind))
                for _ in range(rng.randint(0, 3)):
                    body = rng.choice(['foo: abc', ' bar: def', '', 'ok 9 hidden', '1..3', '# c', 'Bail out!', '- ...',
                                       'not ok', 'TAP version 13', '--- again'])
                    items.append(Item('ybody' if body else 'blank', ind + body + rng.choice(['', '\n']), None))
                if rng.random() < 0.75:
                    ind2 = ind if rng.random() < 0.8 else rng.choice([' ', '    '])
                    items.append(Item('yend', ind2 + '...' + rng.choice(['', '\n', '  ']), None))
        elif r3 < 0.72:
            items.append(Item('diag', '#' + rng.choice(['', ' note', ' ok 1', 'ok', ' 1..2', ' Bail out!', '✓ fine']) +
                              rng.choice(['', '\n']), None))
        elif r3 < 0.78:
            items.append(Item('blank', rng.choice(['', '\n', '  ', '\t\n', ' \x0b']), None))
        elif r3 < 0.84:
            items.append(Item('junk', rng.choice(['hello', 'Ok 1', 'OK', 'no ok', 'not  ok', ' ok 1', '1.. 2', '1..x', '2..3',
                                                  'bail out!', 'Bail out', 'TAP version', 'TAP version x', 'tap version 13',
                                                  ' # indented', '...', '---', 'PASS: x', '€']), None))
        elif r3 < 0.88:
            msg = rng.choice(['', 'no more', 'db down  now', '# hash'])
            items.append(Item('bail', 'Bail out!' + (rng.choice(['', ' ', '  ']) + msg if msg else '') +
                              rng.choice(['', '\n']), msg))
        elif r3 < 0.92:
            items.append(plan_item())
        elif r3 < 0.95:
            v = rng.choice([13, 12, 14])
            items.append(Item('version', f'TAP version {v}', v))
        else:
            # a stray YAML-looking line where no block can start / end
            ind = rng.choice([' ', '  '])
            items.append(rng.choice([Item('ystart', ind + '---', ind), Item('yend', ind + '...', None),
                                     Item('ybody', ind + 'stray: 1', None)]))
    if plan_at in ('late', 'both'):
        items.append(plan_item())
    return items


def alphabet() -> T.List[Item]:
    """the 25 line forms of the exhaustive stream family"""
    return [
        Item('version', 'TAP version 13', 13),
        Item('version', 'TAP version 12', 12),
        mk_plan(0, None, None), mk_plan(1, None, None), mk_plan(2, None, None),
        mk_plan(0, 'SKIP', 'nothing here'), mk_plan(1, 'skip', None), mk_plan(2, 'TODO', 'x'),
        mk_test(True, None, '', None, None), mk_test(True, 1, 'a', None, None), mk_test(True, 2, '', None, None),
        mk_test(False, None, 'b', None, None), mk_test(False, 3, '', None, None),
        mk_test(True, None, 'c', 'SKIP', 'why'), mk_test(False, 1, '', 'skip', None),
        mk_test(True, 2, 'd', 'TODO', None), mk_test(False, None, '', 'todo', 'later'),
        mk_test(True, None, '', None, None, comment='TODOS'),
        Item('diag', '# diagnostic', None),
        Item('ystart', ' ---', ' '), Item('ybody', '  key: ok 1', None), Item('yend', ' ...', None),
        Item('bail', 'Bail out! stop', 'stop'),
        Item('junk', 'garbage', None),
        Item('blank', '', None),
    ]


FRAGS = ['ok', 'not ok', 'not ', 'ok ', '1..', '1', '0', '12', '007', '#', ' #', '# ', 'SKIP', 'skip', 'Skipped', 'sKiP:',
         'SKIP_', 'SKIPx y', 'TODO', 'todo', 'TODOS', 'TODO:', 'TODO_', 'Bail out!', 'Bail out', 'TAP version ', 'TAP version',
         '13', ' ', '  ', '\t', '\x0b', '\x1c', '\x1f', '\r', '\n', ' ---', '---', ' ...', '...', '.', '-', 'abc', 'x', '_',
         ':', '!', 'a#b', '€', '…', 'why not', '\\', '"']


def rand_line(rng) -> str:
    r = rng.random()
    if r < 0.75:
        return ''.join(rng.choice(FRAGS) for _ in range(rng.randint(0, 7)))
    if r < 0.9:
        it = rand_test_item(rng)
        s = it.text
        # one character edit
        if s and rng.random() < 0.8:
            i = rng.randrange(len(s))
            s = s[:i] + rng.choice(['', '#', ' ', '_', 'x', '1', '\n', ':']) + s[i + (rng.random() < 0.5):]
        return s
    return ''.join(chr(rng.choice([rng.randint(32, 126), rng.randint(32, 126), rng.randint(0, 127)]))
                   for _ in range(rng.randint(0, 12)))


def corpus_streams() -> T.List[T.List[str]]:
    """every stream literal of unittests/taptests.py (read from the tree under test) + regression streams"""
    out: T.List[T.List[str]] = []
    try:
        src = open(os.path.join(common.REPO, 'unittests', 'taptests.py'), encoding='utf-8').read()
        for node in ast.walk(ast.parse(src)):
            if isinstance(node, ast.Call) and isinstance(node.func, ast.Attribute) and \
                    node.func.attr in ('parse_tap', 'parse_tap_v13') and node.args and \
                    isinstance(node.args[0], ast.Constant) and isinstance(node.args[0].value, str):
                s = node.args[0].value
                if node.func.attr == 'parse_tap_v13':
                    s = 'TAP version 13\n' + s
                out.append(s.splitlines(True))
    except OSError:
        pass
    out += [
        ['ok 1 # SKIP:'], ['ok # skip- x'], ['ok 1 # TODOS'], ['ok 1 a # b # TODO'], ['okay'], ['ok1'], ['not ok2 x'],
        ['1..3 # skip\n', 'ok\n'], ['1..0 # Skipped: all'], ['1..2 x # SKIP'], ['ok', ' ---', ' a', '...'],
        ['TAP version 13', 'ok', '# d', ' ---'], ['TAP version 13', 'ok', ' ---', ' ...x', 'ok'],
        ['TAP version 13', 'ok', '\t---', '\tx', ' ...', 'ok 2', '1..2'], ['TAP version 5', 'ok', ' ---'],
        ['ok 2', 'ok', '1..2', 'ok 1', 'ok 1'], ['Bail out!', '1..4'], ['Bail out!   x  y \n'], ['ok 1 a\x0b# todo'],
        ['ok # SKIP a\nb'], ['ok 1\x1f2'], ['1..1\x1c# skip'], ['ok 00012 zero'], ['1..007'], ['TAP version 013'],
        ['# only'], [''], ['\n', '\n'],
    ]
    cdir = os.path.join(common.VERIF, 'corpus', 'C18')
    if os.path.isdir(cdir):
        for f in sorted(os.listdir(cdir)):
            if f.endswith('.json'):
                try:
                    d = json.load(open(os.path.join(cdir, f)))
                    if isinstance(d.get('lines'), list):
                        out.append([str(x) for x in d['lines']])
                except (OSError, ValueError):
                    pass
    return out


def check_domain(ctx: Ctx) -> None:
    """the non-ASCII characters the generators use must be inert for \\s, \\w, digits and case mapping"""
    for c in OTHER_CHARS:
        if c.isspace() or re.match(r'\w|\s|\d', c) or c.upper() != c or c.lower() != c or c.isdigit():
            raise common.ToolFailure(f'character {c!r} is not inert in this CPython; adjust OTHER_CHARS')
    for n in range(128):
        c = chr(n)
        if c.isspace() != (9 <= n <= 13 or 28 <= n <= 32) or bool(re.match(r'\s', c)) != c.isspace():
            raise common.ToolFailure('ASCII whitespace table differs from the model')


# ------------------------------------------------------------------ run

def gen_tables(ctx: Ctx) -> None:
    """MesonModel/Generated/TapTables.lean: TestResult members and the is_bad / is_ok sets, read off the live enum"""
    M = mt()
    members = [r.name for r in M.TestResult]
    bad = [r.name for r in M.TestResult if r.is_bad()]
    okl = [r.name for r in M.TestResult if r.is_ok()]

    def lit(l: T.List[str]) -> str:
        return '[' + ', '.join(json.dumps(x) for x in l) + ']'
    from . import c18_state
    attrs = c18_state.parser_class_attrs(M)
    mut = c18_state.unreviewed_parser_mutables(M)
    pairs = '[' + ', '.join(f'({json.dumps(k)}, {json.dumps(v)})' for k, v in attrs) + ']'
    body = ('/- generated by harness/c18.py gen_tables from mesonbuild.mtest.TestResult; do not edit -/\n'
            'namespace MesonModel.Generated.TapTables\n'
            f'def members : List String := {lit(members)}\n'
            f'def isBad : List String := {lit(bad)}\n'
            f'def isOk : List String := {lit(okl)}\n'
            f'def parserClassAttrs : List (String × String) := {pairs}\n'
            f'def parserMutableClassAttrs : List String := {lit(mut)}\n'
            'end MesonModel.Generated.TapTables\n')
    path = os.path.join(common.LEAN, 'MesonModel', 'Generated', 'TapTables.lean')
    os.makedirs(os.path.dirname(path), exist_ok=True)
    old = open(path, encoding='utf-8').read() if os.path.exists(path) else None
    if old != body:
        with open(path, 'w', encoding='utf-8') as f:
            f.write(body)


def sig_of(canon: str) -> str:
    """event-kind signature of a canonical event list (used for the distribution and non-triviality)"""
    out = []
    for e in canon.split(';'):
        if not e:
            continue
        if e[0] == 'E':
            out.append('E' + e.split(':')[1])
        elif e[0] == 'T':
            out.append('T' + e.split(':')[3][:2])
        else:
            out.append(e[0])
    return ' '.join(out)


class Batch:
    """collects (kind, input, protocol line, implementation answer) and compares with the model"""

    def __init__(self, ctx: Ctx):
        self.ctx = ctx
        self.cases: T.List[T.Tuple[str, T.Any, str, str]] = []

    def add(self, kind: str, inp: T.Any, line: str, ans: str) -> None:
        self.cases.append((kind, inp, line, ans))

    def flush(self) -> None:
        ctx = self.ctx
        ctx.count(len(self.cases))
        if ctx.model_available and self.cases:
            answers = ctx.driver('tap', [c[2] for c in self.cases])
            sigs: T.Dict[str, int] = {}
            for (kind, inp, _l, impl_ans), model_ans in zip(self.cases, answers):
                ctx.tag('kind:' + kind)
                if impl_ans != model_ans:
                    ctx.disagreement({'kind': kind, 'input': inp, 'impl': impl_ans, 'model': model_ans})
                if kind == 'parse':
                    s = sig_of(model_ans)
                    sigs[s] = sigs.get(s, 0) + 1
            if sigs:
                top = max(sigs, key=sigs.get)  # type: ignore[arg-type]
                for (kind, inp, _l, _a), model_ans in zip(self.cases, answers):
                    if kind == 'parse':
                        s = sig_of(model_ans)
                        if s != top:
                            ctx.seen_nontrivial(repr(inp))
                        for w in set(s.split()):
                            ctx.tag('event:' + w)
                    elif kind == 'cls':
                        ctx.tag('class:' + model_ans.split(':')[0])
        for c in self.cases[::max(1, len(self.cases) // 4)][:4]:
            ctx.sample({'kind': c[0], 'input': c[1], 'impl': c[3][:200]})
        self.cases = []


def add_stream(M, ctx: Ctx, b: Batch, lines: T.Sequence[str], with_state: bool = True) -> T.Optional[list]:
    """implementation on one stream: never-raises + event consistency oracle, and queue the correspondence"""
    evs, p, ex = impl_parse(M, lines)
    if ex is not None:
        report_raise(ctx, lines, ex)
        b.add('parse', list(lines), 'parse ' + lines_field(lines), 'RAISE:' + type(ex).__name__)
        return None
    b.add('parse', list(lines), 'parse ' + lines_field(lines), canon_events(M, evs))
    if with_state:
        b.add('state', list(lines), 'state ' + lines_field(lines), safe(ctx, 'canon_state', canon_state, p))
    msg = oracle_events(M, evs)
    if msg:
        ctx.violation(key_of('events', lines), msg, {'lines': list(lines)})
    return evs


def check_items(M, ctx: Ctx, items: T.Sequence[Item]) -> None:
    msg = oracle_items(M, items)
    if msg:
        lines = [it.text for it in items]
        ctx.violation(key_of('tap', lines), msg, {'lines': lines, 'items': [list(it) for it in items]})


def leg(ctx: Ctx, name: str, f: T.Callable[..., T.Any], *a: T.Any) -> None:
    """a leg that trips over a shape change of the implementation is a failed obligation, not a harness crash"""
    try:
        f(*a)
    except (common.ToolFailure, subprocess.TimeoutExpired):
        raise
    except Exception as ex:
        import traceback
        tb = traceback.extract_tb(ex.__traceback__)[-1]
        ctx.obligation_failed(f'{name} leg: the implementation no longer has the shape the harness reads',
                              f'{type(ex).__name__}: {str(ex)[:200]} at {os.path.basename(tb.filename)}:{tb.lineno}')


def run(ctx: Ctx) -> None:
    M = mt()
    rng = ctx.rng
    check_domain(ctx)
    ctx.rule = ('corpus (every stream literal of unittests/taptests.py + regression streams), every stream of length '
                '<= 3 (quick) / <= 4 (thorough) over a 25-form line alphabet, random structured mostly-valid streams with '
                'faults (length <= 40), random fragment/ASCII lines and streams; sessions: ~1200 (quick) streams through fresh '
                'parsers in one process in 3 (6) orders and in 4 (8) fresh interpreters with different first streams, second '
                'parse on a used parser object, every verdict case also parsed concurrently with 39 others; consumer: the whole '
                'TestRunTAP state after parse + complete for every verdict case. A parse case is non-trivial when its '
                'event-kind signature differs from the most common signature of its batch; counted distinct by input.')
    b = Batch(ctx)
    verdict_cases: T.List[T.Tuple[T.List[str], bool, bool, int]] = []
    import time as _time
    legs: T.Dict[str, float] = {}
    ctx.extra['leg_seconds'] = legs
    _t = [_time.time()]

    def mark(name: str) -> None:
        legs[name] = round(_time.time() - _t[0], 1)
        _t[0] = _time.time()

    # 00. state that outlives a parser object: harvest of shared state, then MANY streams through fresh parsers in ONE
    #     process in several orders (this process first, before any other leg has parsed anything; fresh interpreters too)
    import sys as _sys0
    from . import c18_state
    c18_state.check_shared_state(M, ctx)
    leg(ctx, 'sessions', c18_state.run_sessions, _sys0.modules[__name__], M, ctx)
    mark('sessions')

    # 0. numbers at and beyond CPython's int() digit limit (the former finding F-TAP-INT, repaired in /repo)
    import sys as _sys
    if hasattr(_sys, 'get_int_max_str_digits') and _sys.get_int_max_str_digits() != 4300:
        raise common.ToolFailure('sys.get_int_max_str_digits() is not 4300; the model mirrors the default')
    big = '1' * 4301
    for items in ([mk_test(True, big, '', None, None)], [mk_plan(big, None, None)],  # type: ignore[arg-type]
                  [Item('version', 'TAP version ' + big, 'long')],
                  [mk_plan(1, None, None), mk_test(False, '0' * 4301, 'x', 'TODO', 'y')],  # type: ignore[arg-type]
                  [mk_test(True, 3, '', None, None), mk_test(True, big, '', None, None), mk_plan(big, 'SKIP', None),  # type: ignore[arg-type]
                   mk_plan(5, None, None)],
                  [mk_test(True, int('9' * 4300), '', None, None)], [mk_plan(int('1' + '0' * 4299), None, None)]):
        add_stream(M, ctx, b, [it.text for it in items])
        check_items(M, ctx, items)
        verdict_cases.append(([it.text for it in items], False, False, 0))
        ctx.tag('gen:int-limit')
    # residual finding (implementation only): incrementing 10**4300 - 1 gives a number str() refuses
    lines = ['ok ' + '9' * 4300, 'ok']
    _evs, _p, ex = impl_parse(M, lines)
    ctx.count()
    if ex is not None and isinstance(ex, ValueError) and 'Exceeds the limit' in str(ex):
        ctx.violation(RESIDUAL_KEY, 'parser raised ValueError while printing a 4301-digit test number', {'lines': lines})
    elif ex is not None:
        report_raise(ctx, lines, ex)

    # 1. corpus
    for lines in corpus_streams():
        add_stream(M, ctx, b, lines)
        verdict_cases.append((lines, False, False, 0))
        ctx.tag('gen:corpus')

    # 2. exhaustive streams over the alphabet (reference oracle on every one)
    alpha = alphabet()
    maxlen = ctx.scale(3, 4)
    n_exh = 0
    for L in range(0, maxlen + 1):
        for combo in itertools.product(alpha, repeat=L):
            lines = [it.text for it in combo]
            add_stream(M, ctx, b, lines, with_state=(L <= 2))
            check_items(M, ctx, combo)
            n_exh += 1
        if len(b.cases) > 150000:
            b.flush()
    ctx.tag('gen:exhaustive', n_exh)
    ctx.extra['exhaustive_streams'] = n_exh
    ctx.exhaustive = False
    b.flush()

    mark('corpus+exhaustive')
    # 3. random structured streams
    for _ in range(ctx.scale(12000, 150000)):
        items = rand_items(rng, rng.choice([2, 4, 8, 8, 16, 40]))
        lines = [it.text for it in items]
        add_stream(M, ctx, b, lines)
        check_items(M, ctx, items)
        ctx.tag('gen:structured')
        if rng.random() < 0.25:
            verdict_cases.append((lines, rng.random() < 0.2, rng.random() < 0.1, rng.choice([0, 0, 0, 1, 77, 99, -9])))
    b.flush()

    mark('structured')
    # 4. single structured test lines in a fresh parser (number / name / directive / explanation rules)
    for _ in range(ctx.scale(30000, 300000)):
        it = rand_test_item(rng)
        check_items(M, ctx, [it])
        b.add('cls', it.text, 'cls ' + enc(it.text), impl_cls(M, it.text))
        ctx.tag('gen:testline')
    b.flush()

    mark('testlines')
    # 5. line-level fuzz: classifier vs live regexes, yaml start/end, then short random streams of such lines
    for _ in range(ctx.scale(60000, 600000)):
        l = rand_line(rng)
        b.add('cls', l, 'cls ' + enc(l), impl_cls(M, l))
        if rng.random() < 0.3:
            y = rng.choice(['', ' ', '  ', '\t', '\x1f']) + rng.choice(['---', '...', '--', '..', '- --', '....', '---x', '... x', '']) + \
                rng.choice(['', ' ', '\n', 'z'])
            b.add('yaml', y, 'yaml ' + enc(y), impl_yaml(M, y))
    b.flush()
    for _ in range(ctx.scale(25000, 300000)):
        lines = [rand_line(rng) if rng.random() < 0.6 else rng.choice(alpha).text + rng.choice(['', '\n'])
                 for _ in range(rng.randint(1, 6))]
        if rng.random() < 0.5:
            lines.insert(0, 'TAP version 13\n')
        add_stream(M, ctx, b, lines)
        ctx.tag('gen:fuzz')
        if rng.random() < 0.1:
            verdict_cases.append((lines, False, False, rng.choice([0, 0, 1])))
    b.flush()

    mark('fuzz')
    # 6. parse_test called directly, including directives the regexes never produce
    for _ in range(ctx.scale(4000, 40000)):
        ok = rng.random() < 0.5
        num = rng.randint(0, 50)
        name = rng.choice(NAMES + [' padded ', '\tx\n'])
        d = rng.choice([None, None] + SKIPS + TODOS + ['', 'FIXME', 'todo2', 'TODOS', 'skp', ' skip', 'S'])
        e = rng.choice([None, '', ' ', 'why', ' padded  ', '\n'])
        try:
            evs = list(M.TAPParser().parse_test(ok, num, name, d, e))
            ans = canon_events(M, evs)
        except Exception as ex:
            ans = 'RAISE:' + type(ex).__name__
            ctx.violation(key_of('raise-parse_test', [repr((ok, num, name, d, e))]), 'parse_test raised', {'args': [ok, num, name, d, e]})
        b.add('ptest', [ok, num, name, d, e], f'ptest {int(ok)}|{num}|{enc(name)}|{opt(d)}|{opt(e)}', ans)
    b.flush()

    mark('parse_test')
    # 7. verdicts through real TestRunTAP objects
    exh_v = [([it.text for it in combo], False, False, rc)
             for combo in itertools.product(alpha, repeat=2) for rc in (0, 1)]
    verdict_cases += exh_v
    for ef in (False, True):
        for inter in (False, True):
            for rc in (0, 1):
                for lines in (['ok'], ['not ok'], ['ok # SKIP'], ['ok # TODO'], ['not ok # TODO'], [], ['1..0 # SKIP'],
                              ['Bail out!'], ['1..2', 'ok'], ['garbage'], ['Bail out!', 'not ok'], ['1..1', '1..1', 'not ok 1']):
                    verdict_cases.append((lines, ef, inter, rc))
    res = impl_verdicts(M, verdict_cases)
    for (lines, ef, inter, rc), r in zip(verdict_cases, res):
        b.add('verdict', [lines, ef, inter, rc],
              f'verdict {int(ef)}|{int(inter)}|{rc}|{lines_field(lines)}', r)
        ctx.tag('verdict:' + r)
        if r.startswith('RAISE'):
            evs, _p, ex = impl_parse(M, lines)
            if ex is not None:
                report_raise(ctx, lines, ex)
            continue
        if not ef and not inter:
            evs, _p, ex = impl_parse(M, lines)
            if evs is not None:
                want = expected_bad(M, evs, rc)
                if (r in BAD_NAMES) != want:
                    ctx.violation(key_of(f'verdict:{rc}', lines),
                                  f'TAP test reported {r} (bad={r in BAD_NAMES}) but subtests/errors/exit status say bad={want}',
                                  {'lines': lines, 'returncode': rc})
    b.flush()

    mark('verdicts')
    # 7b. the consumer as a state machine: whole TestRunTAP state after parse + complete (results, additional_error,
    #     warnings + trailer, log_subtest calls, get_results, exit-status note), tests killed while parsing, and
    #     several TAP tests parsed concurrently in one event loop; classification oracle from the property statement
    leg(ctx, 'consumer', consumer_leg, M, ctx, b, verdict_cases)
    b.flush()

    # 8. byte-level leg: program bytes -> read_decode / real pipe / meson test -> events and verdict
    import sys as _sys2
    from . import c18_bytes
    mark('consumer')
    leg(ctx, 'byte-level', c18_bytes.run, _sys2.modules[__name__], M, ctx)
    mark('bytes')
    c18_state.annotate_history(ctx)
    ctx.assumptions += TRUSTED
    ctx.assumptions.append('expected_fail / interactive runs are compared with the model only; the bad-iff sentence is '
                           'checked for ordinary runs (should_fail inverts it by design, interactive TAP runs are IGNORED)')


def consumer_leg(M, ctx: Ctx, b: 'Batch', verdict_cases: T.List[T.Tuple[T.List[str], bool, bool, int]]) -> None:
    rng = ctx.rng
    cons = [(lines, ef, inter, rc, 'RUNNING') for (lines, ef, inter, rc) in verdict_cases
            if not any(len(l) > 4000 for l in lines)]
    cons += [(lines, ef, inter, rc, rng.choice(['TIMEOUT', 'INTERRUPT'])) for (lines, ef, inter, rc, _r) in cons[::7]]
    seq = impl_consume(M, cons)
    for (lines, ef, inter, rc, res0), r in zip(cons, seq):
        b.add('consume', [lines, ef, inter, rc, res0], f'consume {int(ef)}|{int(inter)}|{rc}|{res0}|{lines_field(lines)}', r)
        ctx.tag('consume:' + res0)
        if r.startswith('RAISE') or ef or inter or res0 != 'RUNNING':
            continue
        evs, _p, ex = impl_parse(M, lines)
        if evs is None:
            continue
        got = r.split('|')[0][4:]
        want = safe(ctx, 'expected_class', expected_class, M, evs, rc, default={got})
        if got not in want:
            ctx.violation(key_of(f'class:{rc}', lines),
                          f'TAP test reported {got}; its subtests / error events / exit status {rc} call for {sorted(want)}',
                          {'lines': lines, 'returncode': rc})
        recorded = r.split('|')[1][8:]
        mine = canon_events(M, [e for e in evs if isinstance(e, M.TAPParser.Test)])
        if recorded != mine:
            ctx.violation(key_of('results', lines), 'subtests recorded by TestRunTAP differ from the subtest events of its stream',
                          {'lines': lines, 'recorded': recorded[:300], 'events': mine[:300]})
    plain = [c for c in cons if c[4] == 'RUNNING']
    for a in range(0, len(plain), 40):
        chunk = plain[a:a + 40]
        conc = impl_consume(M, chunk, concurrent=rng)
        alone = impl_consume(M, chunk)
        for c, x, y in zip(chunk, conc, alone):
            ctx.count()
            ctx.tag('consume:concurrent')
            if x != y:
                ctx.violation(key_of('concurrent', c[0]),
                              'a TAP test parsed while other TAP tests are being parsed in the same event loop is reported '
                              f'differently: alone {y[:200]!r}, interleaved {x[:200]!r}',
                              {'lines': c[0], 'returncode': c[3], 'parsed_concurrently': [k[0] for k in chunk if k is not c][:5]})


# ------------------------------------------------------------------ search / replay

def shrink_lines(lines: T.List[str], still: T.Callable[[T.List[str]], bool]) -> T.List[str]:
    cur = list(lines)
    changed = True
    while changed and len(cur) > 1:
        changed = False
        for i in range(len(cur)):
            cand = cur[:i] + cur[i + 1:]
            if still(cand):
                cur = cand
                changed = True
                break
    return cur


_W = r'[^\s#]+(?: [^\s#]+)*'
STRICT_TEST = re.compile(r'(not )?ok(?: ([0-9]{1,9}))?(?: ([A-Za-z_.\-][^\s#]*(?: [^\s#]+)*))?'
                         r'(?: # (SKIP[A-Za-z]*|skip[a-z]*|TODO|todo)(?: (' + _W + r'))?)?\n?\Z')
STRICT_PLAN = re.compile(r'1\.\.([0-9]{1,9})(?: # (SKIP[A-Za-z]*|skip[a-z]*|TODO|todo)(?: (' + _W + r'))?)?\n?\Z')


def recognise(line: str) -> T.Optional[Item]:
    """strict recogniser of unambiguous TAP line spellings (used by search to turn text back into items)"""
    m = STRICT_TEST.match(line)
    if m:
        return Item('test', line, (m.group(1) is None, int(m.group(2)) if m.group(2) else None, m.group(3) or '',
                                   m.group(4), m.group(5)))
    m = STRICT_PLAN.match(line)
    if m:
        return Item('plan', line, (int(m.group(1)), m.group(2), (m.group(3) or '') if m.group(2) else None))
    m = re.match(r'TAP version ([0-9]{1,9})\n?\Z', line)
    if m:
        return Item('version', line, int(m.group(1)))
    m = re.match(r'Bail out!(?: (' + _W + r'))?\n?\Z', line)
    if m:
        return Item('bail', line, m.group(1) or '')
    if re.match(r'#[^\n]*\n?\Z', line):
        return Item('diag', line, None)
    if line.strip() == '':
        return Item('blank', line, None)
    m = re.match(r'( +)---\n?\Z', line)
    if m:
        return Item('ystart', line, m.group(1))
    if re.match(r' +\.\.\.\n?\Z', line):
        return Item('yend', line, None)
    if re.match(r' +[a-z]+: [a-z0-9 ]*\n?\Z', line):
        return Item('ybody', line, None)
    if re.match(r'[a-z]{3,}\Z', line) and not line.startswith(('ok', 'not ok')):
        return Item('junk', line, None)
    return None


def search(ctx: Ctx, disagreements: T.List[dict]) -> None:
    try:
        _search(ctx, disagreements)
    finally:
        from . import c18_state
        c18_state.annotate_history(ctx)


def _search(ctx: Ctx, disagreements: T.List[dict]) -> None:
    """failing-input search on the implementation only: the oracles of `run` applied to the disagreeing inputs,
    their shrunk forms and neighbours, then a deeper structured pass"""
    M = mt()
    rng = ctx.rng
    streams: T.List[T.List[str]] = []
    for d in disagreements:
        inp = d.get('input')
        if d.get('kind') in ('parse', 'state', 'session') and isinstance(inp, list):
            streams.append([str(x) for x in inp])
        elif d.get('kind') in ('verdict', 'consume') and isinstance(inp, list):
            streams.append([str(x) for x in inp[0]])
        elif d.get('kind') in ('cls', 'yaml') and isinstance(inp, str):
            streams += [[inp], ['TAP version 13', 'ok', inp, 'ok 2'], ['1..1', inp]]
    found = [False]

    def try_stream(lines: T.List[str]) -> bool:
        evs, _p, ex = impl_parse(M, lines)
        if ex is not None:
            report_raise(ctx, lines, ex)
            return bool(ctx.violations)
        msg = oracle_events(M, evs)
        if msg:
            ctx.violation(key_of('events', lines), msg, {'lines': lines})
            return True
        items = [recognise(l) for l in lines]
        if all(it is not None for it in items):
            msg = oracle_items(M, T.cast(T.List[Item], items))
            if msg:
                ctx.violation(key_of('tap', lines), msg, {'lines': lines})
                return True
        for rc in (0, 1):
            r = impl_verdicts(M, [(lines, False, False, rc)])[0]
            if not r.startswith('RAISE') and (r in BAD_NAMES) != expected_bad(M, evs, rc):
                ctx.violation(key_of(f'verdict:{rc}', lines), f'TAP test reported {r}, expected bad={expected_bad(M, evs, rc)}',
                              {'lines': lines, 'returncode': rc})
                return True
        return False

    seen = set()
    for lines in streams[:60]:
        cands = [lines] + [lines[:i] + lines[i + 1:] for i in range(len(lines))] + [[l] for l in lines] + \
                [[l.rstrip('\n')] for l in lines]
        for c in cands:
            k = tuple(c)
            if k in seen:
                continue
            seen.add(k)
            if try_stream(c):
                return
    # deeper structured pass (the reference oracle needs items, so generate fresh ones)
    alpha = alphabet()
    for L in range(0, 4):
        for combo in itertools.product(alpha, repeat=L):
            msg = oracle_items(M, combo)
            if msg:
                lines = [it.text for it in combo]
                ctx.violation(key_of('tap', lines), msg, {'lines': lines})
                return
    for _ in range(60000):
        items = rand_items(rng, rng.choice([2, 4, 8, 16]))
        msg = oracle_items(M, items)
        if msg:
            lines = [it.text for it in items]
            # shrink while the reference still objects
            def still(ls: T.List[str]) -> bool:
                its = [it for it in items if it.text in ls]
                return len(its) == len(ls) and oracle_items(M, its) is not None
            ctx.violation(key_of('tap', lines), msg, {'lines': lines})
            return
        if try_stream([rand_line(rng) for _ in range(rng.randint(1, 4))]):
            return
    for _ in range(50000):
        it = rand_test_item(rng)
        msg = oracle_items(M, [it])
        if msg:
            ctx.violation(key_of('tap', [it.text]), msg, {'lines': [it.text]})
            return


def replay(ctx: Ctx, rep: dict) -> None:
    M = mt()
    case = rep.get('case', {})
    lines = case.get('lines')
    print('replay', rep.get('what'))
    if case.get('leg') == 'bytes':
        import sys as _sys2
        from . import c18_bytes
        c18_bytes.replay(_sys2.modules[__name__], M, ctx, case)
        return
    if not isinstance(lines, list):
        print('no stream in replay file:', json.dumps(case)[:300])
        return
    if case.get('history') is not None:
        import sys as _sys3
        from . import c18_state
        c18_state.replay(_sys3.modules[__name__], M, ctx, case)
        for h in case['history']:
            impl_parse(M, h)
    print('lines:', lines)
    evs, _p, ex = impl_parse(M, lines)
    if ex is not None:
        print('implementation raised', type(ex).__name__, str(ex)[:100])
    else:
        print('implementation events:', [tuple(e) for e in evs])
        print('event oracle:', oracle_events(M, evs))
        items = [recognise(l) for l in lines]
        if 'items' in case:
            items = [Item(*x) for x in case['items']]
        if all(it is not None for it in items):
            print('reference oracle:', oracle_items(M, items))  # type: ignore[arg-type]
        rc = case.get('returncode', 0)
        print('verdict:', impl_verdicts(M, [(lines, False, False, rc)])[0], 'expected bad =', expected_bad(M, evs, rc))
    if ctx.model_available:
        print('model events:', ctx.driver('tap', ['parse ' + lines_field(lines)])[0])
