"""Directory-listing-order shim for the C06 whole-system runs.

Put on PYTHONPATH of a `meson setup` subprocess.  With C06_LISTDIR_SEED=<n> in the environment every
directory listing the interpreter obtains (`os.listdir`, `os.scandir`, hence `os.walk`, `glob`,
`pathlib.Path.iterdir`) is returned in a pseudo-random order derived from n and the directory name.
POSIX gives no guarantee on readdir order, so any order is a legal behaviour of the file system; ext4
(the sandbox file system) hashes names, so creation order alone would not vary it.
"""
import os
import random
import zlib

_seed = os.environ.get('C06_LISTDIR_SEED')

if _seed not in (None, '', 'none'):
    _real_listdir = os.listdir
    _real_scandir = os.scandir

    def _key(path):
        try:
            p = os.fsdecode(path) if path is not None else '.'
        except Exception:
            p = '.'
        return zlib.crc32((str(_seed) + '\0' + os.path.basename(os.path.abspath(p))).encode('utf-8', 'surrogateescape'))

    def _listdir(path=None):
        res = _real_listdir(path) if path is not None else _real_listdir()
        if isinstance(path, int):
            return res
        res = sorted(res)
        random.Random(_key(path)).shuffle(res)
        return res

    class _ScandirIter:
        def __init__(self, path):
            it = _real_scandir(path) if path is not None else _real_scandir()
            with it:
                ents = list(it)
            if not isinstance(path, int):
                ents.sort(key=lambda e: e.name if isinstance(e.name, str) else os.fsdecode(e.name))
                random.Random(_key(path)).shuffle(ents)
            self._it = iter(ents)

        def __iter__(self):
            return self

        def __next__(self):
            return next(self._it)

        def close(self):
            self._it = iter(())

        def __enter__(self):
            return self

        def __exit__(self, *a):
            self.close()
            return False

    def _scandir(path=None):
        return _ScandirIter(path)

    os.listdir = _listdir
    os.scandir = _scandir
