"""C01 — reference implementation of the documented methods of str / int / bool / array / dict, in plain
Python, written from docs/yaml/elementary/*.yml and docs/markdown/Syntax.md (NOT from the holder classes and
NOT from the Lean model).

`ref_method(recv, name, args, kwargs)` answers
    ('ok', value)     the documentation prescribes this value
    ('error',)        the documentation prescribes a failure (wrong argument type/count, "causes a fatal error")
    None              the documentation does not say (or the case is outside the validated domain): no verdict
Values are plain Python data (int, bool, str, list, dict); comparison is type-exact (`deep_eq`).
"""
from __future__ import annotations

import re
import typing as T

OK = T.Tuple[str, T.Any]
Verdict = T.Optional[T.Tuple[T.Any, ...]]
ERROR: T.Tuple[str] = ('error',)

# arg_flattening: false in the yaml files
NO_FLATTEN = {('array', 'contains'), ('array', 'get'), ('dict', 'get'), ('str', 'format')}


def tyname(v: T.Any) -> T.Optional[str]:
    if isinstance(v, bool):
        return 'bool'
    if isinstance(v, int):
        return 'int'
    if isinstance(v, str):
        return 'str'
    if isinstance(v, list):
        return 'array'
    if isinstance(v, dict):
        return 'dict'
    return None


def plain(v: T.Any) -> bool:
    """only documented data: no interpreter objects"""
    if isinstance(v, (bool, int, str)):
        return True
    if isinstance(v, list):
        return all(plain(x) for x in v)
    if isinstance(v, dict):
        return all(isinstance(k, str) and plain(x) for k, x in v.items())
    return False


def strict_eq(a: T.Any, b: T.Any) -> bool:
    """equality of two values of the language: same type, same content (arrays element-wise in order,
    dictionaries as mappings)"""
    if tyname(a) != tyname(b):
        return False
    if isinstance(a, list):
        return len(a) == len(b) and all(strict_eq(x, y) for x, y in zip(a, b))
    if isinstance(a, dict):
        return a.keys() == b.keys() and all(strict_eq(a[k], b[k]) for k in a)
    return a == b


def flatten(args: T.List[T.Any]) -> T.List[T.Any]:
    out: T.List[T.Any] = []
    for a in args:
        if isinstance(a, list):
            out += flatten(a)
        else:
            out.append(a)
    return out


def is_int(v: T.Any) -> bool:
    return isinstance(v, int) and not isinstance(v, bool)


def ascii_only(s: str) -> bool:
    return all(ord(c) < 128 for c in s)


def contains_deep(arr: T.List[T.Any], item: T.Any, eq: T.Callable[[T.Any, T.Any], bool]) -> bool:
    """array.contains: the object is an element of the array or of an array nested in it"""
    for e in arr:
        if eq(e, item):
            return True
        if isinstance(e, list) and contains_deep(e, item, eq):
            return True
    return False


def loose_eq(a: T.Any, b: T.Any) -> bool:
    return a == b      # Python's ==: True == 1 (the recorded `bool is int` behaviour)


def has_bool_as_int(args: T.List[T.Any]) -> bool:
    return any(isinstance(a, bool) for a in args)


def version_key(v: str) -> T.Optional[T.Tuple[int, ...]]:
    if re.fullmatch(r'[0-9]{1,6}(\.[0-9]{1,6})*', v):
        return tuple(int(x) for x in v.split('.'))
    return None


def ref_method(recv: T.Any, name: str, raw_args: T.List[T.Any], kwargs: T.Dict[str, T.Any]) -> Verdict:
    t = tyname(recv)
    if t is None or not plain(recv) or not all(plain(a) for a in raw_args) or not all(plain(v) for v in kwargs.values()):
        return None
    args = raw_args if (t, name) in NO_FLATTEN else flatten(raw_args)
    n = len(args)

    def need(types: T.Sequence[str], opt: T.Sequence[str] = ()) -> T.Optional[bool]:
        """positional signature check; None = a bool stands where an int is documented (known quirk, no verdict)"""
        if n < len(types) or n > len(types) + len(opt):
            return False
        for a, ty in zip(args, list(types) + list(opt)):
            if ty == 'any':
                continue
            if ty == 'int' and isinstance(a, bool):
                return None
            if tyname(a) != ty:
                return False
        return True

    def sig(types: T.Sequence[str], opt: T.Sequence[str] = (), kw: T.Sequence[str] = ()) -> T.Optional[str]:
        if any(k not in kw for k in kwargs):
            return 'error'
        r = need(types, opt)
        if r is None:
            return 'skip'
        return 'ok' if r else 'error'

    # ------------------------------------------------------------------ str
    if t == 'str':
        s: str = recv
        if name in ('contains', 'startswith', 'endswith'):
            c = sig(['str'])
            if c != 'ok':
                return ERROR if c == 'error' else None
            x = args[0]
            return ('ok', (x in s) if name == 'contains' else s.startswith(x) if name == 'startswith' else s.endswith(x))
        if name == 'format':
            if kwargs:
                return ERROR
            if not all(isinstance(a, (bool, int, str)) for a in args):
                return None                      # containers: printed form is not specified by the method's docs
            strs = [a if isinstance(a, str) else ('true' if a else 'false') if isinstance(a, bool) else str(a) for a in args]
            if not ascii_only(s):
                return None
            if any(int(m) >= len(strs) for m in re.findall(r'@([0-9]+)@', s)):
                return ERROR                     # "replacing placeholders ... with the corresponding argument": there is none
            return ('ok', re.sub(r'@([0-9]+)@', lambda m: strs[int(m.group(1))], s))
        if name == 'replace':
            c = sig(['str', 'str'])
            if c != 'ok':
                return ERROR if c == 'error' else None
            if args[0] == '':
                return None
            return ('ok', s.replace(args[0], args[1]))
        if name == 'strip':
            c = sig([], ['str'])
            if c != 'ok':
                return ERROR if c == 'error' else None
            if not ascii_only(s):
                return None
            if n == 0:
                if any(ch in s for ch in '\x0b\x0c\x1c\x1d\x1e\x1f\r\t'):
                    return None                  # "spaces and newlines": other blank characters are not specified
                return ('ok', s.strip(' \n'))
            return ('ok', s.strip(args[0]) if args[0] else s)
        if name in ('to_lower', 'to_upper', 'underscorify', 'to_int', 'splitlines'):
            c = sig([])
            if c != 'ok':
                return ERROR
            if name == 'to_lower':
                return ('ok', s.lower()) if ascii_only(s) else None
            if name == 'to_upper':
                return ('ok', s.upper()) if ascii_only(s) else None
            if name == 'underscorify':
                return ('ok', ''.join(ch if (ch.isascii() and ch.isalnum()) else '_' for ch in s))
            if name == 'to_int':
                body = s.strip(' \n\t')
                if re.fullmatch(r'[+-]?[0-9]+', body):
                    return ('ok', int(body))
                if re.fullmatch(r'[+-]?(0[xXoObB])?[0-9a-fA-F_]+', body) or not ascii_only(s) or body != s.strip():
                    return None                  # other numeral spellings are not specified
                return ERROR
            if any(ch in s for ch in '\x0b\x0c\x1c\x1d\x1e\x85\u2028\u2029'):
                return None                      # only \n, \r, \r\n are documented line ends
            return ('ok', s.splitlines())
        if name == 'substring':
            c = sig([], ['int', 'int'])
            if c != 'ok':
                return ERROR if c == 'error' else None
            start = args[0] if n >= 1 else 0
            end = args[1] if n >= 2 else len(s)
            return ('ok', s[start:end])
        if name == 'split':
            c = sig([], ['str'])
            if c != 'ok':
                return ERROR if c == 'error' else None
            if n == 1:
                return None if args[0] == '' else ('ok', s.split(args[0]))
            if not ascii_only(s) or any(ch in s for ch in '\x0b\x0c\x1c\x1d\x1e\x1f'):
                return None
            return ('ok', s.split())
        if name == 'join':
            if kwargs or any(not isinstance(a, str) for a in args):
                return ERROR
            return ('ok', s.join(args))
        if name == 'version_compare':
            if kwargs or n < 1 or any(not isinstance(a, str) for a in args):
                return ERROR
            v = version_key(s)
            res = True
            for cond in args:
                m = re.fullmatch(r'\s*(>=|<=|!=|==|=|>|<)\s*([0-9.]+)\s*', cond)
                if v is None or not m or version_key(m.group(2)) is None:
                    return None
                w = version_key(m.group(2))
                op = m.group(1)
                res = res and {'>=': v >= w, '<=': v <= w, '!=': v != w, '==': v == w, '=': v == w, '>': v > w, '<': v < w}[op]
            return ('ok', res)
        return ERROR if name not in ('format',) else None

    # ------------------------------------------------------------------ int
    if t == 'int':
        i: int = recv
        if name in ('is_even', 'is_odd'):
            if sig([]) != 'ok':
                return ERROR
            return ('ok', (i % 2 == 0) if name == 'is_even' else (i % 2 == 1))
        if name == 'to_string':
            if n:
                return ERROR
            if any(k not in ('fill', 'format') for k in kwargs):
                return ERROR
            if 'format' in kwargs and kwargs['format'] != 'dec':
                return None                      # only the decimal rendering is described
            fill = kwargs.get('fill', 0)
            if isinstance(fill, bool):
                return None
            if not isinstance(fill, int):
                return ERROR
            return ('ok', str(i).zfill(fill) if fill > 0 else str(i))
        return ERROR

    # ------------------------------------------------------------------ bool
    if t == 'bool':
        b: bool = recv
        if name == 'to_int':
            return ('ok', 1 if b else 0) if sig([]) == 'ok' else ERROR
        if name == 'to_string':
            c = sig([], ['str', 'str'])
            if c != 'ok':
                return ERROR
            if n == 0:
                return ('ok', 'true' if b else 'false')
            if n == 1:
                return ERROR                     # both or none
            return ('ok', args[0] if b else args[1])
        return ERROR

    # ------------------------------------------------------------------ array
    if t == 'array':
        a: T.List[T.Any] = recv
        if name == 'contains':
            if sig(['any']) != 'ok':
                return ERROR
            strict = contains_deep(a, args[0], strict_eq)
            loose = contains_deep(a, args[0], loose_eq)
            return ('ok', strict) if strict == loose else ('ok2', strict, loose)
        if name == 'length':
            return ('ok', len(a)) if sig([]) == 'ok' else ERROR
        if name == 'flatten':
            return ('ok', flatten(a)) if sig([]) == 'ok' else ERROR
        if name == 'get':
            c = sig(['int'], ['any'])
            if c != 'ok':
                return ERROR if c == 'error' else None
            idx = args[0]
            if -len(a) <= idx < len(a):
                return ('ok', a[idx])
            return ('ok', args[1]) if n == 2 else ERROR
        if name == 'slice':
            c = sig([], ['int', 'int'], kw=['step'])
            if c != 'ok':
                return ERROR if c == 'error' else None
            step = kwargs.get('step', 1)
            if isinstance(step, bool):
                return None
            if not isinstance(step, int) or step == 0 or n == 1:
                return ERROR
            return ('ok', a[slice(args[0], args[1], step)] if n == 2 else a[::step])
        return ERROR

    # ------------------------------------------------------------------ dict
    if t == 'dict':
        d: T.Dict[str, T.Any] = recv
        if name == 'has_key':
            c = sig(['str'])
            return ('ok', args[0] in d) if c == 'ok' else ERROR
        if name == 'get':
            c = sig(['str'], ['any'])
            if c != 'ok':
                return ERROR
            if args[0] in d:
                return ('ok', d[args[0]])
            return ('ok', args[1]) if n == 2 else ERROR
        if name == 'keys':
            return ('ok', sorted(d)) if sig([]) == 'ok' else ERROR
        if name == 'values':
            return ('ok', [d[k] for k in sorted(d)]) if sig([]) == 'ok' else ERROR
        return ERROR
    return None
