"""Shared machinery for the /verif checks (see DESIGN.md §2).

A property module `harness/cNN.py` defines

    ID = 'C19'; LEVEL = 'proof'; LEAN_TARGETS = ['MesonModel.Props.C19']; PINS = [...]
    def run(ctx): ...

and uses the `Ctx` object for the Lean driver, disagreement / oracle reporting and evidence.
"""
from __future__ import annotations

import ast
import fcntl
import hashlib
import importlib
import inspect
import json
import os
import random
import re
import shutil
import subprocess
import sys
import tempfile
import textwrap
import time
import typing as T

VERIF = os.path.dirname(os.path.dirname(os.path.abspath(__file__)))
REPO = os.environ.get('VERIF_REPO', '/repo')
LEAN = os.path.join(VERIF, 'lean')
# A run against another checkout (VERIF_REPO=<scratch worktree>, used for seeded changes) regenerates
# MesonModel/Generated/*.lean from THAT tree. It must not touch the committed Lean project, so such a run works
# on a private copy of it (models, proofs and build products) that is removed at exit.
if os.environ.get('VERIF_LEAN_PRIVATE') and os.path.isdir(os.environ['VERIF_LEAN_PRIVATE']):
    LEAN = os.environ['VERIF_LEAN_PRIVATE']          # worker process of a run that already made its copy
elif os.path.realpath(REPO) != os.path.realpath('/repo') and not os.environ.get('VERIF_LEAN_INPLACE'):
    import atexit
    _priv = tempfile.mkdtemp(prefix='mverif-lean-')
    subprocess.run(['cp', '-a', '--reflink=auto', LEAN, os.path.join(_priv, 'lean')], check=True)
    LEAN = os.path.join(_priv, 'lean')
    os.environ['VERIF_LEAN_PRIVATE'] = LEAN
    _owner_pid = os.getpid()

    def _drop_private_lean(path: str = _priv) -> None:
        if os.getpid() == _owner_pid:
            shutil.rmtree(path, ignore_errors=True)
    atexit.register(_drop_private_lean)
BIN = os.path.join(LEAN, '.lake', 'build', 'bin')


def driver_path(area: str) -> str:
    return os.path.join(BIN, 'mvdriver-' + area)
WORK = os.path.join(VERIF, '.work')
ALLOWED_AXIOMS = {'propext', 'Classical.choice', 'Quot.sound'}
HYGIENE_RE = re.compile(r'\bsorry\b|\badmit\b|^\s*axiom\s|native_decide|bv_decide|implemented_by|\bunsafe\s|maxHeartbeats\s+0\b')

if REPO not in sys.path:
    sys.path.insert(0, REPO)


# ---------------------------------------------------------------- encoding

def enc(s: str) -> str:
    """string -> space separated decimal code points"""
    return ' '.join(str(ord(c)) for c in s)


def dec(f: str) -> str:
    return ''.join(chr(int(w)) for w in f.split())


def enc_list(l: T.Iterable[str]) -> str:
    return ','.join(enc(x) for x in l)


def dec_list(f: str) -> T.List[str]:
    if not f.strip():
        return []
    return [dec(x) for x in f.split(',')]


# ---------------------------------------------------------------- Lean side

class ToolFailure(Exception):
    """infrastructure failure (exit 2), never a verdict"""


def _lake(args: T.List[str], timeout: int = 3000) -> subprocess.CompletedProcess:
    os.makedirs(WORK, exist_ok=True)
    with open(os.path.join(LEAN, '.lock'), 'w') as lk:
        fcntl.flock(lk, fcntl.LOCK_EX)
        try:
            return subprocess.run(['lake'] + args, cwd=LEAN, stdout=subprocess.PIPE,
                                  stderr=subprocess.STDOUT, text=True, timeout=timeout)
        finally:
            fcntl.flock(lk, fcntl.LOCK_UN)


def build_driver(areas: T.List[str]) -> T.Tuple[bool, str]:
    """Build the model driver executable(s); they only contain models (and generated tables)."""
    p = _lake(['build'] + ['mvdriver-' + a for a in areas])
    return p.returncode == 0, p.stdout


def lean_build(targets: T.List[str]) -> T.Tuple[bool, str]:
    """Kernel re-check of the property's theorem modules (a failure is a failed obligation)."""
    p = _lake(['build'] + targets)
    return p.returncode == 0, p.stdout


def theorem_names(prop_file: str) -> T.List[str]:
    """fully qualified names of every theorem declared in a Props file"""
    names = []
    ns: T.List[str] = []
    for line in open(prop_file, encoding='utf-8'):
        m = re.match(r'\s*namespace\s+(\S+)', line)
        if m:
            ns.append(m.group(1))
            continue
        m = re.match(r'\s*end\s+(\S+)', line)
        if m and ns and ns[-1] == m.group(1):
            ns.pop()
            continue
        m = re.match(r'\s*(?:private\s+|protected\s+)?(?:theorem|lemma)\s+([^\s:({\[]+)', line)
        if m:
            names.append('.'.join(ns + [m.group(1)]))
    return names


def strip_lean_comments(src: str) -> str:
    out = []
    i = 0
    depth = 0
    n = len(src)
    while i < n:
        if src.startswith('/-', i):
            depth += 1
            i += 2
        elif depth and src.startswith('-/', i):
            depth -= 1
            i += 2
        elif depth:
            if src[i] == '\n':
                out.append('\n')
            i += 1
        elif src.startswith('--', i):
            while i < n and src[i] != '\n':
                i += 1
        elif src[i] == '"':
            j = i + 1
            while j < n and src[j] != '"':
                j += 2 if src[j] == '\\' else 1
            out.append('""')
            i = j + 1
        else:
            out.append(src[i])
            i += 1
    return ''.join(out)


def driver_roots(areas: T.List[str]) -> T.List[str]:
    """root modules of the driver executables of `areas` (from lakefile.toml)"""
    txt = open(os.path.join(LEAN, 'lakefile.toml')).read()
    out = []
    for a in areas:
        m = re.search(r'name = "mvdriver-%s"\s*\nroot = "([^"]+)"' % re.escape(a), txt)
        if m:
            out.append(m.group(1))
    return out


def import_closure(modules: T.List[str]) -> T.List[str]:
    """files of the Lean project transitively imported by `modules` (only project-local modules)"""
    seen: T.Dict[str, str] = {}
    todo = list(modules)
    while todo:
        m = todo.pop()
        if m in seen:
            continue
        path = os.path.join(LEAN, m.replace('.', '/') + '.lean')
        if not os.path.exists(path):
            continue
        seen[m] = path
        for line in open(path, encoding='utf-8'):
            mm = re.match(r'\s*(?:public\s+)?import\s+(\S+)', line)
            if mm and (mm.group(1).startswith('MesonModel') or mm.group(1).startswith('Driver')):
                todo.append(mm.group(1))
    return sorted(seen.values())


def hygiene_hits(modules: T.Optional[T.List[str]] = None) -> T.List[str]:
    """forbidden constructs (outside comments/strings) in the files the property depends on"""
    if modules is None:
        files = []
        for root, _d, fs in os.walk(LEAN):
            if '.lake' in root:
                continue
            files += [os.path.join(root, f) for f in fs if f.endswith('.lean')]
    else:
        files = import_closure(modules)
    hits = []
    for p in files:
        src = strip_lean_comments(open(p, encoding='utf-8').read())
        for i, line in enumerate(src.split('\n'), 1):
            if HYGIENE_RE.search(line):
                hits.append(f'{os.path.relpath(p, VERIF)}:{i}: {line.strip()[:80]}')
    return hits


def audit_axioms(prop_id: str, modules: T.List[str]) -> T.Dict[str, T.List[str]]:
    """`#print axioms` for every theorem of the property's Props modules."""
    names: T.List[str] = []
    for m in modules:
        names += theorem_names(os.path.join(LEAN, m.replace('.', '/') + '.lean'))
    os.makedirs(WORK, exist_ok=True)
    path = os.path.join(WORK, f'Audit_{prop_id}_{os.getpid()}.lean')
    with open(path, 'w') as f:
        for m in modules:
            f.write(f'import {m}\n')
        for n in names:
            f.write(f'#print axioms {n}\n')
    try:
        p = _lake(['env', 'lean', path])
    finally:
        os.unlink(path)
    res: T.Dict[str, T.List[str]] = {}
    out = p.stdout
    # "'X' depends on axioms: [a, b]"  or "'X' does not depend on any axioms"
    for m in re.finditer(r"'([^']+)' depends on axioms: \[([^\]]*)\]", out, re.S):
        res[m.group(1)] = [a.strip() for a in m.group(2).replace('\n', ' ').split(',') if a.strip()]
    for m in re.finditer(r"'([^']+)' does not depend on any axioms", out):
        res[m.group(1)] = []
    missing = [n for n in names if n not in res]
    if p.returncode != 0 or missing:
        raise ToolFailure(f'axiom audit failed for {prop_id}: rc={p.returncode} missing={missing[:5]}\n{out[-2000:]}')
    return res


def run_driver(area: str, lines: T.Sequence[str], chunk: int = 200000) -> T.List[str]:
    """Feed protocol lines to the native model driver of `area`, return one answer per line."""
    DRIVER = driver_path(area)
    if not os.path.exists(DRIVER):
        raise ToolFailure('driver not built: ' + DRIVER)
    out: T.List[str] = []
    for i in range(0, len(lines), chunk):
        part = lines[i:i + chunk]
        data = ('\n'.join(part) + '\n').encode('utf-8')
        p = subprocess.run([DRIVER], input=data, stdout=subprocess.PIPE, stderr=subprocess.PIPE, timeout=3000)
        if p.returncode != 0:
            raise ToolFailure(f'driver exited {p.returncode}: {p.stderr[-500:]!r}')
        res = p.stdout.decode('utf-8').split('\n')
        if res and res[-1] == '':
            res.pop()
        if len(res) != len(part):
            raise ToolFailure(f'driver answered {len(res)} lines for {len(part)} requests')
        out += res
    return out


# ---------------------------------------------------------------- source pins

def _norm_ast(node: ast.AST) -> str:
    for n in ast.walk(node):
        body = getattr(n, 'body', None)
        if isinstance(body, list) and body and isinstance(body[0], ast.Expr) and \
                isinstance(getattr(body[0], 'value', None), ast.Constant) and isinstance(body[0].value.value, str):
            n.body = body[1:] or [ast.Pass()]
    return ast.dump(node, include_attributes=False)


def _find_qual(tree: ast.AST, parts: T.List[str]) -> T.Optional[ast.AST]:
    node: ast.AST = tree
    for part in parts:
        nxt = None
        for child in ast.iter_child_nodes(node):
            if isinstance(child, (ast.FunctionDef, ast.AsyncFunctionDef, ast.ClassDef)) and child.name == part:
                nxt = child
            elif isinstance(child, (ast.Assign, ast.AnnAssign)):
                targets = child.targets if isinstance(child, ast.Assign) else [child.target]
                if any(isinstance(t, ast.Name) and t.id == part for t in targets):
                    nxt = child
        if nxt is None:
            return None
        node = nxt
    return node


def pin_hash(spec: str) -> str:
    """spec = 'module:qualname' (function, method, class or module-level assignment)"""
    modname, qual = spec.split(':')
    mod = importlib.import_module(modname)
    obj: T.Any = mod
    for part in qual.split('.'):
        obj = getattr(obj, part) if not isinstance(obj, dict) else obj[part]
    obj = inspect.unwrap(obj) if callable(obj) else obj
    try:
        src = textwrap.dedent(inspect.getsource(obj))
        node: T.Optional[ast.AST] = ast.parse(src)
    except (SyntaxError, TypeError, OSError, IndentationError):
        # e.g. a method whose body holds a string literal starting in column 0: take the node from the module's AST
        node = _find_qual(ast.parse(inspect.getsource(mod)), qual.split('.'))
        if node is None:
            raise
    return hashlib.sha256(_norm_ast(node).encode()).hexdigest()[:16]


def check_pins(prop_id: str, specs: T.List[str]) -> T.Dict[str, str]:
    """returns {spec: 'ok'|'changed'|'new'|'error:..'}"""
    path = os.path.join(VERIF, 'pins.json')
    pins = json.load(open(path)) if os.path.exists(path) else {}
    mine = pins.get(prop_id, {})
    res = {}
    for s in specs:
        try:
            h = pin_hash(s)
        except Exception as e:  # a renamed function is itself a change
            res[s] = f'error:{type(e).__name__}'
            continue
        res[s] = 'new' if s not in mine else ('ok' if mine[s] == h else 'changed')
    return res


def write_pins(prop_id: str, specs: T.List[str]) -> None:
    path = os.path.join(VERIF, 'pins.json')
    pins = json.load(open(path)) if os.path.exists(path) else {}
    pins[prop_id] = {s: pin_hash(s) for s in specs}
    json.dump(pins, open(path, 'w'), indent=1, sort_keys=True)


# ---------------------------------------------------------------- known findings

def load_known(prop_id: str) -> T.Tuple[T.Dict[str, str], T.List[str]]:
    """-> ({key: description} for `finding:` lines, [descriptions of `fixed:` lines])"""
    findings: T.Dict[str, str] = {}
    fixed: T.List[str] = []
    path = os.path.join(VERIF, 'known_findings.txt')
    if os.path.exists(path):
        for line in open(path, encoding='utf-8'):
            line = line.strip()
            m = re.match(r'finding:\s+property=(\S+)\s+key=(\S+)\s+(.*)', line)
            if m and m.group(1) == prop_id:
                findings[m.group(2)] = m.group(3)
            m = re.match(r'fixed:\s+property=(\S+)\s+(.*)', line)
            if m and m.group(1) == prop_id:
                fixed.append(m.group(2))
    return findings, fixed


# ---------------------------------------------------------------- context

class Ctx:
    def __init__(self, prop_id: str, tier: str, seed: int, level: str):
        self.id = prop_id
        self.tier = tier
        self.seed = seed
        self.level = level
        self.rng = random.Random(seed)
        self.t0 = time.time()
        self.evaluations = 0
        self.nontrivial: T.Set[T.Any] = set()
        self.samples: T.List[T.Any] = []
        self.dist: T.Dict[str, int] = {}
        self.disagreements: T.List[dict] = []
        self.violations: T.List[dict] = []
        self.known_hits: T.Dict[str, str] = {}
        self.obligations_failed: T.List[str] = []
        self.notes: T.List[str] = []
        self.assumptions: T.List[str] = []
        self.extra: T.Dict[str, T.Any] = {}
        self.rule = ''
        self.known, self.fixed = load_known(prop_id)
        self.pin_status: T.Dict[str, str] = {}
        self.workdir = os.path.join(WORK, f'{prop_id}')
        os.makedirs(self.workdir, exist_ok=True)
        self.deep = tier == 'thorough'
        self._replay_n = 0
        self.exhaustive = False
        self.model_available = True

    # sizing: quick unless thorough tier or a pinned source changed
    def scale(self, quick: int, thorough: int) -> int:
        return thorough if self.deep else quick

    def tag(self, name: str, n: int = 1) -> None:
        self.dist[name] = self.dist.get(name, 0) + n

    def count(self, n: int = 1) -> None:
        self.evaluations += n

    def seen_nontrivial(self, key: T.Any) -> None:
        if len(self.nontrivial) < 2_000_000:
            self.nontrivial.add(key)

    def sample(self, case: T.Any, limit: int = 8) -> None:
        if len(self.samples) < limit:
            self.samples.append(case)

    def driver(self, area: str, lines: T.Sequence[str]) -> T.List[str]:
        """one answer line per request line from the native Lean model driver `mvdriver-<area>`"""
        return run_driver(area, lines)

    def write_replay(self, obj: dict) -> str:
        self._replay_n += 1
        path = os.path.join(self.workdir, f'replay-{self._replay_n}.json')
        with open(path, 'w') as f:
            json.dump(obj, f, indent=1, default=repr)
        return path

    def disagreement(self, case: dict) -> None:
        """model and implementation differ on `case` (not a verdict by itself)"""
        if len(self.disagreements) < 50:
            self.disagreements.append(case)
        self.tag('disagreement')

    def violation(self, key: str, what: str, case: dict) -> None:
        """the property's own oracle failed on the implementation for `case`"""
        if key in self.known:
            self.known_hits[key] = self.known[key]
            return
        if key in [v['key'] for v in self.violations]:
            return
        if len(self.violations) < 400:
            self.violations.append({'key': key, 'what': what, 'case': case})

    def obligation_failed(self, name: str, detail: str = '') -> None:
        self.obligations_failed.append(name + (': ' + detail if detail else ''))


def write_evidence(ctx: Ctx, coverage: dict, violations: int) -> None:
    os.makedirs(os.path.join(VERIF, 'evidence'), exist_ok=True)
    ev = {
        'property_id': ctx.id,
        'tier': ctx.tier,
        'seed': ctx.seed,
        'level': ctx.level,
        'coverage': coverage,
        'assumptions': ctx.assumptions,
        'wall_s': round(time.time() - ctx.t0, 2),
        'violations': violations,
    }
    path = os.path.join(VERIF, 'evidence', f'{ctx.id}.json')
    tmp = path + f'.{os.getpid()}.tmp'
    with open(tmp, 'w') as f:
        json.dump(ev, f, indent=1, default=repr)
    os.replace(tmp, path)


def scratch_dir(prefix: str = 'mverif-') -> str:
    """scratch outside /repo and /verif; caller removes it"""
    base = os.environ.get('VERIF_SCRATCH', tempfile.gettempdir())
    return tempfile.mkdtemp(prefix=prefix, dir=base)


def rmtree(path: str) -> None:
    shutil.rmtree(path, ignore_errors=True)
