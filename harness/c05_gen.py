"""Random C projects whose build steps *really* consume each other's outputs (C05).

Unlike `projgen` (breadth of target kinds and names, but sources that include nothing), every dependency that is declared
at the meson level here is load-bearing: C files include generated headers and use their macros, generated C files are
compiled and their functions called, custom commands read the outputs of other custom commands / built programs /
libraries, generators are built executables.  The projects are *valid by construction*: whatever a step reads is
guaranteed by a meson-level declaration (sources of the target, `dependencies:`, `input:`, `depends:`, `depend_files:`,
a target object in `command:`, `link_with`/`link_whole`, `objects:`), so a step that fails for want of a file is a
missing edge in the generated graph, not a mistake of the project.

gen_project(rng) -> {'files': {rel: text}, 'features': [tags…]}
"""
from __future__ import annotations

import os
import typing as T

TOOL_PY = open(os.path.join(os.path.dirname(__file__), 'c05_projects', 'tool.py'), encoding='utf-8').read()

MKTOOL_C = r'''#include <stdio.h>
#include <string.h>
%(includes)s
int main(int argc, char **argv) {
  /* mktool OUT.h NAME [FILE...]  ("-" = stdout) */
  unsigned v = %(base)s;
  int i, c;
  FILE *o;
  if (argc < 3) return 1;
  for (i = 3; i < argc; i++) {
    FILE *f = fopen(argv[i], "rb");
    if (!f) { fprintf(stderr, "mktool: cannot read %%s\n", argv[i]); return 2; }
    while ((c = fgetc(f)) != EOF) v = (v * 31 + (unsigned)c) %% 9973;
    fclose(f);
  }
  o = strcmp(argv[1], "-") ? fopen(argv[1], "w") : stdout;
  if (!o) return 3;
  fprintf(o, "#ifndef G_%%s\n#define G_%%s\n#define %%s %%u\n#endif\n", argv[2], argv[2], argv[2], v);
  return 0;
}
'''


def q(s: str) -> str:
    return "'" + s.replace('\\', '\\\\').replace("'", "\\'") + "'"


class Gen:
    def __init__(self, rng):
        self.rng = rng
        self.files: T.Dict[str, str] = {}
        self.lines: T.Dict[str, T.List[str]] = {}
        self.n = 0
        self.tags: T.Set[str] = set()
        self.hdrs: T.List[dict] = []     # usable generated/configured headers
        self.cts: T.List[dict] = []
        self.gens: T.List[dict] = []
        self.libs: T.List[dict] = []
        self.deps: T.List[dict] = []
        self.tools: T.List[dict] = []
        self.exes: T.List[dict] = []
        self.incvar: T.Dict[str, str] = {}
        self.noflat = False

    def nid(self) -> int:
        self.n += 1
        return self.n

    def emit(self, d: str, line: str) -> None:
        self.lines.setdefault(d, []).append(line)

    def inc_of(self, d: str) -> str:
        if d not in self.incvar:
            v = 'inc_' + (d.replace('/', '_').replace(' ', '_') or 'root')
            self.incvar[d] = v
            self.lines.setdefault(d, []).insert(1 if d == '' else 0, f"{v} = include_directories('.')")
        return self.incvar[d]

    def tag(self, t: str) -> None:
        self.tags.add(t)

    # ---- pieces
    def static_src(self, d: str, text: str, stem='s', ext='.c') -> str:
        fn = f'{stem}{self.nid()}{ext}'
        self.files[os.path.join(d, fn)] = text
        return fn

    def mk_cfg(self, d: str) -> None:
        k = self.nid()
        h = {'file': f'cfg{k}.h', 'macro': f'CFG{k}', 'dir': d, 'ct': None, 'needs': [], 'var': f'cf{k}'}
        if self.rng.random() < 0.5:
            self.emit(d, f"cf{k} = configure_file(output: {q(h['file'])}, configuration: {{{q(h['macro'])}: {k}}})")
        else:
            self.files[os.path.join(d, f'cfg{k}.h.in')] = f'#define {h["macro"]} @V@\n'
            self.emit(d, f"cf{k} = configure_file(input: 'cfg{k}.h.in', output: {q(h['file'])}, configuration: {{'V': {k}}})")
        self.inc_of(d)
        self.hdrs.append(h)
        self.tag('configure_file')

    def read_decl(self, d: str, kws: T.Dict[str, T.List[str]], args: T.List[str]) -> None:
        """make the command read something, declared in one of the meson ways"""
        rng = self.rng
        r = rng.random()
        built = [c for c in self.cts if c['txt'] or c['hdrs']]
        if r < 0.3 or not built:
            fn = self.static_src(d, f'data {self.n}\n', 'in', '.txt')
            kws.setdefault('input', []).append(q(fn))
            self.tag('ct-input-file')
        elif r < 0.55:
            c = rng.choice(built)
            kws.setdefault('input', []).append(c['var'])
            self.tag('ct-input-ct')
        elif r < 0.7:
            c = rng.choice(built)
            if len(c['outs']) > 1 and rng.random() < 0.5:
                kws.setdefault('depends', []).append(c['var'] + '[0]')
                self.tag('ct-depends-index')
            else:
                kws.setdefault('depends', []).append(c['var'])
            args += ["'--from'", f"{c['var']}.full_path()"]
            self.tag('ct-depends')
        elif r < 0.8:
            # the other target itself as a command argument (expands to its path and makes it a dependency)
            c = rng.choice(built)
            args += ["'--from'", c['var'] + '[0]']
            self.tag('ct-command-arg-target')
        else:
            fn = self.static_src(d, f'dep data {self.n}\n', 'dep', '.txt')
            kws.setdefault('depend_files', []).append(f'files({q(fn)})')
            args += ["'--from'", f"meson.current_source_dir() / {q(fn)}"]
            self.tag('ct-depend_files')
        if rng.random() < 0.25 and (self.libs or self.exes):
            t = rng.choice(self.libs + self.exes)
            if t.get('var_for_input'):
                kws.setdefault('input', []).append(t['var_for_input'])
                self.tag('ct-input-binary')

    def mk_ct(self, d: str) -> None:
        rng = self.rng
        k = self.nid()
        var = f'ct{k}'
        kws: T.Dict[str, T.List[str]] = {}
        extra: T.List[str] = []
        ct = {'var': var, 'dir': d, 'hdrs': [], 'srcs': [], 'txt': None, 'outs': []}
        mode = rng.choice(['hdr', 'hdr', 'pair', 'src', 'cat', 'tool', 'tool-capture'])
        if mode.startswith('tool') and not self.tools:
            mode = 'hdr'
        for _ in range(rng.randint(0, 2)):
            self.read_decl(d, kws, extra)
        has_in = 'input' in kws
        froms = (["'--from'", "'@INPUT@'"] if has_in else [])
        # '--from @INPUT@' only names the first input when there are several: spell them out
        if has_in:
            froms = []
            for i in range(len(kws['input'])):
                froms += ["'--from'", f"'@INPUT{i}@'"]
        needs: T.List[str] = []
        incs: T.List[str] = []
        if mode in ('hdr', 'pair', 'src') and self.hdrs and rng.random() < 0.4:
            # the generated file includes an earlier generated header; whoever produces that one becomes a dependency
            h = rng.choice(self.hdrs)
            incs = ["'--inc'", q(h['file'])]
            needs = [h['dir']] + h['needs']
            loose = None
            if h['ct'] and mode == 'src' and rng.random() < 0.5:
                # nothing orders the two generators (the script does not open the header); whoever compiles the generated
                # source must list the header's target as well
                loose = h
                self.tag('generated-source-includes-foreign-generated-header')
            elif h['ct']:
                kws.setdefault('depends', []).append(h['ct'])
            self.tag('nested-generated-include')
        if mode == 'hdr':
            hf, macro = f'h{k}.h', f'M{k}'
            ct['outs'] = [hf]
            if mode == 'hdr' and incs:
                # only a header may carry an #include of another header and stay usable everywhere
                pass
            cmd = ['tool', "'hdr'", "'@OUTPUT@'", q(macro)] + incs + froms + extra
            ct['hdrs'] = [{'file': hf, 'macro': macro, 'dir': d, 'ct': var, 'needs': needs, 'var': var}]
            if rng.random() < 0.25:
                kws['depfile'] = [q(f'h{k}.d')]
                cmd += ["'--depfile'", "'@DEPFILE@'"]
                self.tag('ct-depfile')
        elif mode == 'pair':
            cf, hf, fn = f'p{k}.c', f'p{k}.h', f'pf{k}'
            ct['outs'] = [cf, hf]
            # the generated .c includes other headers only by "--use": keep it simple, own header only
            cmd = ['tool', "'pair'", "'@OUTPUT0@'", "'@OUTPUT1@'", q(fn)] + froms + extra
            ct['hdrs'] = [{'file': hf, 'macro': fn.upper(), 'dir': d, 'ct': var, 'needs': [], 'var': var + '[1]'}]
            ct['srcs'] = [{'file': cf, 'func': fn, 'var': var + '[0]'}]
            self.tag('ct-multi-output')
        elif mode == 'src':
            cf, fn = f'g{k}.c', f'gf{k}'
            ct['outs'] = [cf]
            use = []
            if incs:
                use = ["'--use'", q(h['macro'])]
            cmd = ['tool', "'src'", "'@OUTPUT@'", q(fn)] + incs + use + froms + extra
            ct['srcs'] = [{'file': cf, 'func': fn, 'var': var, 'needs': needs, 'requires': loose if incs else None}]
        elif mode == 'cat':
            tf = f'd{k}.txt'
            ct['outs'] = [tf]
            if rng.random() < 0.4:
                kws['capture'] = ['true']
                cmd = ['tool', "'cat'", "'-'"] + [x for x in froms if x != "'--from'"] + extra
                self.tag('ct-capture')
            else:
                cmd = ['tool', "'cat'", "'@OUTPUT@'"] + [x for x in froms if x != "'--from'"] + extra
            ct['txt'] = tf
        else:
            t = rng.choice(self.tools)
            hf, macro = f'h{k}.h', f'M{k}'
            ct['outs'] = [hf]
            files = [x for x in froms + extra if x != "'--from'"]
            if mode == 'tool-capture':
                kws['capture'] = ['true']
                cmd = [t['var'], "'-'", q(macro)] + files
                self.tag('ct-capture')
            else:
                cmd = [t['var'], "'@OUTPUT@'", q(macro)] + files
            ct['hdrs'] = [{'file': hf, 'macro': macro, 'dir': d, 'ct': var, 'needs': [], 'var': var}]
            self.tag('ct-built-tool')
        parts = [q(f'gen{k}'), 'output: [' + ', '.join(q(o) for o in ct['outs']) + ']', 'command: [' + ', '.join(cmd) + ']']
        for key, vals in kws.items():
            parts.append(f"{key}: [{', '.join(vals)}]" if key not in ('capture', 'depfile') else f'{key}: {vals[0]}')
        if rng.random() < 0.3:
            parts.append('build_by_default: true')
        if rng.random() < 0.08:
            parts.append('build_always_stale: true')
        self.emit(d, f"{var} = custom_target({', '.join(parts)})")
        self.inc_of(d)
        self.cts.append(ct)
        self.hdrs += ct['hdrs']
        self.tag('custom_target')

    def mk_generator(self, d: str) -> None:
        rng = self.rng
        k = self.nid()
        var = f'gr{k}'
        g = {'var': var, 'hdr': rng.random() < 0.6, 'extra': None}
        outs = "['@BASENAME@.c', '@BASENAME@.h']" if g['hdr'] else "['@BASENAME@.c']"
        args = ["'gen'", "'@INPUT@'", "'@OUTPUT0@'"] + (["'@OUTPUT1@'"] if g['hdr'] else [])
        kw = ''
        built = [c for c in self.cts if c['txt'] or c['hdrs']]
        if built and rng.random() < 0.4:
            c = rng.choice(built)
            args += ["'--from'", f"{c['var']}.full_path()"]
            kw = f', depends: [{c["var"]}]'
            self.tag('generator-depends')
        self.emit(d, f"{var} = generator(tool, output: {outs}, arguments: [{', '.join(args)}]{kw})")
        self.gens.append(g)
        self.tag('generator')

    def c_body(self, funcs_called: T.List[str], hdrs: T.List[dict], own: str, main: bool, quoted_hdrs=()) -> str:
        t = ''
        for h in hdrs:
            t += f'#include "{h["file"]}"\n'
        for hn in quoted_hdrs:
            t += f'#include "{hn}"\n'
        for f in funcs_called:
            t += f'int {f}(void);\n'
        expr = ' + '.join([str(self.n)] + [h['macro'] for h in hdrs] + [f + '()' for f in funcs_called])
        if main:
            t += f'int main(void) {{ return ({expr}) == -1; }}\n'
        else:
            t += f'int {own}(void) {{ return {expr}; }}\n'
        return t

    def mk_target(self, d: str, kind: str) -> None:
        """kind: executable | static_library | shared_library | both_libraries | tool"""
        rng = self.rng
        k = self.nid()
        var = f't{k}'
        name = f'{kind[:3]}{k}'
        positional: T.List[str] = []
        kws: T.List[str] = []
        usable: T.List[dict] = []            # headers the sources may include
        incdirs: T.List[str] = []
        own_funcs: T.List[str] = []          # functions defined by generated sources of this target
        ext_funcs: T.List[str] = []          # functions of linked libraries
        # libraries first: a function must not be defined twice in one link
        libs = []
        if kind != 'tool' or rng.random() < 0.3:
            libs = rng.sample(self.libs, min(len(self.libs), rng.choice([0, 1, 1, 2])))
        deps = rng.sample(self.deps, min(len(self.deps), rng.choice([0, 0, 1])))
        taken: T.Set[str] = set()
        keep = []
        for lb in libs:
            if not (lb['contains'] & taken):
                keep.append(lb)
                taken |= lb['contains']
        libs = keep
        keep = []
        for dp in deps:
            if not (dp['contains'] & taken) or any(dp['lib'] == lb['var'] for lb in libs):
                keep.append(dp)
                taken |= dp['contains']
        deps = keep
        # generated sources from custom targets
        for c in rng.sample(self.cts, min(len(self.cts), rng.choice([0, 1, 1, 2]))):
            if not (c['hdrs'] or c['srcs']):
                continue
            if any(s['func'] in taken for s in c['srcs']):
                continue
            taken |= {s['func'] for s in c['srcs']}
            whole = rng.random() < 0.6 or len(c['outs']) == 1
            if whole:
                positional.append(c['var'])
                usable += c['hdrs']
                own_funcs += [s['func'] for s in c['srcs']]
                for s in c['srcs']:
                    incdirs += s.get('needs', [])
                    if s.get('requires'):
                        positional.append(s['requires']['var'])
                        usable.append(s['requires'])
            else:
                # only the header of a pair, by index
                positional.append(c['hdrs'][0]['var'])
                usable += c['hdrs']
                self.tag('ct-index')
            self.tag('target-ct-sources')
        # generator outputs
        gen_hdrs: T.List[str] = []
        ngen = rng.choice([0, 1, 1, 2]) if kind in ('static_library', 'shared_library') else rng.choice([0, 0, 1, 2])
        for g in rng.sample(self.gens, min(len(self.gens), ngen)):
            ident = f'gi{self.nid()}'
            self.files[os.path.join(d, ident + '.in')] = ident + '\n'
            positional.append(f"{g['var']}.process({q(ident + '.in')})")
            own_funcs.append(ident)
            if g['hdr']:
                gen_hdrs.append(ident + '.h')
            self.tag('target-generator-sources')
        # configured headers
        cfgs = [h for h in self.hdrs if h['ct'] is None]
        if cfgs and rng.random() < 0.5:
            usable.append(rng.choice(cfgs))
        # dependencies
        dep_hdrs: T.List[dict] = []
        reach: T.List[dict] = []             # generator-made headers of libraries this target links, however it reaches them
        absorbed: T.List[str] = []           # functions of libraries whose objects end up inside this target (if a library)
        dep_exprs = []
        for dp in deps:
            dep_hdrs += dp['hdrs']
            ext_funcs += dp['funcs']
            reach += dp['reach_hdrs']
            self.tag('target-dependency')
            if dp['all_static'] and dp['level'] == 1 and rng.random() < 0.3:
                dep_exprs.append(dp['var'] + '.as_link_whole()')
                absorbed += dp['funcs']
                self.tag('dep-as_link_whole')
                if dp['reach_hdrs']:
                    self.tag('reach:as_link_whole')
            else:
                dep_exprs.append(dp['var'])
                if dp['whole']:
                    absorbed += dp['funcs']
                if dp['reach_hdrs']:
                    self.tag('reach:declare_dependency' + ('-link_whole' if dp['whole'] else '') +
                             ('-two-level' if dp['level'] > 1 else ''))
        if deps:
            kws.append('dependencies: [' + ', '.join(dep_exprs) + ']')
        installed = False
        if kind == 'static_library' and rng.random() < 0.3 or kind == 'shared_library' and rng.random() < 0.15:
            installed = True
            kws.append('install: true')
        # libraries
        lw, lwh = [], []
        for lb in libs:
            how = 'link_with-' + ('static' if lb['static'] else 'shared-or-both')
            if lb['static'] and rng.random() < 0.3:
                lwh.append(lb['var'])
                absorbed += lb['funcs']
                how = 'link_whole'
                self.tag('link_whole')
            else:
                lw.append(lb['var'])
                self.tag('link_with')
                if kind == 'static_library' and installed and lb['static'] and not lb['installed']:
                    # StaticLibrary.link(): an installed static library linking a non-installed one -> link_whole
                    absorbed += lb['funcs']
                    how = 'promoted-link_with'
                    self.tag('static-promotion')
            ext_funcs += lb['funcs']
            reach += lb['reach_hdrs']
            if lb['reach_hdrs']:
                self.tag('reach:' + how)
        if lw:
            kws.append('link_with: [' + ', '.join(lw) + ']')
        if lwh:
            kws.append('link_whole: [' + ', '.join(lwh) + ']')
        objs_from = None
        stat = [lb for lb in self.libs if lb['static'] and lb['var'] not in lw + lwh and lb['self_contained']
                and not (lb['contains'] & taken)]
        if kind == 'executable' and stat and rng.random() < 0.2:
            objs_from = rng.choice(stat)
            kws.append(f"objects: {objs_from['var']}.extract_all_objects(recursive: false)")
            ext_funcs += objs_from['own_funcs']
            taken |= objs_from['contains']
            self.tag('extract_objects')
        ext_funcs = sorted(set(ext_funcs))
        for h in usable:
            incdirs += [h['dir']] + h['needs']
        reach = list({h['file']: h for h in reach}.values())
        if reach:
            # included relative to the build root, e.g. "lib/libsta5.a.p/gi7.h"
            incdirs.append('')
            self.noflat = True
            self.tag('consumer-of-reached-generator-header:' + kind)
        incs = sorted(set(self.inc_of(x) for x in incdirs))
        if incs:
            kws.append('include_directories: [' + ', '.join(incs) + ']')
        # own static sources
        nsrc = rng.randint(1, 2)
        srcs = []
        funcs = []
        all_h = usable + dep_hdrs + reach
        for i in range(nsrc):
            is_main = (i == 0 and kind in ('executable', 'tool'))
            fn = f'f{self.nid()}'
            hs = [h for h in all_h if rng.random() < 0.7] if not (i == 0) else list(all_h)
            called = (own_funcs + ext_funcs) if i == 0 else []
            body = self.c_body(called, hs, fn, is_main, gen_hdrs if i == 0 else ())
            srcs.append(self.static_src(d, body))
            if not is_main:
                funcs.append(fn)
        if kind == 'tool':
            # a generator program: its constant comes from the headers it can see
            base = ' + '.join(['1'] + [h['macro'] for h in all_h])
            incl = ''.join(f'#include "{h["file"]}"\n' for h in all_h)
            srcs = [self.static_src(d, MKTOOL_C % {'includes': incl, 'base': base}, 'mktool')]
            funcs = []
            positional = [p for p in positional if '.process(' not in p]
            kws = [x for x in kws if not x.startswith('objects:')]
            # generated .c files of custom targets would be linked in but are harmless
        mfunc = {'executable': 'executable', 'tool': 'executable'}.get(kind, kind)
        if kind in ('executable',) and rng.random() < 0.15:
            kws.append('build_by_default: false')
        positional = list(dict.fromkeys(positional))
        args = ', '.join([q(name)] + [q(s) for s in srcs] + positional + kws)
        self.emit(d, f'{var} = {mfunc}({args})')
        self.tag(kind)
        callable_funcs = funcs + own_funcs + (ext_funcs if False else [])
        if kind == 'tool':
            self.tools.append({'var': var})
            self.exes.append({'var': var, 'var_for_input': var})
        elif kind == 'executable':
            self.exes.append({'var': var, 'var_for_input': var})
        else:
            static = kind == 'static_library'
            # what a dependent may call: this library's own functions; through link_whole also the absorbed ones
            exported = list(funcs + own_funcs) + absorbed
            contains = set(funcs + own_funcs) | taken
            own_priv: T.List[dict] = []
            if kind in ('static_library', 'shared_library'):
                pdir = os.path.join(d, f"lib{name}.{'a' if static else 'so'}.p")
                own_priv = [{'file': os.path.join(pdir, hn), 'macro': hn[:-2].upper(), 'dir': '', 'ct': None, 'needs': [],
                             'var': None} for hn in gen_hdrs]
            reach_out = list({h['file']: h for h in own_priv + reach}.values())
            self.libs.append({'var': var, 'static': static, 'funcs': sorted(set(exported)), 'own_funcs': funcs + own_funcs,
                              'contains': contains, 'installed': installed, 'reach_hdrs': reach_out,
                              'self_contained': not ext_funcs, 'var_for_input': var if kind != 'both_libraries' else None})
            if rng.random() < 0.5:
                # a dependency object: the library plus (maybe) generated headers for its users
                dk = self.nid()
                hs = [h for h in self.hdrs if h['ct'] and h['var'] and rng.random() < 0.4][:2]
                srcs_kw = ''
                dincs: T.List[str] = []
                for h in hs:
                    dincs += [h['dir']] + h['needs']
                if hs:
                    srcs_kw = ', sources: [' + ', '.join(h['var'] for h in hs) + ']'
                    srcs_kw += ', include_directories: [' + ', '.join(sorted(set(self.inc_of(x) for x in dincs))) + ']'
                    self.tag('declare_dependency-sources')
                whole = static and rng.random() < 0.25
                self.emit(d, f"dp{dk} = declare_dependency({'link_whole' if whole else 'link_with'}: {var}{srcs_kw})")
                dep = {'var': f'dp{dk}', 'hdrs': hs, 'funcs': sorted(set(exported)), 'contains': contains, 'lib': var,
                       'reach_hdrs': reach_out, 'all_static': static, 'whole': whole, 'level': 1}
                self.deps.append(dep)
                if rng.random() < 0.35:
                    dk2 = self.nid()
                    self.emit(d, f'dp{dk2} = declare_dependency(dependencies: dp{dk})')
                    self.deps.append(dict(dep, var=f'dp{dk2}', level=2))
                    self.tag('declare_dependency-two-level')


def gen_project(rng, max_items: int = 10) -> dict:
    g = Gen(rng)
    g.files['tool.py'] = TOOL_PY
    lang_opts = rng.choice(["", ", default_options: ['warning_level=0']", ", default_options: ['buildtype=release']"])
    g.emit('', f"project('c05 proj', 'c'{lang_opts})")
    g.emit('', "tool = find_program('tool.py')")
    dirs = ['']
    if rng.random() < 0.7:
        dirs += rng.sample(['lib', 'gen', 'sub dir', 'tools'], rng.randint(1, 2))
    n = rng.randint(4, max_items)
    if rng.random() < 0.5:
        g.mk_generator('')
    cur = ''
    opened: T.List[str] = []
    for i in range(n):
        # walk through the directories in order: root, d1, root, d2, root  (a subdir() may only be entered once)
        if rng.random() < 0.3:
            rest = [x for x in dirs[1:] if x not in opened]
            if cur == '' and rest:
                cur = rest[0]
                opened.append(cur)
                g.emit('', f'subdir({q(cur)})')
                g.lines.setdefault(cur, [])
                g.tag('subdir')
            else:
                cur = ''
        r = rng.random()
        if r < 0.30:
            g.mk_ct(cur)
        elif r < 0.38:
            g.mk_cfg(cur)
        elif r < 0.46:
            g.mk_generator(cur)
        elif r < 0.54:
            g.mk_target(cur, 'tool')
        elif r < 0.78:
            g.mk_target(cur, rng.choice(['static_library', 'static_library', 'shared_library', 'both_libraries']))
        else:
            g.mk_target(cur, 'executable')
    # always end with an executable that pulls things together
    g.mk_target('', 'executable')
    for d, lines in g.lines.items():
        g.files[os.path.join(d, 'meson.build')] = '\n'.join(lines) + '\n'
    return {'files': g.files, 'features': sorted(g.tags), 'noflat': g.noflat}
