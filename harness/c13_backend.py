"""C13, second part: `to_native` on real compiler objects (gcc-like and other linker flavours) and the backend's
assembly of one compile line (`_generate_single_compile_base_args`, `generate_basic_compiler_args`,
`_generate_single_compile_target_args`, `_generate_single_compile`) run on abstract argument groups.

Each case yields a protocol line for the model (`native ...` / `assemble ...`), the implementation's answer in the
same canonical text, and is judged by Python predicates written from the property statement (no model in the loop).
Shape changes of the implementation become outcome strings (`EXC:<type>`), never exceptions.
"""
from __future__ import annotations

import os
import types
import typing as T

from . import common
from .common import Ctx

# documentation-level table: which dynamic linkers take -Wl,--start-group/--end-group (the GNU ld family and the
# two linkers the comment in to_native names); everything else does not
DOC_GROUP_LINKERS = {'GnuBFDDynamicLinker', 'GnuGoldDynamicLinker', 'GnuDynamicLinker', 'LLVMDynamicLinker', 'MoldDynamicLinker',
                     'WildDynamicLinker', 'ELDDynamicLinker', 'QualcommLLVMDynamicLinker', 'WASMDynamicLinker', 'Xc32DynamicLinker',
                     'ZigCCDynamicLinker', 'SolarisDynamicLinker', 'CompCertDynamicLinker'}
DOC_NOGROUP_LINKERS = {'AppleDynamicLinker', 'LLVMLD64DynamicLinker', 'MSVCDynamicLinker', 'ClangClDynamicLinker', 'XilinkDynamicLinker',
                       'AIXDynamicLinker', 'PGIDynamicLinker', 'NAGDynamicLinker', 'ArmDynamicLinker', 'ArmClangDynamicLinker',
                       'OptlinkDynamicLinker', 'CcrxDynamicLinker', 'Xc16DynamicLinker', 'TIDynamicLinker', 'C2000DynamicLinker',
                       'C6000DynamicLinker', 'CudaLinker', 'MetrowerksLinkerARM', 'MetrowerksLinkerEmbeddedPowerPC', 'TaskingLinker',
                       'OS2AoutDynamicLinker', 'OS2OmfDynamicLinker'}
MARKERS = ('-Wl,--start-group', '-Wl,--end-group')


def M():
    from . import c13
    return c13


# ------------------------------------------------------------------ real compiler objects

_FLAVOURS: T.List[T.Tuple[str, T.Any, bool]] = []
_FLAVOUR_NOTES: T.List[str] = []


def flavours() -> T.List[T.Tuple[str, T.Any, bool]]:
    """(name, compiler object, takes group markers per the documentation-level table)"""
    if _FLAVOURS or _FLAVOUR_NOTES:
        return _FLAVOURS
    import argparse
    import copy
    tmp = common.scratch_dir('mverif-c13-cc-')
    saved = {k: os.environ.get(k) for k in ('CC', 'CFLAGS', 'LDFLAGS', 'CPPFLAGS', 'CC_LD')}
    try:
        from mesonbuild import environment, mlog, msetup
        from mesonbuild.mesonlib import MachineChoice
        from mesonbuild.compilers import detect
        import mesonbuild.linkers.linkers as L
        src, bld = os.path.join(tmp, 's'), os.path.join(tmp, 'b')
        os.makedirs(src)
        os.makedirs(bld)
        with open(os.path.join(src, 'meson.build'), 'w') as f:
            f.write("project('x', 'c')\n")
        p = argparse.ArgumentParser()
        msetup.add_arguments(p)
        opts = p.parse_args(['--backend=none', src, bld])
        mlog._logger.log_disable_stdout = True
        found = []
        for cc in ('gcc', 'clang'):
            for k in saved:
                os.environ.pop(k, None)
            os.environ['CC'] = cc
            try:
                env = environment.Environment(src, bld, opts)
                comp = detect.detect_c_compiler(env, MachineChoice.HOST)
                comp.get_default_include_dirs()
                found.append((cc, comp))
            except Exception as e:           # this machine has no such compiler: the flavour is left out, and said so
                _FLAVOUR_NOTES.append(f'real compiler {cc!r} unavailable ({type(e).__name__})')
        linker_classes = []
        todo = [L.DynamicLinker]
        while todo:
            c = todo.pop()
            for sub in c.__subclasses__():
                if sub not in linker_classes:
                    linker_classes.append(sub)
                    todo.append(sub)
        for cc, comp in found:
            lname = type(comp.linker).__name__
            _FLAVOURS.append((f'{cc}+{lname}', comp, doc_groups(lname, comp.linker)))
        if found:
            base = found[-1][1]
            for lc in sorted(linker_classes, key=lambda c: c.__name__):
                if getattr(lc, '__abstractmethods__', None):
                    continue
                try:
                    other = copy.copy(base)
                    other.linker = lc.__new__(lc)
                    # keep the default include directories of the real compiler (the copy shares exelist)
                    _FLAVOURS.append((f'{found[-1][0]}+{lc.__name__}', other, doc_groups(lc.__name__, other.linker)))
                except Exception as e:
                    _FLAVOUR_NOTES.append(f'linker flavour {lc.__name__} not constructible ({type(e).__name__})')
        if not found:
            _FLAVOUR_NOTES.append('no real compiler found: the real-compiler to_native leg did not run')
    except Exception as e:
        _FLAVOUR_NOTES.append(f'real-compiler leg unavailable: {type(e).__name__}: {e}')
    finally:
        for k, v in saved.items():
            if v is None:
                os.environ.pop(k, None)
            else:
                os.environ[k] = v
        common.rmtree(tmp)
    return _FLAVOURS


def doc_groups(lname: str, linker) -> bool:
    if lname in DOC_GROUP_LINKERS:
        return True
    if lname in DOC_NOGROUP_LINKERS:
        return False
    # a linker class the table does not know: the live test decides (reported)
    import mesonbuild.linkers.linkers as L
    _FLAVOUR_NOTES.append(f'linker class {lname} is not in the documentation-level table; live classification used')
    return isinstance(linker, (L.GnuLikeDynamicLinkerMixin, L.SolarisDynamicLinker, L.CompCertDynamicLinker))


def path_pool(default_dirs: T.List[str]) -> T.List[str]:
    out = ['/i', 'j', '/opt/x/include', '/usr/include/foo', '/usr', '', '/', 'include', '/nonexistent-mverif/include']
    for d in default_dirs[:4]:
        out += [d, d + '/', d + '/.', os.path.dirname(d) + '/../' + os.path.basename(os.path.dirname(d)) + '/' + os.path.basename(d),
                d + '/sub', d + 'x', d.upper(), '/' + d, d[1:]]
    return list(dict.fromkeys(out))


def gen_native_list(rng, pool: T.List[str]) -> T.List[str]:
    libs = ['-lfoo', '-lm', 'x.a', '/abs/liby.so', 'libw.so.1.2.3', '-Wl,-lq', '/d/libz.so.10', '-Wl,x.so']
    other = ['-O2', 'main.o', '-Ia', '-Dx', '-Wl,--as-needed', '-Wl,--start-group', '-Wl,--end-group', '-pthread', '-isystemq', '-isystem']
    n = rng.choice([0, 1, 2, 3, 4, 5, 6, 8, 10])
    out: T.List[str] = []
    for _ in range(n):
        r = rng.random()
        if r < 0.30:
            out.append(rng.choice(libs))
        elif r < 0.50:
            out.append(rng.choice(other))
        elif r < 0.65:
            out += ['-isystem', rng.choice(pool)]
        elif r < 0.80:
            out.append('-isystem' + rng.choice(pool))
        elif r < 0.90:
            out.append('-isystem=' + rng.choice(pool))
        elif r < 0.95:
            out.append(rng.choice(pool))
        else:
            out += ['-isystem', '-isystem']
    return out


def is_subsequence(small: T.List[str], big: T.List[str]) -> bool:
    it = iter(big)
    return all(any(x == y for y in it) for x in small)


def native_real_case(ctx: Ctx, name: str, comp, groups: bool, L: T.List[str], copy: bool,
                     report: bool = True) -> T.Tuple[str, str]:
    """one list on one real compiler object -> (protocol line, implementation answer)"""
    m = M()
    real_default = {os.path.realpath(d) for d in comp.get_default_include_dirs()}

    def is_default(p: str) -> bool:
        return os.path.realpath(p) in real_default
    cands = [a[9:] if a.startswith('-isystem=') else a[8:] for a in L if a.startswith('-isystem') and a != '-isystem']
    cands += [L[i + 1] for i, a in enumerate(L) if a == '-isystem' and i + 1 < len(L)]
    model_dirs = sorted({c for c in cands if is_default(c)})
    line = f'native clike|{int(groups)}|{m.e_list(model_dirs)}|{m.e_list(L)}'
    case = {'kind': 'native-real', 'flavour': name, 'list': L, 'copy': copy}
    try:
        obj = comp.compiler_args(list(L))
        clsname = type(obj).__name__
        out = obj.to_native(copy=copy)
        after = list(obj)
        if not isinstance(out, list) or not all(isinstance(x, str) for x in out):
            return line, 'EXC:not-a-list'
    except Exception as e:
        return line, f'EXC:{type(e).__name__}'
    if clsname != 'CLikeCompilerArgs':
        return line, f'EXC:class-{clsname}'
    if not report:
        return line, m.e_list(out)
    # ---- the statement, on the implementation
    want = m.ref_native('clike', groups, True, L, is_default)
    plain = [a for a in out if a not in MARKERS]
    if not is_subsequence(plain, L):
        ctx.violation('to_native:invented-or-reordered', f'{name}: to_native returned arguments that are not the input in order',
                      {**case, 'impl': out})
    keep = lambda a: a not in MARKERS and not a.startswith('-isystem') and not is_default(a)  # noqa: E731
    if [a for a in out if keep(a)] != [a for a in L if keep(a)]:
        ctx.violation('to_native:lost', f'{name}: an argument other than a default-directory -isystem one was lost or moved',
                      {**case, 'impl': out})
    libs_in = [a for a in L if m.doc_library_like(a)]
    for mk in MARKERS:
        if out.count(mk) > L.count(mk) + (1 if groups and len(libs_in) >= 2 else 0):
            ctx.violation('to_native:marker-repeated', f'{name}: {mk} appears {out.count(mk)} times', {**case, 'impl': out})
    if groups and len(libs_in) >= 2 and MARKERS[0] not in L and MARKERS[1] not in L and MARKERS[0] in out and MARKERS[1] in out:
        a, b = out.index(MARKERS[0]), out.index(MARKERS[1])
        if any(m.doc_library_like(x) for x in out[:a] + out[b + 1:]):
            ctx.violation('to_native:library-outside-group', f'{name}: a library argument is outside the group markers',
                          {**case, 'impl': out})
    if out != want:
        ctx.violation('to_native:differs', f'{name}: to_native differs from list + group markers - default -isystem',
                      {**case, 'impl': out, 'reference': want})
    if copy and after != L:
        ctx.violation('to_native:receiver-modified', f'{name}: to_native(copy=True) changed the receiver: {L} -> {after}', {**case, 'after': after})
    out.append('<<probe>>')      # "always returns a copy that can be independently mutated"
    if '<<probe>>' in list(obj):
        ctx.violation('to_native:result-aliases-receiver', f'{name}: the list returned by to_native(copy={copy}) is the receiver\'s own list',
                      case)
    out.pop()
    if not copy and after != want:
        ctx.violation('to_native:in-place-differs', f'{name}: after to_native(copy=False) the object holds {after}', {**case, 'reference': want})
    return line, m.e_list(out)


def native_real_leg(ctx: Ctx, lines: T.List[str], impl: T.List[str], desc: T.List[T.Any], n_quick: int = 2500, n_deep: int = 20000) -> None:
    fl = flavours()
    for note in _FLAVOUR_NOTES:
        if note not in ctx.notes:
            ctx.notes.append(note)
    if not fl:
        ctx.tag('native-real:unavailable')
        return
    rng = ctx.rng
    pools = {}
    for name, comp, _g in fl:
        try:
            pools[name] = path_pool([os.path.realpath(d) for d in comp.get_default_include_dirs()])
        except Exception:
            pools[name] = path_pool([])
    # the two main flavours get half of the cases, the swapped-linker ones share the rest
    main = [f for f in fl if f[0].split('+')[0] in ('gcc', 'clang') and fl.index(f) < 2]
    for k in range(ctx.scale(n_quick, n_deep)):
        name, comp, groups = rng.choice(main) if (k % 2 == 0 and main) else rng.choice(fl)
        L = gen_native_list(rng, pools[name])
        copy = rng.random() < 0.6
        ln, ans = native_real_case(ctx, name, comp, groups, L, copy)
        lines.append(ln)
        impl.append(ans)
        desc.append(('native-real', {'flavour': name, 'list': L, 'copy': copy}, None))
        ctx.tag('native-real:' + ('groups' if groups else 'nogroups'))
        if ans.startswith('EXC:'):
            ctx.tag('native-real:' + ans)
        if len(ctx.violations) >= 2:
            break
    ctx.tag('native-real:flavours', len(fl))


# ------------------------------------------------------------------ the backend's assembly on abstract groups

GROUP_FIELDS = ['visibility', 'baseOpts', 'noStdlib', 'always', 'warn', 'werrorArgs', 'optionCompile', 'optionStd', 'optimization',
                'debug', 'project', 'globalArgs', 'ext', 'picArgs', 'pieArgs', 'showDep', 'customTargetDirs', 'extra', 'dFeatures',
                'srcDirInc', 'buildDirInc', 'privateDirInc']
ASM_ALPHA = ['-Ia', '-Ib', '-Ic', '-Iinc', '-La', '-Dx', '-Dx=1', '-Dx=2', '-Dy', '-Ux', '-isystem/i', '-isystem/j', '-O2', '-O0', '-g', '-Wall',
             '-Werror', '-fPIC', '-fPIE', '-pthread', '-pipe', '-lfoo', 'x.a', '-std=c11', '-MD', '-w', '/Zi', '/ZI', '/Z7', '-DP=a\\b',
             '-fvisibility=hidden', '-nostdinc']


def gen_sources(rng) -> dict:
    def grp(maxn=3):
        n = rng.choice([0, 0, 1, 1, 2, 2, 3][:2 * maxn + 1])
        g = [rng.choice(ASM_ALPHA) for _ in range(n)]
        if g and rng.random() < 0.2:
            g.append(rng.choice(g))
        return g
    s: dict = {f: grp() for f in GROUP_FIELDS}
    s['werror'] = rng.random() < 0.5
    s['kind'] = rng.choice(['shared', 'static:1:0', 'static:0:1', 'static:0:0', 'static:1:1', 'exe:1', 'exe:0', 'other'])
    s['deps'] = [{'found': rng.random() < 0.8, 'compile': grp(), 'exe': grp(2)} for _ in range(rng.choice([0, 1, 2, 3]))]
    s['fortran'] = rng.random() < 0.15
    s['fortranIncs'] = [grp(1) for _ in range(rng.choice([0, 1, 2]))]
    s['implicitIncs'] = rng.random() < 0.7
    s['isD'] = (not s['fortran']) and rng.random() < 0.15
    s['incDirs'] = [{'dirs': [[grp(1), grp(1)] for _ in range(rng.choice([0, 1, 2, 3]))],
                     'extra': [grp(1) for _ in range(rng.choice([0, 0, 1, 2]))]} for _ in range(rng.choice([0, 1, 2, 3]))]
    return s


def my_escape(args: T.List[str]) -> T.List[str]:
    """'all backslashes in defines are doubly-escaped' (the comment of escape_extra_args)"""
    return [a.replace('\\', '\\\\') if a.startswith(('-D', '/D')) else a for a in args]


def sources_line(cname: str, s: dict) -> str:
    m = M()
    el = m.e_list

    def lst(g):        # a group inside a nested field: `-` marks the empty group
        return el(g) if g else '-'
    deps = ';'.join(f"{int(d['found'])}:{el(d['compile'])}:{el(d['exe'])}" for d in s['deps'])
    finc = ';'.join(lst(g) for g in s['fortranIncs'])
    incs = ';'.join(':'.join(el(a) + '+' + el(b) for a, b in i['dirs']) + '/' + ':'.join(lst(g) for g in i['extra']) for i in s['incDirs'])
    f = [cname, el(s['visibility']), el(s['baseOpts']), el(s['noStdlib']), el(s['always']), el(s['warn']), str(int(s['werror'])),
         el(s['werrorArgs']), el(s['optionCompile']), el(s['optionStd']), el(s['optimization']), el(s['debug']), el(s['project']),
         el(s['globalArgs']), el(s['ext']), s['kind'], el(s['picArgs']), el(s['pieArgs']), deps, str(int(s['fortran'])), finc,
         el(s['showDep']), str(int(s['implicitIncs'])), el(s['customTargetDirs']), incs, el(my_escape(s['extra'])), str(int(s['isD'])),
         el(s['dFeatures']), el(s['srcDirInc']), el(s['buildDirInc']), el(s['privateDirInc'])]
    return 'assemble ' + '|'.join(f)


def documented_groups(s: dict) -> T.Tuple[T.List[T.List[str]], T.List[T.List[str]], T.List[T.List[str]]]:
    """(base groups, target groups up to the <lang>_args option, target groups after it) in the order the comments of the
    three functions give: hard-coded and option-derived first, then project, global, environment/option args, pic/pie,
    external dependencies (reversed), [fortran], dependency-file args, custom-target dirs, include_directories (reversed,
    one directory at a time, source then build dir, then extra build dirs), per-target args, [d features], source dir, build
    dir, private dir"""
    base = [s['visibility'], s['baseOpts']]
    early = [s['noStdlib'], s['always'], s['warn']] + ([s['werrorArgs']] if s['werror'] else []) + \
        [s['optionCompile'], s['optionStd'], s['optimization'], s['debug'], s['project'], s['globalArgs'], s['ext']]
    late: T.List[T.List[str]] = []
    kind = s['kind'].split(':')
    if kind[0] == 'shared':
        late.append(s['picArgs'])
    elif kind[0] == 'static':
        if kind[1] == '1':
            late.append(s['picArgs'])
        elif kind[2] == '1':
            late.append(s['pieArgs'])
    elif kind[0] == 'exe' and kind[1] == '1':
        late.append(s['pieArgs'])
    for d in reversed(s['deps']):
        if d['found']:
            late.append(d['compile'])
            if kind[0] == 'exe':
                late.append(d['exe'])
    if s['fortran']:
        late += s['fortranIncs']
    late.append(s['showDep'])
    if s['implicitIncs']:
        late.append(s['customTargetDirs'])
    for i in reversed(s['incDirs']):
        for a, b in reversed(i['dirs']):
            late += [a, b]
        late += i['extra']
    late.append(my_escape(s['extra']))
    if s['isD']:
        late.append(s['dFeatures'])
    if s['implicitIncs']:
        late += [s['srcDirInc'], s['buildDirInc']]
    late.append(s['privateDirInc'])
    return base, early, late


def ref_assemble(cname: str, s: dict) -> T.Tuple[T.List[str], T.List[str], T.List[str]]:
    m = M()
    cls = m.classes()[cname]
    K = lambda a: m.ref_kind(cls, cname, a)   # noqa: E731
    base, early, late = documented_groups(s)
    B: T.List[str] = []
    for g in base:
        B = m.ref_add(K, B, g)
    Tl: T.List[str] = []
    for g in early:
        Tl = m.ref_add(K, Tl, g)
    if '/Zi' in Tl and ('/ZI' in Tl or '/Z7' in Tl):
        Tl.remove('/Zi')
    for g in late:
        Tl = m.ref_add(K, Tl, g)
    return B, Tl, m.ref_add(K, B, Tl)


class _Dep:
    type_name = 'stub'
    name = 'stubdep'

    def __init__(self, d: dict):
        self.d = d

    def found(self) -> bool:
        return self.d['found']

    def get_exe_args(self, compiler) -> T.List[str]:
        return list(self.d['exe'])


def run_real_assembly(cname: str, s: dict) -> T.Tuple[T.List[str], T.List[str], T.List[str]]:
    """the real functions on uninitialised real objects fed with the abstract groups"""
    m = M()
    from mesonbuild import build
    from mesonbuild.backend import ninjabackend
    from mesonbuild.compilers import compilers as C
    cls = m.classes()[cname]
    g = {k: list(v) for k, v in s.items() if k in GROUP_FIELDS}
    lang = 'd' if s['isD'] else ('fortran' if s['fortran'] else 'c')

    class AsmCompiler(C.Compiler):
        language = lang
        id = 'stub'

        def __init__(self):
            pass

        def compiler_args(self, args=None):
            return cls(self, args)

        def get_language(self):
            return lang

        def get_always_args(self):
            return list(g['always'])

        def get_warn_args(self, level):
            return list(g['warn']) if level == 'LVL' else ['<<wrong-warning-level>>']

        def get_werror_args(self):
            return list(g['werrorArgs'])

        def get_option_compile_args(self, target, subproject=None):
            return list(g['optionCompile'])

        def get_option_std_args(self, target, subproject=None):
            return list(g['optionStd'])

        def get_optimization_args(self, level):
            return list(g['optimization']) if level == 'OPT' else ['<<wrong-optimization>>']

        def get_debug_args(self, is_debug):
            return list(g['debug']) if is_debug is True else ['<<wrong-debug>>']

        def get_pic_args(self):
            return list(g['picArgs'])

        def get_pie_args(self):
            return list(g['pieArgs'])

        def get_dependency_compile_args(self, dep):
            return list(dep.d['compile'])

        def get_include_args(self, path, is_system):
            return list(path) if isinstance(path, tuple) else ['<<include-of>>', str(path)]

        def get_show_dep_args(self):
            return list(g['showDep'])

        def get_feature_args(self, kwargs, build_to_src):
            return list(g['dFeatures'])

        def gnu_symbol_visibility_args(self, vistype):
            return list(g['visibility'])

        def __repr__(self):
            return 'AsmCompiler'
    for n in list(getattr(AsmCompiler, '__abstractmethods__', ())):
        setattr(AsmCompiler, n, lambda self, *a, **k: None)
    AsmCompiler.__abstractmethods__ = frozenset()
    comp = AsmCompiler()

    kind = s['kind'].split(':')
    tcls = {'shared': build.SharedLibrary, 'static': build.StaticLibrary, 'exe': build.Executable, 'other': build.Jar}[kind[0]]
    target = tcls.__new__(tcls)
    target.subproject = ''
    target.pic = kind[0] == 'static' and kind[1] == '1'
    target.pie = (kind[0] == 'static' and kind[2] == '1') or (kind[0] == 'exe' and kind[1] == '1')
    target.external_deps = [_Dep(d) for d in s['deps']]
    target.added_deps = []
    target.link_targets = [tuple(x) for x in s['fortranIncs']]        # private dir of a linked target == its include group
    target.link_whole_targets = []
    target.implicit_include_directories = s['implicitIncs']
    target.include_dirs = [types.SimpleNamespace(curdir='', incdirs=[(tuple(a), tuple(b)) for a, b in i['dirs']], is_system=False,
                                                 extra_build_dirs=[tuple(x) for x in i['extra']]) for i in s['incDirs']]
    target.extra_args = {lang: list(s['extra'])}
    target.d_features = {}
    target.gnu_symbol_visibility = 'VIS'
    target.environment = None
    target.single_compile_base_args = {}
    target.for_machine = None

    class AsmBackend(ninjabackend.NinjaBackend):
        def __init__(self):
            pass

        def get_no_stdlib_args(self, target, compiler):
            return list(g['noStdlib'])

        def get_target_option(self, target, name):
            key = name if isinstance(name, str) else getattr(name, 'name', str(name))
            return {'warning_level': 'LVL', 'werror': s['werror'], 'optimization': 'OPT', 'debug': True}[key]

        def get_target_private_dir(self, t):
            return tuple(g['privateDirInc']) if t is target else t

        def get_custom_target_dir_include_args(self, target, compiler):
            return list(g['customTargetDirs'])

        def generate_inc_dir(self, compiler, d, basedir, is_system):
            return list(d[0]), list(d[1])

        def get_source_dir_include_args(self, target, compiler, *a):
            return list(g['srcDirInc'])

        def get_build_dir_include_args(self, target, compiler, *a):
            return list(g['buildDirInc'])
    be = AsmBackend()
    be.build_to_src = '..'
    be.build = types.SimpleNamespace(get_project_args=lambda c, t: list(g['project']), get_global_args=lambda c, t: list(g['globalArgs']))
    be.environment = types.SimpleNamespace(coredata=types.SimpleNamespace(get_option_for_target=lambda t, k: list(g['ext'])))

    saved = build.get_base_compile_args
    build.get_base_compile_args = lambda t, c, e: list(g['baseOpts'])
    try:
        base = list(target._generate_single_compile_base_args(comp))
        target.single_compile_base_args[comp] = base
        f = ninjabackend.NinjaBackend._generate_single_compile_target_args
        targs = list(getattr(f, '__wrapped__', f)(be, target, comp))
        full = be._generate_single_compile(target, comp)
        full_list = list(full)
    finally:
        build.get_base_compile_args = saved
        cc = getattr(ninjabackend.NinjaBackend._generate_single_compile_target_args, 'cache_clear', None)
        if cc:
            cc()
    return base, targs, full_list


def assembly_case(ctx: Ctx, cname: str, s: dict, report: bool = True) -> T.Tuple[str, str]:
    m = M()
    line = sources_line(cname, s)
    case = {'kind': 'assemble', 'class': cname, 'sources': s}
    try:
        base, targs, full = run_real_assembly(cname, s)
        if not all(isinstance(x, str) for x in base + targs + full):
            return line, 'EXC:not-str'
    except Exception as e:
        return line, f'EXC:{type(e).__name__}'
    ans = f'{m.e_list(base)}#{m.e_list(targs)}#{m.e_list(full)}#1'
    if not report:
        return line, ans
    cls = m.classes()[cname]
    K = lambda a: m.ref_kind(cls, cname, a)   # noqa: E731
    wb, wt, wf = ref_assemble(cname, s)
    bg, eg, lg = documented_groups(s)
    groups = bg + eg + lg
    last = {}
    for gi, grp in enumerate(groups):
        for a in grp:
            last[a] = gi
    # no argument lost or invented (the /Zi rule apart)
    if set(full) - set(last):
        ctx.violation('assembly:invented', f'the compile line has arguments no source gave: {sorted(set(full) - set(last))}', {**case, 'impl': full})
    if set(last) - set(full) - {'/Zi'}:
        ctx.violation('assembly:lost', f'arguments of a source are missing from the compile line: {sorted(set(last) - set(full))}',
                      {**case, 'impl': full})
    ov = [a for a in dict.fromkeys(full) if K(a)[1] == 'O']
    for a in ov:
        if full.count(a) != 1:
            ctx.violation('assembly:override-survivor-count', f'{a!r} occurs {full.count(a)} times on the compile line', {**case, 'impl': full})
    for x in ov:
        for y in ov:
            if x != y and K(x)[0] == K(y)[0] and last[x] < last[y] and full.count(x) == 1 and full.count(y) == 1:
                ix, iy = full.index(x), full.index(y)
                if not K(y)[0] and not ix < iy:
                    ctx.violation('assembly:later-setting-does-not-win', f'{y!r} was added after {x!r} but comes before it on the compile line',
                                  {**case, 'impl': full, 'earlier': x, 'later': y})
                if K(y)[0] and not iy < ix:
                    ctx.violation('assembly:later-include-not-in-front', f'{y!r} was added after {x!r} but does not come before it',
                                  {**case, 'impl': full, 'earlier': x, 'later': y})
    if (base, targs, full) != (wb, wt, wf):
        ctx.violation('assembly:differs', 'the compile line differs from the groups added eagerly in the documented order',
                      {**case, 'impl': [base, targs, full], 'reference': [wb, wt, wf]})
    return line, ans


def assembly_leg(ctx: Ctx, lines: T.List[str], impl: T.List[str], desc: T.List[T.Any], n_quick: int = 1500, n_deep: int = 15000) -> None:
    m = M()
    rng = ctx.rng
    names = [c for c in m.classes()]
    for k in range(ctx.scale(n_quick, n_deep)):
        cname = 'clike' if k % 3 else rng.choice(names)
        s = gen_sources(rng)
        ln, ans = assembly_case(ctx, cname, s)
        lines.append(ln)
        impl.append(ans)
        desc.append(('assemble', {'class': cname, 'sources': s}, None))
        ctx.tag('assemble:' + s['kind'].split(':')[0])
        if ans.startswith('EXC:'):
            ctx.tag('assemble:' + ans)
        if len(ctx.violations) >= 2:
            break


# ------------------------------------------------------------------ search / replay support

def search_more(ctx: Ctx, kinds: T.Set[str]) -> None:
    """a larger oracle-only run of the legs whose correspondence no longer checks"""
    sink: T.List[T.Any] = []
    before = len(ctx.violations)
    if 'native-real' in kinds:
        native_real_leg(ctx, sink, sink, sink, n_quick=20000, n_deep=60000)
    if len(ctx.violations) > before:
        return
    if 'assemble' in kinds:
        assembly_leg(ctx, sink, sink, sink, n_quick=15000, n_deep=40000)


def replay_case(ctx: Ctx, case: dict) -> bool:
    m = M()
    if case.get('kind') == 'native-real':
        for name, comp, groups in flavours():
            if name == case.get('flavour'):
                ln, ans = native_real_case(ctx, name, comp, groups, list(case['list']), bool(case.get('copy')))
                print(' flavour:', name, 'list:', case['list'], 'copy:', case.get('copy'))
                print(' impl:', m.d_list(ans) if not ans.startswith('EXC:') else ans)
                if ctx.model_available:
                    mo = ctx.driver('arglist', [ln])[0]
                    print(' model agrees' if mo == ans else f' MODEL DIFFERS: {m.d_list(mo)}')
                return True
        print(' flavour not available on this machine:', case.get('flavour'))
        return True
    if case.get('kind') == 'assemble':
        ln, ans = assembly_case(ctx, case.get('class', 'clike'), case['sources'])
        print(' sources:', case['sources'])
        print(' impl:', [m.d_list(x) for x in ans.split('#')[:3]] if not ans.startswith('EXC:') else ans)
        if ctx.model_available:
            mo = ctx.driver('arglist', [ln])[0]
            print(' model agrees' if mo == ans else f' MODEL DIFFERS: {[m.d_list(x) for x in mo.split("#")[:3]]}')
        return True
    return False
