"""C10 (b) — wrap acquisition: the real `wrap.Resolver` on local fixtures with every external step
(urlopen, reading a file for hashing, rename into the cache, mkdir, unpack_archive, copy2, the patch
tool) replaced by recording wrappers that can inject a fault; the property oracle on what really
happened; encoding of a case for the Lean model (`mvdriver-dep wrap`).

case = {
  'cfg': {'nodownload': b, 'source': FC, 'patch': FC|None, 'patch_directory': b, 'lead': b},
      FC = {'filename': b, 'url': b, 'fallback_url': b, 'hash': content-id|'bogus'|None}
  'env': {'dir': None|'file'|'empty'|'build', 'cached_dir': None|'build'|'nobuild',
          'source': FE, 'patch': FE, 'patch_dir': None|'build'|'nobuild', 'diffs': [[present, applies]]}
      FE = {'cache': cid|None, 'pkg': cid|None, 'url': cid|'W'|'O', 'fallback_url': cid|'W'|'O'}
  'faults': {label: 'os'|'other'}
}
content ids: source 1 (archive with build file) 2 (archive, no build file) 3 (garbage) 4 (other top directory)
             5 (archive whose extraction fails after the build file has been written);
             patch 11 (overlay with build file) 12 (overlay without) 13 (garbage)
"""
from __future__ import annotations

import hashlib
import io
import os
import tarfile
import typing as T

from . import common

DIRNAME = 'foo-1.0'
SRC_FN = 'foo-1.0.tar.gz'
PATCH_FN = 'foo-1.0-patch.tar.gz'
BOGUS = 'ab' * 32
URLS = {('source', False): 'http://dl.invalid/src.tgz', ('source', True): 'http://mirror.invalid/src.tgz',
        ('patch', False): 'http://dl.invalid/patch.tgz', ('patch', True): 'http://mirror.invalid/patch.tgz'}

# abstract content attributes: id -> (unpackOk, createsDir, hasBuildfile)
CONTENT = {1: (1, 1, 1), 2: (1, 1, 0), 3: (0, 0, 0), 4: (1, 0, 0), 5: (0, 0, 0), 11: (1, 1, 1), 12: (1, 1, 0), 13: (0, 0, 0)}


def _tar(files: T.Dict[str, bytes]) -> bytes:
    bio = io.BytesIO()
    with tarfile.open(fileobj=bio, mode='w:gz', format=tarfile.PAX_FORMAT) as tf:
        for name, data in sorted(files.items()):
            ti = tarfile.TarInfo(name)
            ti.size = len(data)
            ti.mtime = 0
            tf.addfile(ti, io.BytesIO(data))
    return bio.getvalue()


def _tar_seq(files: T.List[T.Tuple[str, bytes]]) -> bytes:
    bio = io.BytesIO()
    with tarfile.open(fileobj=bio, mode='w:gz', format=tarfile.PAX_FORMAT) as tf:
        for name, data in files:
            ti = tarfile.TarInfo(name)
            ti.size = len(data)
            ti.mtime = 0
            tf.addfile(ti, io.BytesIO(data))
    return bio.getvalue()


_BYTES: T.Dict[T.Tuple[int, bool], bytes] = {}


def content_bytes(cid: int, lead: bool) -> bytes:
    """real bytes of abstract content `cid`; `lead` = archives without leading directory"""
    k = (cid, lead)
    if k in _BYTES:
        return _BYTES[k]
    pre = '' if lead else DIRNAME + '/'
    if cid == 1:
        b = _tar({pre + 'foo.c': b'int foo(void) { return 1; }\n', pre + 'meson.build': b"project('foo', 'c', version: '1.0')\n"})
    elif cid == 2:
        b = _tar({pre + 'foo.c': b'int foo(void) { return 2; }\n'})
    elif cid == 5:
        # extraction writes the build file, then fails: `a` is a file and the next member wants it as a directory
        b = _tar_seq([(pre + 'meson.build', b"project('foo', 'c', version: 'half')\n"), (pre + 'a', b'x\n'), (pre + 'a/b', b'y\n')])
    elif cid == 4:
        b = _tar({'unrelated-9/x.c': b'int x;\n'}) if not lead else b'\x00garbage-4'
    elif cid == 11:
        b = _tar({DIRNAME + '/meson.build': b"project('foo', 'c', version: '1.0-p')\n"})
    elif cid == 12:
        b = _tar({DIRNAME + '/extra.h': b'#define EXTRA 1\n'})
    else:
        b = b'this is not an archive %d\n' % cid
    _BYTES[k] = b
    return b


def real_sha(cid: int, lead: bool) -> str:
    return hashlib.sha256(content_bytes(cid, lead)).hexdigest()


def content_attrs(cid: int, lead: bool) -> T.Tuple[int, int, int]:
    if cid == 4 and lead:
        return (0, 0, 0)
    return CONTENT[cid]


class InjectedOSError(OSError):
    pass


class InjectedOther(RuntimeError):
    pass


def _raise(kind: str, label: str):
    if kind == 'os':
        raise InjectedOSError('injected at ' + label)
    raise InjectedOther('injected at ' + label)


class _Proxy:
    def __init__(self, real, **over):
        self.__dict__['_real'] = real
        self.__dict__['_over'] = over

    def __getattr__(self, k):
        o = self.__dict__['_over']
        if k in o:
            return o[k]
        return getattr(self.__dict__['_real'], k)


class _Resp:
    def __init__(self, data: bytes, fail_read: bool):
        self.bio = io.BytesIO(data)
        self.n = len(data)
        self.fail_read = fail_read

    def info(self):
        return {'Content-Length': str(self.n)}

    def read(self, n=-1):
        if self.fail_read:
            raise InjectedOther('connection reset while reading')
        return self.bio.read(n)

    def close(self):
        pass


def build_fixture(root: str, case: dict) -> None:
    cfg, env = case['cfg'], case['env']
    lead = cfg['lead']
    sp = os.path.join(root, 'subprojects')
    os.makedirs(os.path.join(sp, 'packagefiles'))
    os.makedirs(os.path.join(sp, 'packagecache'))
    with open(os.path.join(root, 'meson.build'), 'w') as f:
        f.write("project('main', 'c')\n")
    lines = ['[wrap-file]', 'directory = ' + DIRNAME]

    def hashval(h):
        return None if h is None else (BOGUS if h == 'bogus' else real_sha(h, lead))
    for what, fn in (('source', SRC_FN), ('patch', PATCH_FN)):
        fc = cfg[what]
        if fc is None:
            continue
        if fc['filename']:
            lines.append(f'{what}_filename = {fn}')
        if fc['url']:
            lines.append(f'{what}_url = {URLS[(what, False)]}')
        if fc['fallback_url']:
            lines.append(f'{what}_fallback_url = {URLS[(what, True)]}')
        if fc['hash'] is not None:
            lines.append(f'{what}_hash = {hashval(fc["hash"])}')
    if cfg['patch_directory']:
        lines.append('patch_directory = foo-overlay')
    if env['diffs']:
        lines.append('diff_files = ' + ', '.join(f'd{i}.diff' for i in range(len(env['diffs']))))
    if lead:
        lines.append('lead_directory_missing = true')
    lines += ['', '[provide]', 'foo = foo_dep', '']
    with open(os.path.join(sp, 'foo.wrap'), 'w') as f:
        f.write('\n'.join(lines))
    for what, fn in (('source', SRC_FN), ('patch', PATCH_FN)):
        fe = env[what]
        if fe['cache'] is not None:
            with open(os.path.join(sp, 'packagecache', fn), 'wb') as f:
                f.write(content_bytes(fe['cache'], lead))
        if fe['pkg'] is not None:
            with open(os.path.join(sp, 'packagefiles', fn), 'wb') as f:
                f.write(content_bytes(fe['pkg'], lead))
    d = os.path.join(sp, DIRNAME)
    if env['dir'] == 'file':
        with open(d, 'w') as f:
            f.write('not a directory\n')
    elif env['dir'] in ('empty', 'build'):
        os.makedirs(d)
        with open(os.path.join(d, 'README'), 'w') as f:
            f.write('x\n')
        if env['dir'] == 'build':
            with open(os.path.join(d, 'meson.build'), 'w') as f:
                f.write("project('foo', 'c')\n")
    if env['cached_dir']:
        cd = os.path.join(sp, 'packagecache', DIRNAME)
        os.makedirs(cd)
        with open(os.path.join(cd, 'meson.build' if env['cached_dir'] == 'build' else 'README'), 'w') as f:
            f.write("project('foo', 'c')\n")
    if env['patch_dir']:
        pd = os.path.join(sp, 'packagefiles', 'foo-overlay')
        os.makedirs(pd)
        with open(os.path.join(pd, 'meson.build' if env['patch_dir'] == 'build' else 'notes.txt'), 'w') as f:
            f.write("project('foo', 'c', version: 'ov')\n")
    for i, (present, applies) in enumerate(env['diffs']):
        if present:
            with open(os.path.join(sp, 'packagefiles', f'd{i}.diff'), 'w') as f:
                f.write('APPLIES\n' if applies else 'REJECT\n')


def run_resolver(root: str, case: dict, faults: T.Dict[str, str]) -> dict:
    """one `Resolver('foo')` run with the instrumented environment. Returns the observation."""
    from mesonbuild.wrap import wrap as W
    from mesonbuild.wrap import WrapMode
    from mesonbuild import mlog
    import urllib.request
    import urllib.error
    mlog._logger.log_disable_stdout = True
    cfg, env = case['cfg'], case['env']
    lead = cfg['lead']
    sp = os.path.join(root, 'subprojects')
    cachedir = os.path.join(sp, 'packagecache')
    obs: T.Dict[str, T.Any] = {'events': [], 'urlopen': 0, 'patch_phase': None, 'unpacked': []}
    attempts: T.Dict[T.Tuple[str, bool], int] = {}
    state = {'cached_logged': False}

    def fault(label: str) -> None:
        k = faults.get(label)
        if k:
            _raise(k, label)

    def what_of(path: str) -> T.Optional[str]:
        bn = os.path.basename(path)
        return 'source' if bn == SRC_FN else 'patch' if bn == PATCH_FN else None

    def sha_of(path: str) -> str:
        with io.open(path, 'rb') as f:
            return hashlib.sha256(f.read()).hexdigest()

    def urlopen(req, timeout=None, context=None):
        url = req.full_url if hasattr(req, 'full_url') else str(req)
        key = [k for k, v in URLS.items() if v == url]
        obs['urlopen'] += 1
        if not key:
            raise urllib.error.URLError('unknown url ' + url)
        what, fb = key[0]
        i = attempts.get((what, fb), 0)
        attempts[(what, fb)] = i + 1
        obs['events'].append(('fetch', what, fb))
        fault(f'fetch.{what[0]}.{int(fb)}.{i}')
        serve = env[what]['fallback_url' if fb else 'url']
        if serve == 'W':
            raise urllib.error.URLError('host unreachable')
        if serve == 'O':
            return _Resp(b'partial', True)
        return _Resp(content_bytes(serve, lead), False)

    def w_open(path, mode='r', *a, **kw):
        if mode == 'rb' and what_of(str(path)) and (os.path.dirname(str(path)) in (cachedir, os.path.join(sp, 'packagefiles'))):
            fault('hash.' + what_of(str(path))[0])
        return io.open(path, mode, *a, **kw)

    def rename(src, dst):
        w = what_of(dst)
        if w:
            fault('rename.' + w[0])
        os.rename(src, dst)
        if w:
            obs['events'].append(('store', w, sha_of(dst)))

    def mkdir(path, *a, **kw):
        if os.path.basename(path) == DIRNAME:
            fault('mkdir')
        return os.mkdir(path, *a, **kw)

    import shutil as real_shutil

    def unpack_archive(path, extract_dir=None, *a, **kw):
        w = what_of(path)
        second = w == 'patch' and os.path.abspath(extract_dir) != os.path.abspath(sp)
        if w and not second:
            digest = sha_of(path)
            obs['events'].append(('used', w, digest))
            obs['unpacked'].append((w, digest))
            fault('pre.' + w[0])
            real_shutil.unpack_archive(path, extract_dir, *a, **kw)
            fault('post.' + w[0])
            return
        if second:
            fault('unpack2')
        return real_shutil.unpack_archive(path, extract_dir, *a, **kw)

    def copy2(src, dst, *a, **kw):
        from_cached = os.path.abspath(src).startswith(os.path.join(cachedir, DIRNAME) + os.sep)
        fault('cachedcopy' if from_cached else 'copytree')
        r = real_shutil.copy2(src, dst, *a, **kw)
        if from_cached and not state['cached_logged']:
            state['cached_logged'] = True
            obs['events'].append(('cacheddir',))
        return r

    class _P:
        def __init__(self, rc):
            self.returncode = rc

    def popen_safe(cmd, *a, **kw):
        name = [c for c in cmd if str(c).endswith('.diff')]
        i = int(os.path.basename(str(name[0]))[1:-5]) if name else 0
        fault(f'diff.{i}')
        with io.open(os.path.join(sp, 'packagefiles', f'd{i}.diff')) as f:
            ok = f.read().startswith('APPLIES')
        return _P(0 if ok else 1), ('' if ok else 'hunk FAILED'), ''

    def rmtree(path):
        obs['events'].append(('rmtree',))
        return saved['windows_proof_rmtree'](path)

    class FakeTime:
        @staticmethod
        def sleep(_d):
            pass

        def __getattr__(self, k):
            import time as _t
            return getattr(_t, k)

    mode = WrapMode.nodownload if cfg['nodownload'] else WrapMode.default
    old_env = os.environ.pop('MESON_PACKAGE_CACHE_DIR', None)
    r = W.Resolver(root, 'subprojects', wrap_mode=mode, silent=True)
    saved = {k: getattr(W, k) for k in ('os', 'shutil', 'time', 'Popen_safe', 'windows_proof_rmtree', 'patch_command')}
    saved_urlopen = urllib.request.urlopen
    had_open = 'open' in W.__dict__
    try:
        W.os = _Proxy(os, rename=rename, mkdir=mkdir)
        W.shutil = _Proxy(real_shutil, unpack_archive=unpack_archive, copy2=copy2)
        W.time = FakeTime()
        W.Popen_safe = popen_safe
        W.windows_proof_rmtree = rmtree
        W.patch_command = lambda: 'patch'
        W.open = w_open
        urllib.request.urlopen = urlopen
        # phase observation through instance-level wrappers around the real methods
        ap, ad = r.apply_patch, r.apply_diff_files

        def apply_patch(packagename):
            obs['patch_phase'] = 'entered'
            try:
                ap(packagename)
            except BaseException:
                obs['patch_phase'] = 'failed'
                raise

        def apply_diff_files():
            try:
                ad()
            except BaseException:
                obs['patch_phase'] = 'failed'
                raise
            obs['patch_phase'] = 'done'
        r.apply_patch = apply_patch
        r.apply_diff_files = apply_diff_files
        try:
            r.resolve('foo')
            obs['outcome'] = 'ok'
        except W.WrapException:
            obs['outcome'] = 'err:wrap'
        except OSError:
            obs['outcome'] = 'err:os'
        except Exception as e:  # noqa: BLE001 — injected non-OSError faults
            obs['outcome'] = 'err:other'
            obs['exc'] = type(e).__name__
    finally:
        for k, v in saved.items():
            setattr(W, k, v)
        if not had_open:
            del W.__dict__['open']
        urllib.request.urlopen = saved_urlopen
        if old_env is not None:
            os.environ['MESON_PACKAGE_CACHE_DIR'] = old_env
    d = os.path.join(sp, DIRNAME)
    obs['dir_exists'] = os.path.lexists(d)
    obs['dir_build'] = os.path.isfile(os.path.join(d, 'meson.build'))
    obs['cache'] = {}
    for what, fn in (('source', SRC_FN), ('patch', PATCH_FN)):
        p = os.path.join(cachedir, fn)
        obs['cache'][what] = sha_of(p) if os.path.isfile(p) else None
    return obs


def recorded_hashes(root: str) -> T.Dict[str, T.Optional[str]]:
    """what the wrap file on disk records (read independently of the Resolver)"""
    import configparser
    cp = configparser.ConfigParser(interpolation=None)
    cp.read(os.path.join(root, 'subprojects', 'foo.wrap'), encoding='utf-8')
    sec = cp['wrap-file']
    return {w: (sec.get(w + '_hash').lower() if sec.get(w + '_hash') else None) for w in ('source', 'patch')}


def oracle(case: dict, root: str, obs: dict, obs2: T.Optional[dict]) -> T.List[T.Tuple[str, str]]:
    """the three wrap clauses of C10 on what really happened. -> [(key-class, message)]"""
    out = []
    rec = recorded_hashes(root)
    for what, digest in obs['unpacked']:
        if rec[what] is not None and digest != rec[what]:
            out.append(('hash-gate-unpack', f'{what} archive with sha256 {digest[:12]}.. was unpacked although the wrap records {rec[what][:12]}..'))
    for ev in obs['events']:
        if ev[0] == 'store' and rec[ev[1]] is not None and ev[2] != rec[ev[1]]:
            out.append(('hash-gate-cache', f'{ev[1]} file with wrong sha256 was stored in the package cache'))
    if case['cfg']['nodownload'] and obs['urlopen'] > 0:
        out.append(('nodownload-fetch', f'{obs["urlopen"]} download attempt(s) under wrap_mode=nodownload'))
    if obs['patch_phase'] == 'failed':
        if obs['dir_exists']:
            out.append(('failed-patch-dir-left', 'patch/diff step failed but the unpacked subproject directory is still there'))
        if obs2 is not None and obs2['outcome'] == 'ok' and obs2['patch_phase'] is None:
            out.append(('failed-patch-accepted-later', 'the next run accepted the directory left by a failed patch/diff step'))
    elif obs['outcome'] != 'ok' and case['env']['dir'] is None and obs2 is not None:
        # the run failed before the patch step (fetch / verify / unpack); whatever it left must not be taken for a
        # prepared subproject by the next run
        prepared = any(e[0] in ('used', 'cacheddir') for e in obs2['events'])
        if obs2['outcome'] == 'ok' and obs2['patch_phase'] is None and not prepared:
            out.append(('failed-unpack-accepted-later',
                        'the run failed while acquiring/unpacking the source, and the next run accepted the half-prepared '
                        'directory it left behind as the subproject'))
    return out


# ------------------------------------------------------------------ encoding for the model

def _c(cid, lead) -> str:
    if cid is None:
        return '-'
    u, c, h = content_attrs(cid, lead)
    return f'{cid}.{u}.{c}.{h}'


def _f(x, lead) -> str:
    return x if x in ('W', 'O') else _c(x, lead)


def _h(h) -> str:
    return '-' if h is None else ('999' if h == 'bogus' else str(h))


def line_wrap(case: dict) -> str:
    cfg, env, faults = case['cfg'], case['env'], case['faults']
    lead = cfg['lead']
    s, p = cfg['source'], cfg['patch']
    pz = p or {'filename': False, 'url': False, 'fallback_url': False, 'hash': None}
    cf = ','.join(str(x) for x in [int(cfg['nodownload']), int(s['filename']), int(s['url']), int(s['fallback_url']), _h(s['hash']),
                                   int(pz['filename']), int(pz['url']), int(pz['fallback_url']), _h(pz['hash']),
                                   int(cfg['patch_directory']), int(lead)])
    d = env['dir']
    de = f'{int(d is not None)},{int(d != "file")},{int(d == "build")},' + \
         ('-' if not env['cached_dir'] else str(int(env['cached_dir'] == 'build')))
    fe = []
    for what in ('source', 'patch'):
        e = env[what]
        fe += [_c(e['cache'], lead), _c(e['pkg'], lead), _f(e['url'], lead), _f(e['fallback_url'], lead)]
    pd = f'{int(bool(env["patch_dir"]))},{int(env["patch_dir"] == "build")}'
    diffs = '+'.join(f'{int(a)}{int(b)}' for a, b in env['diffs'])
    ev = ';'.join([de] + fe + [pd, diffs])
    fl = ','.join(f'{k}={v}' for k, v in sorted(faults.items()))
    return f'wrap {cf}|{ev}|{fl}'


def canon_obs(case: dict, obs: dict) -> str:
    lead = case['cfg']['lead']
    ids = {}
    for cid in CONTENT:
        ids[real_sha(cid, lead)] = str(cid)

    def sid(d):
        return '-' if d is None else ids.get(d, '?')
    evs = []
    for e in obs['events']:
        if e[0] == 'fetch':
            evs.append(f'fetch.{e[1][0]}.{int(e[2])}')
        elif e[0] == 'store':
            evs.append(f'store.{e[1][0]}.{sid(e[2])}')
        elif e[0] == 'used':
            evs.append(f'used.{e[1][0]}.{sid(e[2])}')
        else:
            evs.append(e[0])
    return f'{obs["outcome"]};{",".join(evs)};{int(obs["dir_exists"])},{int(obs["dir_build"])},' \
           f'{sid(obs["cache"]["source"])},{sid(obs["cache"]["patch"])}'


def run_case(case: dict, second_run: bool = True) -> T.Tuple[str, T.List[T.Tuple[str, str]]]:
    """-> (canonical observation, oracle hits)"""
    root = common.scratch_dir('mverif-c10-')
    try:
        build_fixture(root, case)
        obs = run_resolver(root, case, case['faults'])
        obs2 = None
        if second_run and (obs['patch_phase'] == 'failed' or (obs['outcome'] != 'ok' and case['env']['dir'] is None)):
            obs2 = run_resolver(root, case, {})
        return canon_obs(case, obs), oracle(case, root, obs, obs2)
    finally:
        common.rmtree(root)
