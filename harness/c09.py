"""C09 — a killed meson command never bricks the build directory.

Every run
  1. records the file-system effect sequence of the real `setup`, `setup --reconfigure`, `setup --wipe` and
     `configure` commands (harness/crashsite/sitecustomize.py on the PYTHONPATH of the meson subprocess) on several
     directory histories and emits them as lean/MesonModel/Generated/CrashTraces.lean (proof obligations over the
     recorded traces are then re-checked by `lake build MesonModel.Props.C09`);
  2. kills the real command at effect k (before the effect, and inside non-atomic writes), observes the directory,
     runs the real recovery (`meson setup [--reconfigure]`) and evaluates the property oracle on the result;
  3. compares (A) the observed directory with the model's `crashAt` on the effect prefix logged by the killed
     process itself and (B) the real recovery outcome with the model's `recover` on the observed directory.
     (C) the size in bytes of every state file after the kill with the bounds of the byte-level model
     (lean/MesonModel/Crash/Buffered.lean: user-space buffers, handles that follow their inode through a rename) run
     on the logged prefix with the logged write sizes; every boundary between an os.replace and the close of a handle
     still open on its source is a kill point.
"""
from __future__ import annotations

import atexit
import concurrent.futures
import configparser
import hashlib
import json
import os
import shutil
import subprocess
import sys
import typing as T

from . import common
from .common import Ctx

ID = 'C09'
LEVEL = 'proof'
LEAN_TARGETS = ['MesonModel.Props.C09']
AREAS = ['crash']
PINS = [
    'mesonbuild.backend.ninjabackend:NinjaBackend.generate',
    'mesonbuild.coredata:save',
    'mesonbuild.coredata:load',
    'mesonbuild.build:save',
    'mesonbuild.build:load',
    'mesonbuild.cmdline:read_cmd_line_file',
    'mesonbuild.cmdline:write_cmd_line_file',
    'mesonbuild.cmdline:update_cmd_line_file',
    'mesonbuild.msetup:MesonApp.__init__',
    'mesonbuild.msetup:MesonApp.validate_dirs',
    'mesonbuild.msetup:MesonApp.generate',
    'mesonbuild.msetup:MesonApp._generate',
    'mesonbuild.environment:Environment.__init__',
    'mesonbuild.environment:Environment.dump_coredata',
    'mesonbuild.mconf:run_impl',
    'mesonbuild.mconf:Conf.save',
    'mesonbuild.mintro:write_intro_info',
    'mesonbuild.mintro:write_meson_info_file',
    'mesonbuild.utils.universal:pickle_load',
    'mesonbuild.utils.universal:replace_if_different',
    'mesonbuild.utils.universal:windows_proof_rmtree',
]
TRUSTED = [
    'harness/crashsite/sitecustomize.py: the effect recorder / kill injector (wraps builtins.open, io.open, os.replace, '
    'os.rename, os.unlink, os.remove, os.rmdir, os.mkdir, os.fsync, shutil.copyfile; shutil.rmtree forced to its '
    'path-based variant so that each unlink is visible); effects issued through other entry points (os.open/os.write, '
    'child processes) are not seen',
    'crash = process death (os._exit before the effect; for writes also after a flushed strict prefix); kernel write '
    'reordering and directory-entry durability after power loss are outside the model',
    'fake ninja (no ninja binary in this sandbox): answers --version and -t compdb',
]

CRASHSITE = os.path.join(common.VERIF, 'harness', 'crashsite')
PROJ = os.path.join(CRASHSITE, 'proj')
PROJ2 = os.path.join(CRASHSITE, 'proj2')     # Fortran + wrapped custom targets + tests + pkgconfig/cmake/depmf: every kind of state file
FAKEBIN = os.path.join(CRASHSITE, 'fakebin')
GEN_FILE = os.path.join(common.LEAN, 'MesonModel', 'Generated', 'CrashTraces.lean')
NWORKERS = 16

# ---------------------------------------------------------------- scenarios

SETUP_ARGS = ['-Dalpha=a1', '-Dbeta=y']
NATIVE = ['--native-file', os.path.join(CRASHSITE, 'native.ini')]
CROSS = ['--cross-file', os.path.join(CRASHSITE, 'cross.ini')]
# option values come from three sources in the machine-file histories: the command line (alpha, beta), the machine
# file (werror, default_library, gamma; its alpha is overridden by -D) and project default_options (optimization)
ENV_FIRST_SETUP = {'PKG_CONFIG_PATH': '/opt/c09-pkgconfig'}     # read once, stored only in coredata.dat
HIST: T.Dict[str, T.List[tuple]] = {
    'fresh': [],
    'freshn': [],
    'freshx': [],
    'h1': [('setup', SETUP_ARGS)],
    'h2': [('setup', SETUP_ARGS), ('configure', ['-Dgamma=true'])],
    'h3': [('setup', SETUP_ARGS), ('configure', ['-Dgamma=true']), ('reconfigure', ['-Dalpha=a3'])],
    'n1': [('setup', SETUP_ARGS + NATIVE)],
    'n2': [('setup', SETUP_ARGS + NATIVE), ('configure', ['-Dwarning_level=2'])],
    'x1': [('setup', SETUP_ARGS + CROSS)],
    # pkg_config_path comes from the environment of the first setup only: it lives in coredata.dat and nowhere else
    'e2': [('setup', SETUP_ARGS, ENV_FIRST_SETUP), ('configure', ['-Dgamma=true'])],
    # the rich project (harness/crashsite/proj2), ninja backend
    'freshr': [],
    'r1': [('setup', SETUP_ARGS)],
    'r2': [('setup', SETUP_ARGS), ('configure', ['-Dgamma=true'])],
}
RICH_HISTS = {'freshr', 'r1', 'r2'}


def proj_of(hist: str) -> str:
    return PROJ2 if hist in RICH_HISTS else PROJ


SETUP_FLAVOUR = {'fresh': SETUP_ARGS, 'freshn': SETUP_ARGS + NATIVE, 'freshx': SETUP_ARGS + CROSS, 'freshr': SETUP_ARGS}
MACHINE_FILE_HISTS = {'freshn', 'freshx', 'n1', 'n2', 'x1'}
# histories in which some option value lives in coredata.dat and nowhere else (the environment of the first setup);
# values from a machine file are reproducible from cmd_line.txt ([properties] names the file; it is re-read whenever
# the configuration is rebuilt from cmd_line.txt, also for a directory without coredata.dat since the --wipe repairs)
COREDATA_ONLY_HISTS = {'e2'}
# how the command ends when nobody kills it
VARIANTS = {
    'ok': 'succeeds',
    'invalid': 'fails early: a -D value outside the choices',
    'error': 'fails in the interpreter (error() guarded by an option), before coredata is dumped',
    'noninja': 'fails late: the ninja backend finds no ninja after coredata was dumped; the except handler rolls back',
    'postconf': 'fails last: a postconf script exits 1 after every record was written; the except handler rolls back',
}
CMD_ARGS = {
    'reconfigure': ['-Dbeta=z', '-Dalpha=a7'],
    'wipe': [],
    'configure': ['-Dbeta=z', '-Dalpha=a7'],
}
BACKENDS = ['ninja', 'none']


class Scn(T.NamedTuple):
    cmd: str
    hist: str
    backend: str
    variant: str = 'ok'

    @property
    def name(self) -> str:
        return f'{self.cmd}/{self.hist}/{self.backend}' + ('' if self.variant == 'ok' else '/' + self.variant)

    @property
    def lean_name(self) -> str:
        return f'sc_{self.cmd}_{self.hist}_{self.backend}' + ('' if self.variant == 'ok' else '_' + self.variant)

    @property
    def args(self) -> T.List[str]:
        base = SETUP_FLAVOUR[self.hist] if self.cmd == 'setup' else CMD_ARGS[self.cmd]
        if self.variant == 'invalid':
            return ['-Dbeta=q']
        if self.variant == 'error':
            return base + ['-Dboom=true']
        return base

    @property
    def env_extra(self) -> T.Dict[str, str]:
        if self.variant == 'noninja':
            return {'PATH': '/usr/local/bin:/usr/bin:/bin'}
        if self.variant == 'postconf':
            return {'C09_POSTFAIL': '1'}
        return {}

    @property
    def expected_rc(self) -> int:
        return 0 if self.variant == 'ok' else 1

    @property
    def mf(self) -> bool:
        """some option values of the directory live only in coredata.dat (environment of the first setup)"""
        return self.hist in COREDATA_ONLY_HISTS

    def dvals(self) -> T.Dict[str, str]:
        """option name -> value string of every -D on the command line"""
        out = {}
        for a in self.args:
            if a.startswith('-D') and '=' in a:
                k, v = a[2:].split('=', 1)
                out[k] = v
        return out


ALL_SCENARIOS = [Scn('setup', 'fresh', b) for b in BACKENDS] + \
    [Scn(c, h, b) for c in ('reconfigure', 'wipe', 'configure') for h in ('h1', 'h2', 'h3') for b in BACKENDS] + \
    [Scn('setup', 'freshn', 'ninja'), Scn('setup', 'freshx', 'none'),
     Scn('reconfigure', 'n1', 'none'), Scn('reconfigure', 'n2', 'ninja'), Scn('reconfigure', 'x1', 'none'),
     Scn('wipe', 'n1', 'ninja'), Scn('wipe', 'n2', 'none'), Scn('wipe', 'x1', 'ninja'),
     Scn('configure', 'n1', 'ninja'), Scn('configure', 'n2', 'none'), Scn('configure', 'x1', 'none'),
     Scn('reconfigure', 'e2', 'none'), Scn('configure', 'e2', 'ninja'),
     # commands x outcomes: the failure and rollback paths are crash-enumerated too
     Scn('reconfigure', 'e2', 'ninja', 'noninja'), Scn('reconfigure', 'n2', 'ninja', 'noninja'),
     Scn('reconfigure', 'e2', 'none', 'postconf'), Scn('reconfigure', 'e2', 'none', 'error'),
     Scn('reconfigure', 'e2', 'none', 'invalid'), Scn('configure', 'e2', 'none', 'invalid'),
     Scn('setup', 'fresh', 'ninja', 'noninja'), Scn('setup', 'freshn', 'ninja', 'postconf'),
     # every kind of state file meson writes at configure time
     Scn('setup', 'freshr', 'ninja'), Scn('reconfigure', 'r2', 'ninja'), Scn('configure', 'r2', 'ninja'),
     Scn('reconfigure', 'r2', 'ninja', 'postconf')]
# (no --wipe on the rich project: the order in which rmtree meets the content-addressed wrapper files follows their
# names, which hash the scratch path, so the recorded trace would differ from run to run)
QUICK_SCENARIOS = [Scn('setup', 'freshn', 'ninja'), Scn('wipe', 'n2', 'none'),
                   Scn('reconfigure', 'n2', 'ninja'), Scn('reconfigure', 'e2', 'ninja', 'noninja'),
                   Scn('configure', 'e2', 'none', 'invalid'), Scn('configure', 'n2', 'none'),
                   Scn('setup', 'freshr', 'ninja')]
# scenarios on the rich project are long: the quick tier kills them at every writer kind and every state file
# effect, and samples the rest sparsely
SPARSE_IN_QUICK = 30


def meson_argv(cmd: str, args: T.List[str], bd: str, backend: str, proj: str = PROJ) -> T.List[str]:
    m = [sys.executable, os.path.join(common.REPO, 'meson.py')]
    if cmd == 'setup':
        return m + ['setup', '--backend=' + backend] + args + [bd, proj]
    if cmd == 'reconfigure':
        return m + ['setup', '--reconfigure'] + args + [bd, proj]
    if cmd == 'wipe':
        return m + ['setup', '--wipe'] + args + [bd, proj]
    if cmd == 'configure':
        return m + ['configure'] + args + [bd]
    raise ValueError(cmd)


def meson_env(tmpdir: str, bd: T.Optional[str] = None, log: T.Optional[str] = None,
              at: T.Optional[int] = None, mode: str = 'before',
              extra: T.Optional[T.Dict[str, str]] = None) -> T.Dict[str, str]:
    env = {
        'PATH': FAKEBIN + os.pathsep + '/usr/local/bin:/usr/bin:/bin',
        'PYTHONPATH': CRASHSITE + os.pathsep + common.REPO,
        'PYTHONHASHSEED': '0',
        'PYTHONDONTWRITEBYTECODE': '1',
        'LC_ALL': 'C.UTF-8',
        'HOME': tmpdir,
        'TMPDIR': tmpdir,
    }
    if bd is not None:
        env['MESON_VERIF_BUILD_DIR'] = bd
        if log:
            env['MESON_VERIF_EFFECT_LOG'] = log
        if at is not None:
            env['MESON_VERIF_CRASH_AT'] = str(at)
            env['MESON_VERIF_CRASH_MODE'] = mode
    if extra:
        env.update(extra)
    return env


def run_proc(argv: T.List[str], env: T.Dict[str, str]) -> T.Tuple[int, str]:
    p = subprocess.run(argv, env=env, stdout=subprocess.PIPE, stderr=subprocess.STDOUT, text=True,
                       errors='replace', timeout=300, cwd=env['TMPDIR'])
    return p.returncode, p.stdout


# ---------------------------------------------------------------- effect traces

FIXED_IDS = {
    'meson-private/coredata.dat': 0,
    'meson-private/cmd_line.txt': 1,
    'meson-private/coredata.dat~': 2,
    'meson-private/coredata.dat.prev': 3,
    'meson-private/build.dat': 4,
    'build.ninja': 5,
    'build.ninja~': 6,
    'meson-private': 7,
    'meson-private/cmd_line.txt~': 8,
}
STATE_FILES = ['meson-private/coredata.dat', 'meson-private/cmd_line.txt', 'meson-private/coredata.dat~',
               'meson-private/coredata.dat.prev', 'meson-private/build.dat', 'build.ninja', 'build.ninja~',
               'meson-private', 'meson-private/cmd_line.txt~']
COMPARED = [0, 1, 3, 4, 5, 7]     # ids whose observed state is compared with the model
INPLACE_CRITICAL = {'meson-private/cmd_line.txt', 'meson-private/build.dat'}
KIND_CODE = {'open_w': 'ow', 'open_a': 'oa', 'write': 'w', 'flush': 'fl', 'fsync': 'fs', 'close': 'cl',
             'replace': 'rp', 'rename': 'rp', 'copyfile': 'cp', 'unlink': 'ul', 'rmdir': 'rd', 'mkdir': 'mk',
             'other': 'ot'}

Raw = T.Tuple[str, str, str]      # kind, path, second path or byte count


def parse_log(path: str) -> T.List[Raw]:
    out: T.List[Raw] = []
    if not os.path.exists(path):
        return out
    for line in open(path, encoding='utf-8', errors='replace'):
        w = line.rstrip('\n').split(' ')
        if len(w) < 3:
            continue
        out.append((w[1], _norm_tmp(w[2].replace('%20', ' ')), _norm_tmp(w[3].replace('%20', ' ')) if len(w) > 3 else ''))
    return out


_TMP_RE = None


def _norm_tmp(p: str) -> str:
    """tempfile names (compiler check directories under meson-private) vary from run to run"""
    global _TMP_RE
    if _TMP_RE is None:
        import re
        _TMP_RE = re.compile(r'(^|/)tmp[a-z0-9_]{8}(?=/|$)')
    return _TMP_RE.sub(lambda m: m.group(1) + 'tmp@', p)


def file_class(rel: str) -> str:
    """kind of a written file: digests in names replaced (meson_exe_python3_<digest>.dat)"""
    import re
    return re.sub(r'[0-9a-f]{16,}', '<digest>', _norm_tmp(rel))


NOT_STATE = {'.gitignore', '.hgignore', 'CACHEDIR.TAG', 'meson-private/meson.lock'}


def not_state(p: str) -> bool:
    """paths that are not state of the build directory: files no meson command reads, out-of-tree copies, and the
    scratch files of compiler checks (written and consumed inside one run)"""
    return (p in NOT_STATE or p.startswith('@out') or '/tmp@' in p or p.startswith('meson-private/sanity')
            or p.startswith('meson-private/tmp@'))


def write_set(raw: T.Iterable[Raw]) -> T.List[str]:
    """every path inside the build dir that the trace creates or writes (opens for writing, renames/copies onto)"""
    out = set()
    for k, p, x in raw:
        if k in ('open_w', 'open_a') and not p.startswith('@out'):
            out.add(p)
        if k in ('replace', 'rename', 'copyfile') and x and not x.startswith('@out'):
            out.add(x)
    return sorted(out)


class Interner:
    """path -> id; the nine state files have fixed ids, the rest are numbered from 10 in sorted order.
    Content-addressed names (a digest of absolute paths, different in every scratch slot) are ordered by kind and
    first appearance in the traces, so that the numbering is the same on every run."""

    def __init__(self, paths: T.Iterable[str], seq: T.Sequence[str] = ()):
        self.ids = dict(FIXED_IDS)
        first = {}
        for i, q in enumerate(seq):
            first.setdefault(q, i)

        def key(q: str):
            c = file_class(q)
            if '<digest>' in c:
                return (c, first.get(q, 1 << 30), '')
            return (c, 0, q)
        n = 10
        for p in sorted(set(paths), key=key):
            if p not in self.ids:
                self.ids[p] = n
                n += 1

    def __call__(self, p: str) -> int:
        if p not in self.ids:
            self.ids[p] = max(self.ids.values()) + 1
        return self.ids[p]


def path_seq(raws: T.Iterable[T.List[Raw]]) -> T.List[str]:
    out = []
    for raw in raws:
        for k, p, x in raw:
            out.append(p)
            if k in ('replace', 'rename', 'copyfile'):
                out.append(x)
    return out


def paths_of(raw: T.Iterable[Raw]) -> T.Set[str]:
    s = set()
    for k, p, x in raw:
        s.add(p)
        if k in ('replace', 'rename', 'copyfile'):
            s.add(x)
    return s


def coalesce(raw: T.List[Raw]) -> T.Tuple[T.List[Raw], T.List[int]]:
    """merge consecutive `write`s on one path; returns (effects, raw start index of each effect)"""
    out: T.List[Raw] = []
    start: T.List[int] = []
    for i, e in enumerate(raw):
        if e[0] == 'write' and out and out[-1][0] == 'write' and out[-1][1] == e[1]:
            continue
        out.append((e[0], e[1], e[2] if e[0] != 'write' else ''))
        start.append(i)
    return out, start


def enc_effects(effs: T.List[Raw], I: Interner) -> str:
    items = []
    for k, p, x in effs:
        c = KIND_CODE[k]
        if c == 'cl':
            items.append(f'cl:{I(p)}:2')
        elif c in ('rp', 'cp'):
            items.append(f'{c}:{I(p)}:{I(x)}')
        else:
            items.append(f'{c}:{I(p)}')
    return ';'.join(items)


def lean_effect(e: Raw, I: Interner) -> str:
    k, p, x = e
    c = KIND_CODE[k]
    name = {'ow': 'openW', 'oa': 'openA', 'w': 'write', 'fl': 'flush', 'fs': 'fsync', 'ul': 'unlink',
            'rd': 'rmdir', 'mk': 'mkdir', 'ot': 'other'}
    if c == 'cl':
        return f'.close {I(p)} .new'
    if c == 'rp':
        return f'.replace {I(p)} {I(x)}'
    if c == 'cp':
        return f'.copyfile {I(p)} {I(x)}'
    return f'.{name[c]} {I(p)}'


def listing(bd: str) -> T.Dict[str, str]:
    """relative path -> 'd' | 'f' for everything under the build dir except meson-logs"""
    out: T.Dict[str, str] = {}
    if not os.path.isdir(bd):
        return out
    out['.'] = 'd'
    for root, dirs, files in os.walk(bd):
        rel = os.path.relpath(root, bd)
        if rel == '.':
            dirs[:] = [d for d in dirs if d != 'meson-logs']
        for d in dirs:
            out[os.path.normpath(os.path.join(rel, d))] = 'd'
        for f in files:
            out[os.path.normpath(os.path.join(rel, f))] = 'f'
    return out


def init_states(lst: T.Dict[str, str]) -> T.Dict[str, str]:
    st = {}
    for p, k in lst.items():
        if k == 'd':
            st[p] = 'd'
        elif p == 'meson-private/coredata.dat.prev':
            st[p] = 'o0'
        else:
            st[p] = 'o1'
    return st


def enc_init(st: T.Dict[str, str], I: Interner) -> str:
    return ';'.join(f'{I(p)}:{s}' for p, s in sorted(st.items(), key=lambda kv: I(kv[0])))


# ---------------------------------------------------------------- observation of a directory (implementation side)

def _impl():
    from mesonbuild import coredata, build, cmdline
    from mesonbuild.utils import universal
    return coredata, build, cmdline, universal


def coredata_values(path: str) -> T.Optional[T.Dict[str, T.Any]]:
    """option name -> value of a pickled CoreData, None when the real loader rejects the file"""
    coredata, _b, _c, U = _impl()
    try:
        cd = U.pickle_load(path, 'Coredata', coredata.CoreData)
        return {str(k): v.value for k, v in cd.optstore.options.items()}
    except Exception:
        return None


def build_dat_ok(bd: str) -> bool:
    _c, build, _cl, _U = _impl()
    try:
        build.load(bd)
        return True
    except Exception:
        return False


def build_dat_file_ok(path: str) -> bool:
    _c, build, _cl, U = _impl()
    try:
        U.pickle_load(path, 'Build data', build.Build)
        return True
    except Exception:
        return False


def cmdline_dict(path: str) -> T.Optional[T.Dict[str, T.Any]]:
    """what read_cmd_line_file would read; None when it would raise"""
    _c, _b, cmdline, _U = _impl()
    try:
        cfg = cmdline.CmdLineFileParser()
        cfg.read(path)
        import ast
        props = dict(cfg['properties'])
        for k in ('cross_file', 'native_file'):     # read_cmd_line_file evaluates these as Python literals
            if not isinstance(ast.literal_eval(props.get(k, '[]')), list):
                return None
        return {'options': dict(cfg['options']), 'properties': props}
    except Exception:
        return None


def sig(obj: T.Any) -> str:
    return hashlib.sha256(json.dumps(obj, sort_keys=True, default=repr).encode()).hexdigest()[:12]


def observe(bd: str) -> T.Dict[str, str]:
    """state file -> 'a' | 'd' | 't' | 'o:<content signature>'"""
    out = {}
    for rel in STATE_FILES:
        p = os.path.join(bd, rel)
        if not os.path.lexists(p):
            out[rel] = 'a'
        elif os.path.isdir(p):
            out[rel] = 'd'
        elif rel.startswith('meson-private/coredata.dat'):
            v = coredata_values(p)
            out[rel] = 't' if v is None else 'o:' + sig(v)
        elif rel.startswith('meson-private/cmd_line.txt'):
            d = cmdline_dict(p)
            out[rel] = 't' if d is None else 'o:' + sig(d)
        elif rel == 'meson-private/build.dat':
            out[rel] = 'o:build' if build_dat_file_ok(p) else 't'
        else:
            data = _HEX_RE.sub(b'<digest>', open(p, 'rb').read().replace(os.path.dirname(bd).encode(), b'@SLOT'))
            out[rel] = 'o:' + hashlib.sha256(data).hexdigest()[:12]
    return out


import re as _re
_HEX_RE = _re.compile(rb'[0-9a-f]{40}')
ARTEFACTS = ['build.ninja', 'compile_commands.json', 'conf.h']


def artefacts(bd: str, wset: T.Sequence[str] = ()) -> T.Tuple[T.Dict[str, str], str]:
    """signature of every output a (re)configuration rewrites (the trace's write set, pickles excepted: they are
    judged by their consumer), slot path normalised; + the build.ninja text"""
    slot = os.path.dirname(bd).encode()
    out: T.Dict[str, str] = {}
    ninja = ''
    names = set(ARTEFACTS)
    info = os.path.join(bd, 'meson-info')
    if os.path.isdir(info):
        names |= {'meson-info/' + f for f in os.listdir(info) if f.startswith('intro-') and f.endswith('.json')}
    names |= {w for w in wset if not w.endswith('.dat') and not w.endswith('.dat.prev') and not w.endswith('~') and w not in NOT_STATE
              and '/tmp@' not in w and not w.startswith('meson-private/sanity') and not w.endswith('tmp_dump.json')
              and w != 'meson-private/cmd_line.txt' and not w.startswith('meson-info/meson-info')}
    for rel in sorted(names):
        p = os.path.join(bd, rel)
        if not os.path.isfile(p):
            continue
        data = _HEX_RE.sub(b'<digest>', open(p, 'rb').read().replace(slot, b'@SLOT'))
        if rel.endswith('.json'):
            try:
                data = json.dumps(json.loads(data.decode('utf-8')), sort_keys=True).encode()
            except Exception:
                out[rel] = 'unparsable'
                continue
        out[rel] = hashlib.sha256(data).hexdigest()[:12]
        if rel == 'build.ninja':
            ninja = data.decode('utf-8', 'replace')
    return out, ninja


def consume(bd: str, wset: T.Sequence[str]) -> T.List[T.Tuple[str, str]]:
    """run the real consumer of every state file the command ever wrote: unpickle every *.dat (what
    `meson --internal exe --unpickle`, `meson test`, `meson install`, the dependency scanner and `meson configure`
    do first), json.load every *.json; -> [(file, error)]"""
    import pickle
    _impl()
    bad: T.List[T.Tuple[str, str]] = []
    names = set(w for w in wset if not not_state(w))
    priv = os.path.join(bd, 'meson-private')
    if os.path.isdir(priv):
        names |= {'meson-private/' + f for f in os.listdir(priv) if f.endswith('.dat')}
    for rel in sorted(names):
        p = os.path.join(bd, rel)
        if not os.path.isfile(p):
            continue
        if '<digest>' in file_class(rel) and not referenced(bd, rel):
            continue      # content-addressed helper that nothing in the directory refers to (any more): no consumer
        try:
            if rel.endswith('.dat') or rel.endswith('.dat.prev'):
                with open(p, 'rb') as f:
                    pickle.load(f)
            elif rel.endswith('.json'):
                with open(p, 'rb') as f:
                    json.loads(f.read().decode('utf-8'))
        except Exception as e:
            bad.append((rel, type(e).__name__))
    return bad


def referenced(bd: str, rel: str) -> bool:
    """does any other file of the build directory (build.ninja, the pickles and json files of meson-private and
    meson-info) mention this file's name?"""
    name = os.path.basename(rel).encode()
    cands = [os.path.join(bd, 'build.ninja')]
    for d in ('meson-private', 'meson-info'):
        dd = os.path.join(bd, d)
        if os.path.isdir(dd):
            cands += [os.path.join(dd, f) for f in os.listdir(dd)]
    for c in cands:
        if os.path.isfile(c) and os.path.basename(c).encode() != name:
            try:
                if name in open(c, 'rb').read():
                    return True
            except OSError:
                pass
    return False


def consumer_commands(bd: str, tmpdir: str) -> T.List[T.Tuple[str, int, str]]:
    """the consuming commands themselves: `meson test --list`, `meson introspect --all`, `meson configure`;
    -> [(command, exit status, output tail)]"""
    m = [sys.executable, os.path.join(common.REPO, 'meson.py')]
    out = []
    for name, argv in (('test --list', m + ['test', '--list', '--no-rebuild', '-C', bd]),
                       ('introspect --all', m + ['introspect', '--all', bd]),
                       ('configure', m + ['configure', bd])):
        rc, o = run_proc(argv, meson_env(tmpdir))
        out.append((name, rc, o[-300:]))
    return out


def leftovers(bd: str) -> T.List[str]:
    """temporary files present in the directory"""
    return sorted(p for p, k in listing(bd).items()
                  if k == 'f' and (p.endswith('~') or os.path.basename(p) == 'tmp_dump.json'))


def snapshot_sigs(bd: str) -> T.Dict[str, str]:
    return observe(bd)


# ---------------------------------------------------------------- slots (one scratch build dir per worker)

class Slot:
    def __init__(self, root: str, i: int):
        self.dir = os.path.join(root, f's{i}')
        self.bd = os.path.join(self.dir, 'b')
        self.tmp = os.path.join(self.dir, 'tmp')
        self.log = os.path.join(self.dir, 'effects.log')
        os.makedirs(self.tmp, exist_ok=True)
        self.pre: T.Dict[T.Tuple[str, str], str] = {}

    def clean_tmp(self) -> None:
        common.rmtree(self.tmp)
        os.makedirs(self.tmp, exist_ok=True)

    def pre_dir(self, hist: str, backend: str) -> str:
        """build (once per slot) the directory history and keep a pristine copy; returns the copy's path"""
        key = (hist, backend)
        if key in self.pre:
            return self.pre[key]
        dst = os.path.join(self.dir, f'pre_{hist}_{backend}')
        common.rmtree(self.bd)
        common.rmtree(dst)
        for step in HIST[hist]:
            cmd, args = step[0], step[1]
            rc, out = run_proc(meson_argv(cmd, args, self.bd, backend, proj_of(hist)),
                               meson_env(self.tmp, extra=step[2] if len(step) > 2 else None))
            if rc != 0:
                raise HistoryFailed(f'history {hist}/{backend}: `{cmd} {" ".join(args)}` exited {rc}: {out[-600:]}')
        if os.path.isdir(self.bd):
            shutil.copytree(self.bd, dst, symlinks=True)
        else:
            dst = ''
        self.pre[key] = dst
        self.clean_tmp()
        return dst

    def restore(self, hist: str, backend: str) -> None:
        src = self.pre_dir(hist, backend)
        common.rmtree(self.bd)
        if src:
            shutil.copytree(src, self.bd, symlinks=True)


class HistoryFailed(Exception):
    pass


_SLOT: T.Optional[Slot] = None


def _init_worker(root: str) -> None:
    global _SLOT
    _SLOT = Slot(root, os.getpid())


def _in_slot(fn_name: str, args: tuple):
    assert _SLOT is not None
    return globals()[fn_name](_SLOT, *args)


class Pool:
    """NWORKERS worker processes, each owning one scratch slot (its own build dir at a fixed path)"""

    def __init__(self) -> None:
        self.root = common.scratch_dir('mverif-c09-')
        self.ex = concurrent.futures.ProcessPoolExecutor(NWORKERS, initializer=_init_worker, initargs=(self.root,))
        atexit.register(self.close)

    def submit(self, fn, *a):
        return self.ex.submit(_in_slot, fn.__name__, a)

    def close(self) -> None:
        if self.root:
            self.ex.shutdown(wait=True, cancel_futures=True)
            common.rmtree(self.root)
            self.root = ''


_POOL: T.Optional[Pool] = None
_RECORDED: T.Dict[Scn, dict] = {}
_FRESH: T.Dict[str, T.Any] = {}


def pool() -> Pool:
    global _POOL
    if _POOL is None or not _POOL.root:
        _POOL = Pool()
    return _POOL


# ---------------------------------------------------------------- recording the reference run of a scenario

def record(slot: Slot, sc: Scn) -> dict:
    slot.restore(sc.hist, sc.backend)
    pre_list = listing(slot.bd)
    pre_obs = observe(slot.bd)
    pre_vals = coredata_values(os.path.join(slot.bd, 'meson-private', 'coredata.dat')) or {}
    older_vals = coredata_values(os.path.join(slot.bd, 'meson-private', 'coredata.dat.prev'))
    pre_cl = cmdline_dict(os.path.join(slot.bd, 'meson-private', 'cmd_line.txt')) \
        if os.path.exists(os.path.join(slot.bd, 'meson-private', 'cmd_line.txt')) else None
    if os.path.exists(slot.log):
        os.unlink(slot.log)
    rc, out = run_proc(meson_argv(sc.cmd, sc.args, slot.bd, sc.backend, proj_of(sc.hist)),
                       meson_env(slot.tmp, slot.bd, slot.log, extra=sc.env_extra))
    raw = parse_log(slot.log)
    post_obs = observe(slot.bd)
    post_vals = coredata_values(os.path.join(slot.bd, 'meson-private', 'coredata.dat')) or {}
    # the effect trace of the follow-up setup on the directory the (unkilled) command leaves
    recovery_raw: T.List[Raw] = []
    if os.path.exists(os.path.join(slot.bd, 'meson-private', 'coredata.dat')):
        if os.path.exists(slot.log):
            os.unlink(slot.log)
        rrc, _ro = run_proc(meson_argv('reconfigure', [], slot.bd, sc.backend, proj_of(sc.hist)),
                            meson_env(slot.tmp, slot.bd, slot.log))
        if rrc == 0:
            recovery_raw = parse_log(slot.log)
    elif sc.cmd == 'setup':
        if os.path.exists(slot.log):
            os.unlink(slot.log)
        rrc, _ro = run_proc(meson_argv(sc.cmd, sc.args, slot.bd, sc.backend, proj_of(sc.hist)),
                            meson_env(slot.tmp, slot.bd, slot.log))
        if rrc == 0:
            recovery_raw = parse_log(slot.log)
    orphans = [w for w in write_set(raw) if '<digest>' in file_class(w)
               and os.path.isfile(os.path.join(slot.bd, w)) and not referenced(slot.bd, w)]
    torn_recoveries = {}
    if rc == sc.expected_rc:
        srcs = {p for k_, p, x in raw if k_ in ('replace', 'rename')}
        rewritten = set(write_set(recovery_raw))
        first_open = {}
        for i, (k_, p, x) in enumerate(raw):
            if k_ == 'open_w' and p not in first_open:
                first_open[p] = i
        for p, i in sorted(first_open.items()):
            if p in srcs or p in rewritten or not_state(p) or i + 1 >= len(raw):
                continue
            # written in place and left alone by a follow-up run that finds it whole: what does the follow-up run do
            # when it finds it torn?  kill right after the open, then record the real recovery
            slot.restore(sc.hist, sc.backend)
            run_proc(meson_argv(sc.cmd, sc.args, slot.bd, sc.backend, proj_of(sc.hist)),
                     meson_env(slot.tmp, slot.bd, None, i + 1, 'before', extra=sc.env_extra))
            if os.path.exists(slot.log):
                os.unlink(slot.log)
            configured = os.path.exists(os.path.join(slot.bd, 'meson-private', 'coredata.dat'))
            rargv = meson_argv('reconfigure', [], slot.bd, sc.backend, proj_of(sc.hist)) if configured else \
                (meson_argv(sc.cmd, sc.args, slot.bd, sc.backend, proj_of(sc.hist)) if sc.cmd == 'setup' else
                 [sys.executable, os.path.join(common.REPO, 'meson.py'), 'setup', slot.bd, proj_of(sc.hist)])
            run_proc(rargv, meson_env(slot.tmp, slot.bd, slot.log))
            torn_recoveries[p] = parse_log(slot.log)
    nomf_vals = None
    slot.clean_tmp()
    return {'scn': sc, 'rc': rc, 'nomf_vals': nomf_vals, 'recovery_raw': recovery_raw, 'orphans': orphans, 'torn_recoveries': torn_recoveries, 'out': out[-800:], 'raw': raw, 'pre_list': pre_list, 'pre_obs': pre_obs,
            'post_obs': post_obs, 'pre_vals': pre_vals, 'post_vals': post_vals, 'older_vals': older_vals}


def record_refs(slot: Slot, sc: Scn, wset: T.Sequence[str] = ()) -> dict:
    """artefacts of an uninterrupted world: the follow-up setup run (a) on the directory as it was before the command
    and (b) on the directory after the command got through (for a command made to fail from outside — no ninja,
    failing postconf script — after the same command line got through without that)"""
    refs: T.Dict[str, T.Any] = {'old': None, 'new': None}
    slot.restore(sc.hist, sc.backend)
    if os.path.exists(os.path.join(slot.bd, 'meson-private', 'coredata.dat')):
        rc, _o = run_proc(meson_argv('reconfigure', [], slot.bd, sc.backend, proj_of(sc.hist)), meson_env(slot.tmp))
        if rc == 0:
            refs['old'] = artefacts(slot.bd, wset)[0]
    slot.restore(sc.hist, sc.backend)
    extra = sc.env_extra if sc.variant in ('ok', 'invalid', 'error') else None
    rc, _o = run_proc(meson_argv(sc.cmd, sc.args, slot.bd, sc.backend, proj_of(sc.hist)), meson_env(slot.tmp, extra=extra))
    if rc == 0:
        rc, _o = run_proc(meson_argv('reconfigure', [], slot.bd, sc.backend, proj_of(sc.hist)), meson_env(slot.tmp))
        if rc == 0:
            refs['new'] = artefacts(slot.bd, wset)[0]
    refs['consumers'] = {n: rc_ for n, rc_, _t in consumer_commands(slot.bd, slot.tmp)} if refs['new'] or refs['old'] else {}
    slot.clean_tmp()
    return refs


def record_fresh(slot: Slot, proj: str) -> dict:
    """what a plain first-time `meson setup` (no -D) yields: the `fresh` configuration"""
    common.rmtree(slot.bd)
    m = [sys.executable, os.path.join(common.REPO, 'meson.py'), 'setup', slot.bd, proj]
    rc, out = run_proc(m, meson_env(slot.tmp))
    vals = coredata_values(os.path.join(slot.bd, 'meson-private', 'coredata.dat')) or {}
    return {'rc': rc, 'vals': vals}


def record_all(scenarios: T.List[Scn]) -> None:
    P = pool()
    todo = [sc for sc in scenarios if sc not in _RECORDED]
    futs = {sc: P.submit(record, sc) for sc in todo}
    for proj in sorted({proj_of(sc.hist) for sc in scenarios}):
        if proj not in _FRESH:
            _FRESH[proj] = P.submit(record_fresh, proj).result()
    for sc, f in futs.items():
        _RECORDED[sc] = f.result()


def scenario_model_inputs(rec: dict) -> T.Tuple[Interner, T.Dict[str, str], T.List[Raw], T.List[int]]:
    raw = rec['raw']
    st0 = init_states(rec['pre_list'])
    extra_paths: T.Set[str] = set()
    for tr_ in rec.get('torn_recoveries', {}).values():
        extra_paths |= paths_of(tr_)
    torn = [rec.get('torn_recoveries', {})[q] for q in sorted(rec.get('torn_recoveries', {}), key=file_class)]
    I = Interner(set(st0) | paths_of(raw) | paths_of(rec.get('recovery_raw', [])) | extra_paths,
                 path_seq([raw, rec.get('recovery_raw', [])] + torn) + sorted(st0))
    effs, start = coalesce(raw)
    return I, st0, effs, start


def gen_tables(ctx: Ctx) -> None:
    """record every scenario on the real code and emit the traces as Lean data"""
    import time as _t
    t0 = _t.time()
    record_all(ALL_SCENARIOS)
    ctx.extra['seconds_recording_traces'] = round(_t.time() - t0, 1)
    lines = [
        '/- GENERATED by harness/c09.py from the real meson commands on every run — do not edit.',
        '   One scenario per (command, directory history, backend): the initial directory and the recorded',
        '   effect sequence (consecutive writes on one handle merged).  Path ids 0-7 are the state files of',
        '   MesonModel.Crash.Model; ids from 10 are the other paths of that scenario in sorted order. -/',
        'import MesonModel.Crash.Model',
        'namespace MesonModel.Generated.CrashTraces',
        'open MesonModel.Crash',
        '',
    ]
    names = []
    for sc in ALL_SCENARIOS:
        rec = _RECORDED[sc]
        if rec['rc'] != sc.expected_rc:
            raise RuntimeError(f'reference run of {sc.name} exited {rec["rc"]} (expected {sc.expected_rc}): {rec["out"][-300:]}')
        I, st0, effs, _start = scenario_model_inputs(rec)
        init = ', '.join(f'({I(p)}, {lean_state(s)})' for p, s in sorted(st0.items(), key=lambda kv: I(kv[0])))
        tr = ',\n    '.join(lean_effect(e, I) for e in effs)
        lines.append(f'def {sc.lean_name} : Scenario :=')
        lines.append(f'  {{ name := "{sc.name}", cmd := .{sc.cmd}, coredataOnly := {"true" if sc.mf else "false"},')
        lines.append(f'    init := [{init}],')
        rtr = ',\n    '.join(lean_effect(e, I) for e in coalesce(rec.get('recovery_raw', []))[0])
        ign = ', '.join(str(I(p)) for p in sorted(I.ids, key=I) if not_state(p) or p in rec.get('orphans', []))
        lines.append('-- paths: ' + ', '.join(f'{i}={file_class(q)}' for q, i in sorted(I.ids.items(), key=lambda kv: kv[1])))
        lines.append(f'    trace := [\n    {tr}],')
        lines.append(f'    ignored := [{ign}],')
        lines.append(f'    recovery := [\n    {rtr}],')
        tparts = []
        for q, tr_ in sorted(rec.get('torn_recoveries', {}).items(), key=lambda kv: I(kv[0])):
            body = ', '.join(lean_effect(e, I) for e in coalesce(tr_)[0])
            tparts.append(f'({I(q)}, [{body}])')
        lines.append('    tornRecovery := [' + ',\n      '.join(tparts) + '] }')
        lines.append('')
        names.append(sc.lean_name)
    lines.append('def all : List Scenario := [' + ', '.join(names) + ']')
    lines.append('')
    lines.append('end MesonModel.Generated.CrashTraces')
    text = '\n'.join(lines) + '\n'
    old = open(GEN_FILE, encoding='utf-8').read() if os.path.exists(GEN_FILE) else None
    if old != text:
        os.makedirs(os.path.dirname(GEN_FILE), exist_ok=True)
        tmp = GEN_FILE + f'.{os.getpid()}.tmp'
        with open(tmp, 'w', encoding='utf-8') as f:
            f.write(text)
        os.replace(tmp, GEN_FILE)
        ctx.notes.append('Generated/CrashTraces.lean rewritten (recorded traces changed)')


def lean_state(s: str) -> str:
    return {'d': '.dir', 'a': '.absent', 't': '.torn', 'o0': '.ok .older', 'o1': '.ok .old', 'o2': '.ok .new'}[s]


# ---------------------------------------------------------------- which writers of the source are reached

HARVEST_DIRS = ['mesonbuild/backend', 'mesonbuild/modules']
HARVEST_FILES = ['mesonbuild/msetup.py', 'mesonbuild/coredata.py', 'mesonbuild/build.py', 'mesonbuild/mintro.py',
                 'mesonbuild/cmdline.py', 'mesonbuild/mconf.py', 'mesonbuild/environment.py',
                 'mesonbuild/utils/universal.py', 'mesonbuild/utils/platform.py', 'mesonbuild/interpreter/interpreter.py',
                 'mesonbuild/interpreter/mesonmain.py']


def harvest_writers() -> T.Dict[T.Tuple[str, int], str]:
    """grep-level harvest of the places where the configure-time code creates files: open(..., 'w'|'wb'|'a'|...),
    Path.write_text / write_bytes; -> {(file, line): source text}"""
    import re
    pat = re.compile(r"""(\bopen\([^#]*['"](?:w|wb|a|ab|w\+|x|xb)['"])|(\.write_text\()|(\.write_bytes\()""")
    files = list(HARVEST_FILES)
    for d in HARVEST_DIRS:
        dd = os.path.join(common.REPO, d)
        if os.path.isdir(dd):
            files += [os.path.join(d, f) for f in sorted(os.listdir(dd)) if f.endswith('.py')]
    out: T.Dict[T.Tuple[str, int], str] = {}
    for rel in files:
        p = os.path.join(common.REPO, rel)
        if not os.path.isfile(p):
            continue
        for i, line in enumerate(open(p, encoding='utf-8', errors='replace'), 1):
            if pat.search(line):
                out[(rel, i)] = line.strip()[:100]
    return out


def report_writers(ctx: Ctx) -> None:
    sites = harvest_writers()
    reached: T.Set[T.Tuple[str, int]] = set()
    kinds: T.Set[str] = set()
    for rec in _RECORDED.values():
        for raw in [rec.get('raw', []), rec.get('recovery_raw', [])]:
            for k, p, x in raw:
                if k in ('open_w', 'open_a'):
                    if not not_state(p):
                        kinds.add(file_class(p))
                    if x.startswith('site=') and x.count(':') >= 2:
                        f, ln = x[5:].split(':')[:2]
                        if ln.isdigit():
                            reached.add((f, int(ln)))
    hit = {s_ for s_ in sites if any((s_[0], s_[1] + d) in reached for d in (-2, -1, 0, 1, 2))}
    unreached = sorted(set(sites) - hit)
    ctx.extra['writer_sites'] = {
        'harvested': len(sites), 'reached_by_recorded_traces': len(hit),
        'other_sites_seen_at_run_time': sorted(f'{f}:{ln}' for f, ln in reached
                                               if not any((f, ln + d) in sites for d in (-2, -1, 0, 1, 2)))[:40],
        'unreached': [f'{f}:{ln}: {sites[(f, ln)]}' for f, ln in unreached],
        'kinds_of_state_files_written': sorted(kinds),
    }
    ctx.tag('writer-sites-harvested', len(sites))
    ctx.tag('writer-sites-reached', len(hit))
    ctx.tag('state-file-kinds-written', len(kinds))


# ---------------------------------------------------------------- one crash point on the real code

def crash_point(slot: Slot, sc: Scn, k: int, mode: str, second_always: bool = False,
                wset: T.Sequence[str] = ()) -> dict:
    slot.restore(sc.hist, sc.backend)
    if os.path.exists(slot.log):
        os.unlink(slot.log)
    pre_sizes = file_sizes(slot.bd)
    argv = meson_argv(sc.cmd, sc.args, slot.bd, sc.backend, proj_of(sc.hist))
    rc, out = run_proc(argv, meson_env(slot.tmp, slot.bd, slot.log, k, 'torn' if mode == 't' else 'before',
                                       extra=sc.env_extra))
    prefix = parse_log(slot.log)
    sizes = file_sizes(slot.bd)
    obs = observe(slot.bd)
    crashed_vals = coredata_values(os.path.join(slot.bd, 'meson-private', 'coredata.dat'))
    configured = os.path.exists(os.path.join(slot.bd, 'meson-private', 'coredata.dat'))
    if configured:
        rargv = meson_argv('reconfigure', [], slot.bd, sc.backend, proj_of(sc.hist))
        rkind = 'reconfigure'
    elif sc.cmd == 'setup':
        rargv = argv
        rkind = 'setup-same-args'
    else:
        rargv = [sys.executable, os.path.join(common.REPO, 'meson.py'), 'setup', slot.bd, proj_of(sc.hist)]
        rkind = 'setup'
    rrc, rout = run_proc(rargv, meson_env(slot.tmp))
    trace_back = ('Traceback (most recent call last)' in rout) or ('Unhandled python' in rout)
    after_vals = coredata_values(os.path.join(slot.bd, 'meson-private', 'coredata.dat'))
    clp = os.path.join(slot.bd, 'meson-private', 'cmd_line.txt')
    after = {'meson-private/cmd_line.txt': 'a' if not os.path.exists(clp) else ('t' if cmdline_dict(clp) is None else 'o')}
    bdat = build_dat_ok(slot.bd)
    wall = sorted(set(wset) | set(write_set(prefix)))
    arte, ninja_text = artefacts(slot.bd, wall)
    unreadable = consume(slot.bd, wall) if rrc == 0 else []
    cmds_failed = consumer_commands(slot.bd, slot.tmp) if (rrc == 0 and second_always) else []
    left = leftovers(slot.bd)
    second = None
    if rrc == 0 and (left or second_always):
        # a second recovery must change nothing (no leftover influences the directory)
        r2, _o2 = run_proc(meson_argv('reconfigure', [], slot.bd, sc.backend, proj_of(sc.hist)), meson_env(slot.tmp))
        arte2, _n2 = artefacts(slot.bd, wall)
        unreadable += [(f, 'after-second:' + e) for f, e in consume(slot.bd, wall)]
        vals2 = coredata_values(os.path.join(slot.bd, 'meson-private', 'coredata.dat'))
        second = {'rc': r2, 'same_artefacts': arte2 == arte, 'same_values': vals2 == after_vals,
                  'changed': sorted(n for n in set(arte) | set(arte2) if arte.get(n) != arte2.get(n))[:6]}
    slot.clean_tmp()
    return {'unreadable': unreadable, 'consumers_failed': cmds_failed, 'artefacts': arte, 'ninja_text': ninja_text if sc.backend == 'ninja' else '', 'leftovers': left,
            'second': second, 'pre_sizes': pre_sizes, 'sizes': sizes,
            'scn': sc.name, 'k': k, 'mode': mode, 'crash_rc': rc, 'prefix': prefix, 'obs': obs,
            'crashed_vals': crashed_vals, 'recovery': rkind, 'rrc': rrc, 'traceback': trace_back,
            'rout': rout[-1500:], 'after_vals': after_vals, 'after': after, 'build_load_ok': bdat}


BUF_PATHS = [0, 1, 2, 3, 4, 5, 6, 8]     # the state files that are files (Driver/Crash.lean bufFilePaths)


def file_sizes(bd: str) -> T.Dict[str, T.Optional[int]]:
    """state file -> size in bytes, None when absent"""
    out: T.Dict[str, T.Optional[int]] = {}
    for pid in BUF_PATHS:
        p = os.path.join(bd, STATE_FILES[pid])
        out[STATE_FILES[pid]] = os.path.getsize(p) if os.path.isfile(p) and not os.path.islink(p) else None
    return out


def buf_line(r: dict, I: Interner) -> str:
    """the byte-level model (Crash/Buffered.lean) on the effects the killed process completed"""
    items = []
    for k, p, x in r['prefix'][:r['k']]:
        c = KIND_CODE[k]
        if c == 'w':
            items.append(f'w:{I(p)}:{int(x) if x.isdigit() else 0}')
        elif c == 'cl':
            items.append(f'cl:{I(p)}')
        elif c in ('rp', 'cp'):
            items.append(f'{c}:{I(p)}:{I(x)}')
        else:
            items.append(f'{c}:{I(p)}')
    sizes = ';'.join(f'{FIXED_IDS[rel]}:{n}' for rel, n in sorted(r['pre_sizes'].items(), key=lambda kv: FIXED_IDS[kv[0]])
                     if n is not None)
    return f'bufsize {sizes}|{";".join(items)}'


def choose_points(ctx: Ctx, raw: T.List[Raw], extra: T.Iterable[T.Tuple[int, str]],
                  sparse: bool = False) -> T.List[T.Tuple[int, str]]:
    """(raw index, mode): 'b' = killed right before raw effect k, 't' = killed inside it"""
    effs, start = coalesce(raw)
    pts: T.Set[T.Tuple[int, str]] = set(extra)
    stride = (3 if sparse else 1) if ctx.deep else (SPARSE_IN_QUICK if sparse else 7)
    off = ctx.rng.randrange(stride)
    n = len(raw)
    seen_kinds: T.Set[str] = set()
    for ci, s in enumerate(start):
        e = effs[ci]
        if e[0] in ('open_w', 'open_a') and e[1] not in NOT_STATE:
            # every kind of written file at least once, killed right after the open (the file is empty / partly appended)
            kind = file_class(e[1])
            if ctx.deep or kind not in seen_kinds:
                seen_kinds.add(kind)
                pts.add((s + 1, 'b'))
        end = (start[ci + 1] if ci + 1 < len(start) else n) - 1
        critical = e[1] in FIXED_IDS or (e[0] in ('replace', 'rename', 'copyfile') and e[2] in FIXED_IDS)
        if (ctx.deep and not sparse) or critical or ci % stride == off:
            pts.add((s, 'b'))
        if e[0] == 'write':
            if e[1] in INPLACE_CRITICAL:
                # every raw write of an in-place written state file (quick: inside first/middle/last only)
                for j in range(s, end + 1):
                    pts.add((j, 'b'))
                    if ctx.deep or j in (s, (s + end) // 2, end):
                        pts.add((j, 't'))
            elif (ctx.deep and (not sparse or ci % stride == off)) or critical:
                for j in sorted({s, (s + end) // 2, end}):
                    pts.add((j, 't'))
                pts.add(((s + end) // 2, 'b'))
        if e[0] == 'copyfile' and (ctx.deep or critical):
            pts.add((s, 't'))
    for lo, hi in open_across_replace(raw):
        # the buffered dimension: a handle still open on a file that is renamed into place may hold unflushed data;
        # every boundary from the rename to the close of that handle is a kill point, whatever the file
        for j in range(lo, min(hi, n - 1) + 2):
            pts.add((j, 'b'))
    pts.add((n, 'b'))      # nothing killed: the completed command
    return sorted(pts)


def open_across_replace(raw: T.List[Raw]) -> T.List[T.Tuple[int, int]]:
    """(raw index of an os.replace/rename, raw index of the later close) for every handle that is open on the
    source of the rename when it happens (handles are named by the path they were opened with, as the recorder
    logs them); the close index is len(raw) when the handle is never closed"""
    open_at: T.Dict[str, int] = {}
    pending: T.Dict[str, int] = {}
    out: T.List[T.Tuple[int, int]] = []
    for i, (k, p, _x) in enumerate(raw):
        if k in ('open_w', 'open_a'):
            if p in pending:
                out.append((pending.pop(p), len(raw)))
            open_at[p] = i
        elif k == 'close':
            open_at.pop(p, None)
            if p in pending:
                out.append((pending.pop(p), i))
        elif k in ('replace', 'rename') and p in open_at:
            pending.setdefault(p, i)
    out += [(i, len(raw)) for i in pending.values()]
    return sorted(out)


# ---------------------------------------------------------------- comparison and oracle

def culprit(obs: T.Dict[str, str]) -> str:
    cl, cd = obs['meson-private/cmd_line.txt'], obs['meson-private/coredata.dat']
    if cl == 't':
        return 'cmd_line.txt:torn'
    if cd == 't':
        return 'coredata.dat:torn'
    if cl == 'a' and cd == 'a':
        return 'cmd_line.txt:absent'
    if cd == 'a':
        return 'coredata.dat:absent'
    return 'other'


def oracle(ctx: Ctx, rec: dict, r: dict) -> None:
    """the property, on the implementation's results only"""
    sc: Scn = rec['scn']
    case = {'scenario': sc.name, 'k': r['k'], 'mode': r['mode'], 'state_after_kill': r['obs'],
            'recovery': r['recovery'], 'recovery_rc': r['rrc'], 'recovery_output_tail': r['rout'][-400:]}
    if r['rrc'] != 0 or r['traceback']:
        what = 'exits %d%s' % (r['rrc'], ' with a Python traceback' if r['traceback'] else '')
        ctx.violation(f'{sc.cmd}:{culprit(r["obs"])}',
                      f'after killing `meson {sc.cmd}` the follow-up `meson setup` ({r["recovery"]}) {what}', case)
        return
    vals = r['after_vals']
    if vals is None or not r['build_load_ok'] or r['after']['meson-private/cmd_line.txt'] in ('t', 'a'):
        bad = 'coredata.dat' if vals is None else ('build.dat' if not r['build_load_ok'] else 'cmd_line.txt')
        ctx.violation(f'{sc.cmd}:unreadable-after-recovery:{bad}',
                      f'{bad} is unreadable after the follow-up setup succeeded', case)
        return
    pre, post = rec['pre_vals'], rec['post_vals']
    if sc.cmd == 'setup' and sc.variant != 'ok':
        # a first setup that fails leaves nothing behind; "the value the command was setting" is what the same
        # command line yields when it gets through
        twin = _RECORDED.get(Scn(sc.cmd, sc.hist, sc.backend))
        post = twin['post_vals'] if twin else {}
    if sc.cmd == 'wipe':
        post = pre        # --wipe sets nothing: it must reproduce the options the directory had
    wrong = {}
    dvals = sc.dvals()
    for name, v in vals.items():
        allowed = [d[name] for d in (pre, post) if name in d]
        # the value the command was setting (a failing command never gets to a state that shows it)
        setting = dvals.get(name.lstrip(':'))
        if setting is not None and (str(v) == setting or (isinstance(v, bool) and str(v).lower() == setting)):
            continue
        if v not in allowed:
            wrong[name] = {'got': v, 'before': pre.get(name, '<unset>'), 'command_sets': post.get(name, '<unset>')}
    missing = [n for n in post if n not in vals and n in pre]
    if wrong or missing:
        case['wrong_options'] = dict(list(wrong.items())[:6])
        case['missing_options'] = missing[:6]
        ctx.violation(f'{sc.cmd}:{culprit(r["obs"])}:options-lost',
                      f'after killing `meson {sc.cmd}` and re-running setup, options have neither their old nor '
                      f'their new value', case)
        return
    if r.get('unreadable'):
        f, err = r['unreadable'][0]
        case['unreadable_after_recovery'] = r['unreadable'][:6]
        ctx.violation(f'{sc.cmd}:unreadable-after-recovery:{file_class(f)}',
                      f'after killing `meson {sc.cmd}` the follow-up setup succeeds but {file_class(f)} stays unreadable '
                      f'for its consumer ({err})', case)
        return
    ref_rc = (rec.get('refs') or {}).get('consumers', {})
    failed = [(n, c, t) for n, c, t in r.get('consumers_failed', []) if c != ref_rc.get(n, 0)]
    if failed:
        name, crc, tail = failed[0]
        case['exit_status_on_uninterrupted_directory'] = ref_rc.get(name, 0)
        case['consumer'] = {'command': name, 'rc': crc, 'output_tail': tail}
        ctx.violation(f'{sc.cmd}:consumer-fails-after-recovery:{name.split()[0]}',
                      f'after killing `meson {sc.cmd}` and recovering, `meson {name}` fails', case)
        return
    # the recovered directory as a whole: every output the follow-up setup rewrites equals the one of a world where
    # the killed command never ran, or of one where it got through
    refs = rec.get('refs') or {}
    cands = [x for x in (refs.get('old'), refs.get('new')) if x]
    if cands:
        names = set(r['artefacts'])
        for c in cands:
            names |= set(c)
        bad = sorted(n for n in names if r['artefacts'].get(n) not in [c.get(n) for c in cands])
        if bad:
            cls = sorted({'intro' if n.startswith('meson-info/') else n for n in bad})
            case['differing_outputs'] = bad[:8]
            case['leftover_temporaries_after_kill'] = [p for p, o in r['obs'].items() if p.endswith('~') and o != 'a']
            ctx.violation(f'{sc.cmd}:recovered-output-differs:{"+".join(cls)}',
                          f'after killing `meson {sc.cmd}` the follow-up setup succeeds but leaves outputs that differ '
                          f'from those of an uninterrupted run (neither as if the command never ran nor as if it '
                          f'completed)', case)
            return
    if r['leftovers']:
        ctx.tag('leftover-temporaries-after-recovery', len(r['leftovers']))
    sec = r.get('second')
    if sec is not None and (sec['rc'] != 0 or not sec['same_artefacts'] or not sec['same_values']):
        case['second_recovery'] = sec
        case['leftovers_after_first_recovery'] = r['leftovers']
        ctx.violation(f'{sc.cmd}:second-recovery-changes-directory',
                      'a second follow-up setup changes the recovered directory (a leftover still influences it)', case)


def model_lines(rec: dict, r: dict, I: Interner, st0: T.Dict[str, str]) -> T.Tuple[str, str]:
    """(A) crashAt on the effect prefix the killed process logged; (B) recover on the observed directory"""
    sc: Scn = rec['scn']
    prefix: T.List[Raw] = r['prefix']
    k = r['k']
    done = prefix[:k]
    ceffs, _ = coalesce(done)
    kk = len(ceffs)
    if len(prefix) > k:
        ceffs = ceffs + [(prefix[k][0], prefix[k][1], prefix[k][2] if prefix[k][0] != 'write' else '')]
    a = f'crash {sc.cmd}|{enc_init(st0, I)}|{enc_effects(ceffs, I)}|{kk}|{r["mode"]}|{int(sc.mf)}'
    ost = {}
    for rel, o in r['obs'].items():
        ost[rel] = o if o in ('a', 'd', 't') else obs_gen(rec, rel, o)
    b = f'crash {sc.cmd}|{enc_init({p: s for p, s in ost.items() if s != "a"}, I)}||0|b|{int(sc.mf)}'
    return a, b


def obs_gen(rec: dict, rel: str, o: str) -> str:
    """generation of an observed readable file: new if it equals what the command writes, else old, else older"""
    failing = rec['scn'].variant != 'ok'
    if failing and o == rec['pre_obs'].get(rel):
        return 'o1'       # a failing command ends where it started (post == pre): that content is the old one
    if o == rec['post_obs'].get(rel):
        return 'o2'
    if o == rec['pre_obs'].get(rel):
        return 'o1'
    if rel.startswith('meson-private/coredata.dat'):
        if o == rec['pre_obs'].get('meson-private/coredata.dat'):
            return 'o1'
        if o == rec['post_obs'].get('meson-private/coredata.dat'):
            return 'o2'
        if o == rec['pre_obs'].get('meson-private/coredata.dat.prev'):
            return 'o0'
    if failing:
        return 'o2'       # written by the command before it failed (the oracle judges the values themselves)
    # a readable state file holding neither the old nor the new content: a generation nobody asked for
    return 'o1' if rel not in ('meson-private/coredata.dat', 'meson-private/cmd_line.txt') else 'o0'


def refines(rec: dict, rel: str, model_st: str, o: str) -> bool:
    """observed state `o` is one of the states the model's `model_st` stands for"""
    if model_st == 'a':
        return o == 'a'
    if model_st == 'd':
        return o == 'd'
    if o in ('a', 'd'):
        return False
    if rec['scn'].variant != 'ok' and model_st != 't':
        # a failing command writes two different contents (its own, then the rolled-back one): compare readability
        return o != 't'
    if model_st == 't':
        # any prefix of the new content, the complete content included
        return o == 't' or o == rec['post_obs'].get(rel) or rel in ('build.ninja',)
    want = {'o0': rec['pre_obs'].get('meson-private/coredata.dat.prev') if rel.endswith('.prev') else None,
            'o1': rec['pre_obs'].get(rel), 'o2': rec['post_obs'].get(rel)}[model_st]
    if rel.endswith('coredata.dat.prev') and model_st in ('o1', 'o2'):
        # .prev is a copy of coredata.dat of that generation
        want = (rec['pre_obs'] if model_st == 'o1' else rec['post_obs']).get('meson-private/coredata.dat')
    if rel == 'meson-private/cmd_line.txt' and model_st == 'o1' and want is None:
        return False
    return o == want


def expected_values(rec: dict, verdict: str, r: dict) -> T.Optional[T.Dict[str, T.Any]]:
    sc: Scn = rec['scn']
    if verdict.startswith('usable:cd:'):
        return r['crashed_vals']          # a loadable coredata.dat is used as it is
    if verdict == 'usable:fresh':
        return rec['post_vals'] if sc.cmd == 'setup' and sc.variant == 'ok' else (None if sc.cmd == 'setup' else _FRESH[proj_of(sc.hist)]['vals'])
    g = verdict.rsplit(':', 1)[1]
    if sc.variant != 'ok' and g != '1':
        return None                       # content written by a command that then failed: no reference snapshot
    if verdict.startswith('usable:cl:') and sc.mf:
        # rebuilt from cmd_line.txt: values that live only in coredata.dat are not reproduced; no reference snapshot
        return rec['post_vals'] if sc.cmd == 'setup' and sc.variant == 'ok' else None
    return {'0': rec['older_vals'], '1': rec['pre_vals'], '2': rec['post_vals']}.get(g)


def real_class(r: dict) -> str:
    if r['rrc'] == 0 and not r['traceback']:
        return 'usable'
    if r['traceback'] or r['rrc'] == 2:
        return 'internal'
    return 'rejected'


def evaluate(ctx: Ctx, rec: dict, results: T.List[dict]) -> None:
    sc: Scn = rec['scn']
    I, st0, _effs, _start = scenario_model_inputs(rec)
    n_raw = len(rec['raw'])
    lines: T.List[str] = []
    for r in results:
        a, b = model_lines(rec, r, I, st0)
        lines += [a, b]
    answers = ctx.driver('crash', lines) if ctx.model_available and lines else []
    # (C) buffer model: bytes in each state file after the kill.  A write() reaches the file at flush/close at the
    # latest (lower bound: nothing leaves the buffer earlier) and at once at the earliest (upper bound)
    bres = [r for r in results if r['mode'] == 'b' and r.get('pre_sizes') is not None]
    banswers = ctx.driver('crash', [buf_line(r, I) for r in bres]) if ctx.model_available and bres else []
    for r, ans in zip(bres, banswers):
        cells = ans.split(',')
        if len(cells) != len(BUF_PATHS):
            ctx.disagreement({'scenario': sc.name, 'k': r['k'], 'what': 'buffer model: unusable answer', 'answer': ans[:100]})
            continue
        for pid, cell in zip(BUF_PATHS, cells):
            rel = STATE_FILES[pid]
            got = r['sizes'].get(rel)
            ctx.tag('buffer-model:file-sizes-compared')
            if cell == '?':
                continue
            if cell == 'a':
                ok = got is None
            else:
                lo, hi = (int(v) for v in cell.split('-'))
                ok = got is not None and lo <= got <= hi
                if ok and lo < hi:
                    ctx.tag('buffer-model:data-pending-at-kill' if got < hi else 'buffer-model:data-already-in-file')
            if not ok:
                ctx.disagreement({'scenario': sc.name, 'k': r['k'], 'mode': r['mode'], 'what': 'bytes in file after kill (buffer model)',
                                  'file': rel, 'model(lo-hi)': cell, 'observed': got})
                break
    for i, r in enumerate(results):
        ctx.count()
        ctx.tag('cmd:' + sc.cmd)
        ctx.tag('mode:' + ('inside-write' if r['mode'] == 't' else 'before-effect'))
        k = r['k']
        kind = rec['raw'][k][0] if k < n_raw else 'end'
        ctx.tag('killed-at:' + kind)
        expect_rc = 137 if k < n_raw else rec['rc']
        if r['crash_rc'] != expect_rc:
            ctx.disagreement({'scenario': sc.name, 'k': k, 'mode': r['mode'],
                              'what': f'killed command exited {r["crash_rc"]}, expected {expect_rc}'})
            continue
        # the killed run must have followed the reference trace up to k (else indices are meaningless)
        if [e[:2] for e in r['prefix'][:k + 1]] != [e[:2] for e in rec['raw'][:k + 1]]:
            ctx.tag('trace-diverged-from-reference')
        oracle(ctx, rec, r)
        ctx.tag('recovery:' + real_class(r))
        ctx.tag('state:cmd_line=' + r['obs']['meson-private/cmd_line.txt'][:1] +
                ',coredata=' + r['obs']['meson-private/coredata.dat'][:1])
        ctx.seen_nontrivial((sc.name, kind, r['mode'], tuple(v[:1] for v in r['obs'].values()), real_class(r)))
        if not answers:
            continue
        va, fa, _acc, _need = answers[2 * i].split('|')
        vb, _fb, _accb, _needb = answers[2 * i + 1].split('|')
        # (A) effects model: predicted directory vs observed directory
        mst = fa.split(',')
        for pid in COMPARED:
            rel = STATE_FILES[pid]
            if not refines(rec, rel, mst[pid], r['obs'][rel]):
                ctx.disagreement({'scenario': sc.name, 'k': k, 'mode': r['mode'], 'what': 'directory after kill',
                                  'file': rel, 'model': mst[pid], 'observed': r['obs'][rel],
                                  'pre': rec['pre_obs'].get(rel), 'post': rec['post_obs'].get(rel)})
                break
        # (B) readers model: recover(observed directory) vs the real follow-up setup
        rc_ = real_class(r)
        mclass = vb.split(':')[0]
        if mclass != rc_:
            ctx.disagreement({'scenario': sc.name, 'k': k, 'mode': r['mode'], 'what': 'recovery verdict',
                              'model': vb, 'real': rc_, 'observed': r['obs'], 'output': r['rout'][-300:]})
        elif rc_ == 'usable':
            exp = expected_values(rec, vb, r)
            if exp is not None and r['after_vals'] is not None and exp != r['after_vals']:
                diff = {n: (exp.get(n), r['after_vals'].get(n)) for n in set(exp) | set(r['after_vals'])
                        if exp.get(n) != r['after_vals'].get(n)}
                ctx.disagreement({'scenario': sc.name, 'k': k, 'mode': r['mode'], 'what': 'option values after recovery',
                                  'model': vb, 'differences(model,real)': dict(list(diff.items())[:6])})
        if va != vb:
            ctx.tag('model-state-coarser-than-observed')
    check_manifests(ctx, sc, results)
    if len(ctx.samples) < 8 and results:
        r = results[len(results) // 2]
        ctx.sample({'scenario': sc.name, 'k': r['k'], 'mode': r['mode'], 'recovery': r['recovery'],
                    'recovery_rc': r['rrc'], 'state_after_kill': r['obs']})


def check_manifests(ctx: Ctx, sc: Scn, results: T.List[dict]) -> None:
    """run the Lean manifest checker of C04 (`mvdriver-ninja check`: rejects duplicate rules/outputs, undefined
    rules, cycles, dangling inputs) on every distinct build.ninja a recovery left"""
    if sc.backend != 'ninja' or not os.path.exists(common.driver_path('ninja')):
        return
    by_text: T.Dict[str, dict] = {}
    for r in results:
        if r['rrc'] == 0 and r.get('ninja_text'):
            by_text.setdefault(r['ninja_text'], r)
    if not by_text:
        return
    texts = list(by_text)
    try:
        lv = ctx.driver('ninja', ['leaves ' + common.enc(t) for t in texts])
        ans = ctx.driver('ninja', [f'check {common.enc(t)}|{(l.split("|", 1)[1] if l.startswith("OK|") else "")}|'
                                   for t, l in zip(texts, lv)])
    except common.ToolFailure as e:
        ctx.notes.append(f'manifest checker unavailable: {e}')
        return
    for t, l, a in zip(texts, lv, ans):
        ctx.tag('recovered-manifests-checked')
        verdict = a if l.startswith('OK|') else l
        if not verdict.startswith('OK|wf=1'):
            r = by_text[t]
            ctx.violation(f'{sc.cmd}:recovered-build.ninja-malformed',
                          'the build.ninja left by the follow-up setup is rejected by the manifest checker',
                          {'scenario': sc.name, 'k': r['k'], 'mode': r['mode'], 'checker': verdict[:200],
                           'state_after_kill': r['obs']})


def scn_wset(rec: dict) -> T.List[str]:
    return sorted(set(write_set(rec['raw'])) | set(write_set(rec.get('recovery_raw', []))))


def model_bad_points(ctx: Ctx, rec: dict) -> T.List[T.Tuple[int, str]]:
    """crash points the model says are not recoverable, as raw (index, mode) — always run for real"""
    if not ctx.model_available:
        return []
    sc: Scn = rec['scn']
    I, st0, effs, start = scenario_model_inputs(rec)
    ans = ctx.driver('crash', [f'scan {sc.cmd}|{enc_init(st0, I)}|{enc_effects(effs, I)}|{int(sc.mf)}'])[0]
    parts = ans.split('|')
    out = []
    n = len(rec['raw'])
    if len(parts) == 2 and parts[1]:
        for item in parts[1].split(';'):
            w = item.split(':')
            ci, mode = int(w[0]), w[1]
            if ci >= len(start):
                out.append((n, 'b'))
                continue
            s = start[ci]
            end = (start[ci + 1] if ci + 1 < len(start) else n) - 1
            out.append((s, 'b') if mode == 'b' else ((s + end) // 2, 't'))
        ctx.tag('model-predicted-unrecoverable-points', len(out))
    return out


def run_scenarios(ctx: Ctx, scenarios: T.List[Scn]) -> None:
    P = pool()
    record_all(scenarios)
    futs: T.List[T.Tuple[Scn, concurrent.futures.Future]] = []
    ref_futs = {sc: P.submit(record_refs, sc, scn_wset(_RECORDED[sc])) for sc in scenarios if 'refs' not in _RECORDED[sc]}
    for sc, f in ref_futs.items():
        _RECORDED[sc]['refs'] = f.result()
    for sc in scenarios:
        rec = _RECORDED[sc]
        if rec['rc'] != sc.expected_rc:
            if sc.variant == 'ok':
                ctx.violation(f'{sc.cmd}:command-fails', f'`meson {sc.cmd}` itself fails on history {sc.hist}',
                              {'scenario': sc.name, 'rc': rec['rc'], 'output': rec['out']})
            else:
                ctx.notes.append(f'{sc.name}: reference run exited {rec["rc"]} instead of failing cleanly; scenario skipped')
            continue
        ctx.tag('outcome:' + sc.variant)
        if sc.cmd == 'wipe' and rec['post_vals'] != rec['pre_vals']:
            diff = {n: (rec['pre_vals'].get(n), rec['post_vals'].get(n)) for n in set(rec['pre_vals']) | set(rec['post_vals'])
                    if rec['pre_vals'].get(n) != rec['post_vals'].get(n)}
            ctx.violation('wipe:changes-options', 'an uninterrupted `meson setup --wipe` does not reproduce the options',
                          {'scenario': sc.name, 'k': len(rec['raw']), 'mode': 'b', 'differences(before,after)': dict(list(diff.items())[:6])})
        bad = model_bad_points(ctx, rec)
        if not ctx.deep and len(bad) > 16:
            # quick tier: first, last and every 4th of the points the model calls unrecoverable
            bad = [b for i, b in enumerate(bad) if i % 6 == 0 or i == len(bad) - 1]
        pts = choose_points(ctx, rec['raw'], bad, sparse=sc.hist in RICH_HISTS)
        wset = scn_wset(rec)
        ctx.tag('crash-points:' + sc.name, len(pts))
        ctx.tag('effects-recorded:' + sc.name, len(rec['raw']))
        ctx.tag('handles-open-across-a-rename', len(open_across_replace(rec['raw'])))
        for k, mode in pts:
            futs.append((sc, P.submit(crash_point, sc, k, mode, bool(ctx.deep and k % 8 == 0), wset)))
    by: T.Dict[Scn, T.List[dict]] = {}
    for sc, f in futs:
        by.setdefault(sc, []).append(f.result())
    for sc, results in by.items():
        evaluate(ctx, _RECORDED[sc], results)


def run(ctx: Ctx) -> None:
    ctx.rule = ('distinct (scenario, kind of the effect killed at, before/inside, state class of the eight state '
                'files after the kill, recovery outcome)')
    ctx.assumptions += [
        'kill = process death at an effect boundary or after a flushed strict prefix of one write; no power-loss reordering',
        'project: harness/crashsite/proj (no compiler), backends ninja (fake ninja binary) and none',
        'recovery command: `meson setup --reconfigure` iff meson-private/coredata.dat exists, else `meson setup` '
        '(with the original arguments when the killed command was the first setup)',
        'files under meson-logs/ are not state and are not crash points',
    ]
    import time as _t
    t0 = _t.time()
    try:
        scenarios = ALL_SCENARIOS if ctx.deep else QUICK_SCENARIOS
        if os.environ.get('C09_SCN'):
            scenarios = [x for x in ALL_SCENARIOS if x.name in os.environ['C09_SCN'].split(',')]
        run_scenarios(ctx, scenarios)
        report_writers(ctx)
        ctx.extra['seconds_kill_and_recover'] = round(_t.time() - t0, 1)
        ctx.exhaustive = bool(ctx.deep)
        ctx.extra['scenarios'] = [s.name for s in scenarios]
        ctx.extra['traces_validated_against_impl'] = len(scenarios)
    except HistoryFailed as e:
        ctx.violation('history-fails', 'a plain command sequence fails', {'detail': str(e)})
    finally:
        if _POOL is not None:
            _POOL.close()
        if os.environ.get('C09_DEBUG'):
            for d in ctx.disagreements[:int(os.environ['C09_DEBUG'])]:
                print('DISAGREEMENT', json.dumps(d, default=repr)[:700])


def search(ctx: Ctx, disagreements: T.List[dict]) -> None:
    """something no longer checks (a recorded-trace obligation, the build, a correspondence): the oracle has already
    been evaluated on every point of run(); here the scenarios run() left out are enumerated as well, at every point the
    model calls unrecoverable plus the sampled boundaries"""
    if ctx.deep or os.environ.get('C09_NOSEARCH'):
        return        # run() was already exhaustive
    try:
        run_scenarios(ctx, [s for s in ALL_SCENARIOS if s not in QUICK_SCENARIOS])
    except HistoryFailed as e:
        ctx.violation('history-fails', 'a plain command sequence fails', {'detail': str(e)})
    finally:
        if _POOL is not None:
            _POOL.close()


def replay(ctx: Ctx, rep: dict) -> None:
    case = rep.get('case', rep)
    name = case.get('scenario')
    sc = next((s for s in ALL_SCENARIOS if s.name == name), None)
    if sc is None:
        print('replay file names no scenario; nothing to re-run:', json.dumps(rep)[:300])
        return
    try:
        P = pool()
        record_all([sc])
        rec = _RECORDED[sc]
        _RECORDED[sc]['refs'] = P.submit(record_refs, sc, scn_wset(rec)).result()
        r = P.submit(crash_point, sc, int(case['k']), case.get('mode', 'b'), True, scn_wset(rec)).result()
        print(json.dumps({k: v for k, v in r.items() if k not in ('prefix', 'ninja_text')}, indent=1, default=repr)[:3000])
        evaluate(ctx, rec, [r])
    finally:
        if _POOL is not None:
            _POOL.close()
