"""C18 — the events derived from a stream depend on that stream only.

What the value-level legs of C18 cannot see is state that outlives a parser object: class-body containers mutated
in place, counters written through the class, mutable default arguments, module globals.  Three parts:

  * harvest (every run, from the live source of mesonbuild/mtest.py): class-body attributes bound to mutable
    containers, writes through a class name / cls / type(self) / __class__, `global` statements and mutable default
    arguments in the classes and functions of mtest.py, module-level names bound to mutable containers.  Each hit must be in REVIEWED (with the reason why it cannot
    carry anything from one TAP stream to the next); an unreviewed hit is a failed obligation.  The class body of
    TAPParser itself goes to Lean (Generated/TapTables.lean: `parserClassAttrs`, `parserMutableClassAttrs`), where
    `fresh_parser_table` / `no_shared_mutable_parser_state` are re-checked against it.
  * sessions: MANY streams through fresh TAPParser instances in ONE process, in several orders — in this process
    (compared with the Lean `session` model, the reference TAP consumer and the stream's own first use) and in fresh
    interpreter processes that each start with a different stream (compared with each other: the same stream must
    give the same events at every position of every order).
  * a failing stream is reduced to `history` (one earlier stream where possible) + `lines`, confirmed in fresh
    interpreters: alone vs. after the history.
"""
from __future__ import annotations

import ast
import collections
import enum
import inspect
import itertools
import json
import os
import re
import subprocess
import sys
import tempfile
import typing as T

from . import common
from .common import Ctx

# ------------------------------------------------------------------ harvest of shared state

MUT_CALLS = {'set', 'list', 'dict', 'defaultdict', 'OrderedDict', 'deque', 'Counter', 'bytearray', 'ChainMap'}
MUT_TYPES = (list, set, dict, bytearray, collections.deque)

# kind:where -> why it cannot carry anything from one TAP stream to the next
REVIEWED = {
    'class-body-mutable:ConsoleLogger.ASCII_SPINNER': 'constant list of spinner frames, only indexed',
    'class-body-mutable:ConsoleLogger.SPINNER': 'constant list of spinner frames, only indexed',
    'class-body-mutable:TestRun.PROTOCOL_TO_CLASS': 'protocol -> class registry, filled at import time, only read in TestRun.__new__',
    'class-level-write:TestRun.num:TestRun.TEST_NUM': 'process-wide run counter used to number the console lines; not read by parse/complete',
    'module-mutable:UNENCODABLE_XML_UNICHRS': 'constant table of code point ranges (junit output)',
    'module-mutable:UNENCODABLE_XML_CHR_RANGES': 'constant table derived from it at import time',
    'module-mutable:UNIWIDTH_MAPPING': 'constant east-asian-width table, only read',
}


def _is_mut_node(v: ast.AST) -> bool:
    if isinstance(v, (ast.List, ast.Set, ast.Dict, ast.ListComp, ast.SetComp, ast.DictComp)):
        return True
    if isinstance(v, ast.Call):
        f = v.func
        n = f.id if isinstance(f, ast.Name) else (f.attr if isinstance(f, ast.Attribute) else '')
        return n in MUT_CALLS
    return False


def shared_state_hits(M) -> T.List[str]:
    """static (AST of the live module source) + dynamic (the imported classes) harvest; sorted `kind:where` strings"""
    out: T.Set[str] = set()
    tree = ast.parse(inspect.getsource(M))
    classnames = {n.name for n in ast.walk(tree) if isinstance(n, ast.ClassDef)}

    def scan_func(n: ast.AST, q: str) -> None:
        args = n.args  # type: ignore[attr-defined]
        for d in list(args.defaults) + [k for k in args.kw_defaults if k is not None]:
            if _is_mut_node(d):
                out.add(f'mutable-default:{q}')
        for m in ast.walk(n):
            if isinstance(m, (ast.Global, ast.Nonlocal)) and isinstance(m, ast.Global):
                out.add(f'global:{q}:{",".join(m.names)}')
            tg: T.List[ast.AST] = []
            if isinstance(m, ast.Assign):
                tg = list(m.targets)
            elif isinstance(m, (ast.AugAssign, ast.AnnAssign)):
                tg = [m.target]
            for t in tg:
                if isinstance(t, ast.Subscript):
                    t = t.value
                if isinstance(t, ast.Attribute):
                    b = t.value
                    if isinstance(b, ast.Name) and (b.id in classnames or b.id == 'cls'):
                        out.add(f'class-level-write:{q}:{b.id}.{t.attr}')
                    elif isinstance(b, ast.Attribute) and b.attr == '__class__':
                        out.add(f'class-level-write:{q}:__class__.{t.attr}')
                    elif isinstance(b, ast.Call) and isinstance(b.func, ast.Name) and b.func.id == 'type':
                        out.add(f'class-level-write:{q}:type().{t.attr}')

    def walk_class(c: ast.ClassDef, prefix: str) -> None:
        q = prefix + c.name
        for n in c.body:
            if isinstance(n, ast.ClassDef):
                walk_class(n, q + '.')
            elif isinstance(n, (ast.Assign, ast.AnnAssign)) and n.value is not None and _is_mut_node(n.value):
                tg = n.targets if isinstance(n, ast.Assign) else [n.target]
                for t in tg:
                    if isinstance(t, ast.Name):
                        out.add(f'class-body-mutable:{q}.{t.id}')
            elif isinstance(n, (ast.FunctionDef, ast.AsyncFunctionDef)):
                scan_func(n, f'{q}.{n.name}')
    for n in tree.body:
        if isinstance(n, ast.ClassDef):
            walk_class(n, '')
        elif isinstance(n, (ast.FunctionDef, ast.AsyncFunctionDef)):
            scan_func(n, n.name)
        elif isinstance(n, (ast.Assign, ast.AnnAssign)) and n.value is not None and _is_mut_node(n.value):
            # a module-level container can be mutated in place from any function without a `global` statement
            for t in (n.targets if isinstance(n, ast.Assign) else [n.target]):
                if isinstance(t, ast.Name):
                    out.add(f'module-mutable:{t.id}')

    def dyn(c: type, q: str, depth: int = 0) -> None:
        for a, v in vars(c).items():
            if a.startswith('__'):
                continue
            if issubclass(c, enum.Enum) and a.startswith('_') and a.endswith('_'):
                continue  # the enum machinery's own tables
            if issubclass(c, tuple) and hasattr(c, '_fields') and a == '_field_defaults':
                continue  # NamedTuple machinery
            if isinstance(v, MUT_TYPES):
                out.add(f'class-body-mutable:{q}.{a}')
            elif isinstance(v, type) and getattr(v, '__module__', None) == M.__name__ and depth < 3:
                dyn(v, f'{q}.{a}', depth + 1)
    for name, c in vars(M).items():
        if isinstance(c, type) and getattr(c, '__module__', None) == M.__name__ and c.__name__ == name:
            dyn(c, name)
    return sorted(out)


def _pyrepr(v: T.Any) -> str:
    if isinstance(v, bool):
        return 'True' if v else 'False'
    if isinstance(v, int):
        return str(v)
    if v is None:
        return 'None'
    if isinstance(v, str):
        return "''" if v == '' else 'str'
    if isinstance(v, tuple) and hasattr(v, '_fields'):
        return type(v).__name__
    return f'{type(v).__name__}:{repr(v)[:40]}'


def parser_class_attrs(M) -> T.List[T.Tuple[str, str]]:
    """the data attributes of TAPParser's class body (what a fresh instance starts from), sorted by name"""
    out = []
    for name, v in sorted(vars(M.TAPParser).items()):
        if name.startswith('__') or isinstance(v, (type, staticmethod, classmethod, property, re.Pattern)) or callable(v):
            continue
        out.append((name, _pyrepr(v)))
    return out


def unreviewed_parser_mutables(M) -> T.List[str]:
    """mutable class-body attributes of the parser and of the consumer class with its bases, minus the reviewed ones"""
    classes = [M.TAPParser] + [c for c in M.TestRunTAP.__mro__ if c is not object]
    out = []
    for c in classes:
        for a, v in vars(c).items():
            if not a.startswith('__') and isinstance(v, MUT_TYPES):
                q = f'{c.__qualname__}.{a}'
                if f'class-body-mutable:{q}' not in REVIEWED:
                    out.append(q)
    return sorted(out)


def check_shared_state(M, ctx: Ctx) -> None:
    try:
        hits = shared_state_hits(M)
    except Exception as ex:
        ctx.obligation_failed('shared-state harvest', f'{type(ex).__name__}: {str(ex)[:200]}')
        return
    ctx.extra['shared_state_sites'] = hits
    for h in hits:
        ctx.tag('shared-state:' + h.split(':')[0])
        if h not in REVIEWED:
            ctx.obligation_failed('state shared between instances / runs, not reviewed (harness/c18_state.py REVIEWED)', h)
    ctx.count(len(hits))


# ------------------------------------------------------------------ fresh interpreter worker

WORKER = r'''
import asyncio, json, sys, types
from mesonbuild import mtest as M
req = json.load(open(sys.argv[1]))
def g(e):
    out = [type(e).__name__]
    try:
        for v in e:
            out.append(v if isinstance(v, (int, str, bool)) or v is None else getattr(v, 'name', repr(v)))
    except Exception as ex:
        out.append('shape:' + type(ex).__name__)
    return out
class H:
    def log_subtest(self, *a): pass
async def verdict(lines):
    test = types.SimpleNamespace(protocol=M.TestProtocol.TAP, expected_fail=False, expected_exitcode=0,
                                 project_name='p', name='t', workdir=None)
    tr = M.TestRun(test, {}, 't', None, False, False, False)
    tr.start(['prog'])
    async def gen():
        for l in lines:
            yield l
    await tr.parse(H(), gen())
    tr.returncode = 0
    tr.complete()
    return [tr.res.name, len(tr.results), tr.additional_error]
out = []
for i in req['order']:
    lines = req['streams'][i]
    try:
        evs = [g(e) for e in M.TAPParser().parse(iter(lines))]
    except Exception as ex:
        evs = [['RAISE', type(ex).__name__]]
    try:
        v = asyncio.run(verdict(lines)) if req.get('verdict') else None
    except Exception as ex:
        v = ['RAISE', type(ex).__name__]
    out.append([evs, v])
json.dump(out, sys.stdout)
'''


def _spawn(streams: T.Sequence[T.Sequence[str]], order: T.Sequence[int], verdict: bool) -> subprocess.Popen:
    env = dict(os.environ)
    env['PYTHONPATH'] = common.REPO
    env['PYTHONDONTWRITEBYTECODE'] = '1'
    fd, path = tempfile.mkstemp(prefix='mverif-c18-session-', suffix='.json')
    with os.fdopen(fd, 'w') as f:
        json.dump({'streams': [list(s) for s in streams], 'order': list(order), 'verdict': verdict}, f)
    p = subprocess.Popen([sys.executable, '-c', WORKER, path], env=env, stdin=subprocess.DEVNULL, stdout=subprocess.PIPE,
                         stderr=subprocess.PIPE, text=True, cwd=common.REPO)
    p.req_path = path  # type: ignore[attr-defined]
    return p


def _collect(p: subprocess.Popen) -> T.Optional[list]:
    try:
        out, err = p.communicate(timeout=600)
    except Exception:
        p.kill()
        return None
    finally:
        try:
            os.unlink(p.req_path)  # type: ignore[attr-defined]
        except OSError:
            pass
    if p.returncode != 0:
        return [['WORKER-FAILED', err[-300:]]]
    try:
        return json.loads(out)
    except ValueError:
        return None


def in_fresh_process(streams: T.Sequence[T.Sequence[str]], verdict: bool = True) -> T.Optional[list]:
    """[[events, verdict], …] of `streams`, parsed in this order by fresh parsers in ONE fresh interpreter"""
    return _collect(_spawn(streams, list(range(len(streams))), verdict))


# ------------------------------------------------------------------ the stream pool

def sticky_items(C) -> T.List[T.List[T.Any]]:
    """streams that exercise every piece of per-stream state (one-shot errors, flags, counters, the TAP version)"""
    I, t, pl = C.Item, C.mk_test, C.mk_plan
    v13 = I('version', 'TAP version 13', 13)
    ys, yb, ye = I('ystart', '  ---', '  '), I('ybody', '  k: v', None), I('yend', '  ...', None)
    return [
        [t(True, 1, '', None, None), pl(2, None, None), t(True, 2, '', None, None)],                 # test after late plan
        [t(True, None, '', None, None), pl(3, None, None), t(True, None, '', None, None), t(True, None, '', None, None)],
        [pl(2, None, None), t(True, 1, '', None, None), t(True, 2, '', None, None)],                 # plain good
        [t(True, 1, '', None, None), I('bail', 'Bail out! stop', 'stop')],                            # bail-out suppresses count errors
        [pl(3, None, None), t(True, 1, '', None, None)],                                               # too few (must not be suppressed)
        [pl(1, None, None), t(True, 1, '', None, None), t(True, 2, '', None, None)],                 # too many + beyond plan
        [v13, t(True, 1, '', None, None), ys, yb, ye, pl(1, None, None)],                              # YAML block under TAP 13
        [t(True, 1, '', None, None), ys, yb, ye, pl(1, None, None)],                                   # the same lines without a version: no YAML
        [v13, t(True, None, '', None, None), ys, yb],                                                  # unterminated YAML
        [I('version', 'TAP version 12', 12), t(True, None, '', None, None)],                           # version too low
        [t(True, 1, '', None, None), t(True, 1, '', None, None)],                                     # duplicate
        [t(True, 2, '', None, None)],                                                                  # missing
        [pl(1, None, None), pl(1, None, None), t(False, 1, '', None, None)],                          # second plan then failure
        [t(False, 1, '', None, None), pl(1, None, None), pl(1, None, None)],                          # failure then second plan
        [t(True, None, 'a', 'SKIP', 'why')],
        [pl(0, 'SKIP', 'nothing')],
        [],
        [t(True, None, '', 'TODO', None)],
        [t(False, None, '', 'TODO', None), t(True, None, '', None, None)],
        [I('junk', 'garbage', None), t(True, None, '', None, None)],
        [t(True, None, '', None, None), I('version', 'TAP version 13', 13)],                           # misplaced version
    ]


def build_pool(C, ctx: Ctx) -> T.List[T.List[T.Any]]:
    rng = ctx.rng
    pool = [list(x) for x in sticky_items(C)]
    alpha = C.alphabet()
    for L in (1, 2):
        pool += [list(c) for c in itertools.product(alpha, repeat=L)]
    for _ in range(ctx.scale(250, 2500)):
        pool.append([rng.choice(alpha) for _ in range(rng.randint(3, 6))])
    for _ in range(ctx.scale(250, 2500)):
        items = C.rand_items(rng, rng.choice([2, 4, 8, 16]))
        if all(len(it.text) < 200 for it in items):      # the int()-limit streams have their own leg
            pool.append(items)
    return pool


def _orders(rng, n: int, k: int) -> T.List[T.List[int]]:
    base = list(range(n))
    out = [base, base[::-1], base[n // 2:] + base[:n // 2]]
    while len(out) < k:
        o = base[:]
        rng.shuffle(o)
        out.append(o)
    return out[:k]


def _fmt(evs: T.Any) -> str:
    return json.dumps(evs, ensure_ascii=True)[:300]


def reduce_history(lines: T.List[str], history: T.List[T.List[str]], alone: T.Any) -> T.List[T.List[str]]:
    """shortest prefix of `history` after which `lines` no longer parses as it does alone, then its last stream only"""
    def differs(h: T.List[T.List[str]]) -> bool:
        r = in_fresh_process(h + [lines])
        return r is not None and len(r) == len(h) + 1 and r[-1] != alone
    if not history or not differs(history):
        return history
    # the stream itself (second use of the same input), then the smallest streams of the history, each in its own
    # fresh interpreter (in parallel)
    if differs([lines]):
        return [lines]
    small = sorted({json.dumps(h) for h in history}, key=lambda x: (len(x), x))[:24]
    procs = [(json.loads(c), _spawn([json.loads(c), lines], [0, 1], True)) for c in small]
    hit = None
    for c, p in procs:
        r = _collect(p)
        if hit is None and r is not None and len(r) == 2 and r[-1] != alone:
            hit = c
    if hit is not None:
        return [hit]
    lo, hi = 1, len(history)     # smallest L with differs(history[:L])
    while lo < hi:
        mid = (lo + hi) // 2
        if differs(history[:mid]):
            hi = mid
        else:
            lo = mid + 1
    if differs([history[lo - 1]]):
        return [history[lo - 1]]
    return history[:lo]


def run_sessions(C, M, ctx: Ctx) -> None:
    rng = ctx.rng
    pool = build_pool(C, ctx)
    streams = [[it.text for it in items] for items in pool]
    n = len(streams)
    ctx.extra['session_pool'] = n

    # (1) fresh interpreters, a different order (and so a different first stream) in each: started now, read later
    worder = _orders(rng, n, ctx.scale(4, 8))
    procs = [_spawn(streams, o, True) for o in worder]

    # (2) this process: every stream through a fresh parser, several orders; model, reference consumer, first use
    first: T.Dict[int, str] = {}
    n_sess = 0
    for oi, order in enumerate(_orders(rng, n, ctx.scale(3, 6))):
        canon: T.List[str] = []
        for pos, i in enumerate(order):
            evs, _p, ex = C.impl_parse(M, streams[i])
            ctx.count()
            ctx.tag('session:in-process')
            if ex is not None:
                C.report_raise(ctx, streams[i], ex)
                canon.append('RAISE:' + type(ex).__name__)
                continue
            c = C.canon_events(M, evs)
            canon.append(c)
            msg = C.oracle_items(M, pool[i], evs)
            if msg is None and i in first and first[i] != c:
                msg = f'the same stream gave other events on an earlier use in this process: {first[i][:200]!r}, now {c[:200]!r}'
            first.setdefault(i, c)
            if msg:
                hist = [streams[j] for j in order[max(0, pos - 3):pos]]
                ctx.violation(C.key_of('second-use', streams[i]), f'stream parsed after other streams in the same process: {msg}',
                              {'lines': streams[i], 'items': [list(it) for it in pool[i]], 'parsed_just_before': hist,
                               'position_in_session': pos})
        if ctx.model_available:
            reqs, spans = [], []
            for a in range(0, n, 25):
                chunk = order[a:a + 25]
                reqs.append('session ' + '|'.join(C.lines_field(streams[i]) for i in chunk))
                spans.append((a, chunk))
            for (a, chunk), ans in zip(spans, ctx.driver('tap', reqs)):
                parts = ans.split('|')
                n_sess += 1
                ctx.tag('kind:session')
                for k, i in enumerate(chunk):
                    mine = canon[a + k]
                    theirs = parts[k] if k < len(parts) else '<missing>'
                    if mine != theirs:
                        ctx.disagreement({'kind': 'session', 'input': streams[i], 'position': a + k, 'impl': mine[:300],
                                          'model': theirs[:300]})
    ctx.count(n_sess)

    # a second parse on the SAME parser object (meson never does it; ties the model's state after a whole stream)
    if ctx.model_available:
        pairs = [(rng.randrange(n), rng.randrange(n)) for _ in range(ctx.scale(400, 4000))]
        reqs, impl = [], []
        for a, b in pairs:
            try:
                p = M.TAPParser()
                list(p.parse(iter(streams[a])))
                impl.append(C.canon_events(M, list(p.parse(iter(streams[b])))))
            except Exception as ex:
                impl.append('RAISE:' + type(ex).__name__)
            reqs.append(f'reuse {C.lines_field(streams[a])}|{C.lines_field(streams[b])}')
        for (a, b), mine, ans in zip(pairs, impl, ctx.driver('tap', reqs)):
            ctx.count()
            ctx.tag('kind:reuse')
            if mine != ans:
                ctx.disagreement({'kind': 'reuse', 'input': [streams[a], streams[b]], 'impl': mine[:300], 'model': ans[:300]})

    # (1, continued) the fresh interpreters must agree with each other, stream by stream
    results = [_collect(p) for p in procs]
    by_stream: T.List[T.Dict[str, T.List[T.Tuple[int, int]]]] = [dict() for _ in range(n)]
    for w, (order, res) in enumerate(zip(worder, results)):
        if res is None or len(res) != n:
            ctx.obligation_failed('session worker', f'fresh interpreter {w} gave no usable answer: {str(res)[:200]}')
            continue
        for pos, i in enumerate(order):
            by_stream[i].setdefault(json.dumps(res[pos]), []).append((w, pos))
            ctx.count()
            ctx.tag('session:fresh-interpreter')
    bad = [i for i in range(n) if len(by_stream[i]) > 1]
    bad.sort(key=lambda i: (len(json.dumps(streams[i])), i))
    for i in bad[:2]:
        alone_r = in_fresh_process([streams[i]])
        alone = alone_r[0] if alone_r else None
        # an occurrence that differs from the stream parsed alone, and what preceded it there
        (w, pos) = min((o for res, occ in by_stream[i].items() if json.loads(res) != alone for o in occ), default=(0, 0))
        history = [streams[j] for j in worder[w][:pos]]
        got = results[w][pos] if results[w] else None
        history = reduce_history(streams[i], history, alone)
        ctx.extra.setdefault('history_dependence', {'history': history, 'lines': streams[i]})
        ctx.violation(C.key_of('second-use', streams[i]),
                      'the events / verdict of a stream depend on what the same process parsed before it: '
                      f'alone {_fmt(alone)}, after the history {_fmt(got)}',
                      {'lines': streams[i], 'history': history, 'alone': alone, 'after_history': got})


def annotate_history(ctx: Ctx) -> None:
    """when the session leg found that results depend on what was parsed before, the failing inputs the other legs
    found in this (long-lived) process may fail only after such a history: confirm in fresh interpreters, for the
    smallest few, and record the history with the input so that the replay file reproduces the failure"""
    hd = ctx.extra.get('history_dependence')
    if not hd:
        return
    cands = [v for v in ctx.violations if isinstance(v['case'].get('lines'), list) and 'history' not in v['case']]
    cands.sort(key=lambda v: len(json.dumps(v['case'], default=repr)))
    checked = 0
    for v in cands:
        lines = [str(x) for x in v['case']['lines']]
        if checked >= 8 or any(len(l) > 4000 for l in lines):
            # not re-examined in a fresh interpreter: found in a process whose results depend on its past, so not
            # reported as a stand-alone failing input (the examined ones and the session findings are)
            ctx.violations.remove(v)
            continue
        checked += 1
        alone = in_fresh_process([lines])
        after = in_fresh_process(list(hd['history']) + [lines])
        if alone and after and len(after) == len(hd['history']) + 1 and alone[0] != after[-1]:
            v['case'] = {'history': hd['history'], **v['case'], 'alone': alone[0], 'after_history': after[-1]}
            v['what'] = 'after the history was parsed in the same process: ' + v['what']
    ctx.notes.append('results depend on what the process parsed before: in-process findings were re-examined in fresh '
                     'interpreters (alone vs. after the history) and carry the history they need')


def replay(C, M, ctx: Ctx, case: dict) -> None:
    lines, history = case['lines'], case.get('history') or []
    print('history (parsed first, each stream by a fresh TAPParser):', history)
    print('lines:', lines)
    alone = in_fresh_process([lines])
    after = in_fresh_process(list(history) + [lines])
    print('alone, in a fresh interpreter     :', _fmt(alone[0] if alone else None))
    print('after the history, same interpreter:', _fmt(after[-1] if after else None))
    print('depends on the history:', bool(alone and after and alone[0] != after[-1]))
    if ctx.model_available:
        print('model (any position of any session):', ctx.driver('tap', ['parse ' + C.lines_field(lines)])[0])
