"""C10 — dependencies resolve by the documented fallback policy, from verified sources.

(a) `DependencyFallbacksHolder.lookup` (real code, in-process, table-driven stubs for
    `find_external_dependency` / `do_subproject` / the wrap `[provide]` tables) on the cross product of
    circumstances and on lookup sequences <= 3, against (i) the Lean model `MesonModel.DepPolicy.lookup`
    (outcome, effects, world after) and (ii) the documented policy as a Python decision table
    (`c10_dep.Policy`) plus the three direct clauses (forced => system not consulted, nofallback =>
    nothing configured, repeated lookups agree).
(b) `wrap.Resolver.resolve` (real code, in-process) on local fixtures with every corruption class at each
    acquisition location and a fault at each step, against the Lean step machine
    `MesonModel.DepPolicy.Wrap.resolve` and the three wrap clauses evaluated on what really happened.
Thorough tier adds end-to-end `meson setup --backend=none` runs.

Readings of the documents where they are silent (kept identical in the Lean `policy`):
 R1  a fallback subproject that is already configured answers alone (found / not-found), the system is
     not consulted afterwards (comment in `_get_subproject_dep`; candidate order of `_get_candidates`);
 R2  with `allow_fallback` unset and an optional lookup a wrap `[provide]` entry is still the fallback
     when its subproject is already part of the build;
 R3  names are tried in order; for each, an override first, then a dependency cached from a previous run.
"""
from __future__ import annotations

import hashlib
import itertools
import json
import multiprocessing
import os
import subprocess
import sys
import typing as T

from . import common
from .common import Ctx
from . import c10_dep as D
from . import c10_wrap as WR

ID = 'C10'
LEVEL = 'proof'
LEAN_TARGETS = ['MesonModel.Props.C10']
AREAS = ['dep']
PINS = [
    'mesonbuild.interpreter.dependencyfallbacks:DependencyFallbacksHolder',
    'mesonbuild.wrap.wrap:Resolver._resolve',
    'mesonbuild.wrap.wrap:Resolver.resolve',
    'mesonbuild.wrap.wrap:Resolver.check_can_download',
    'mesonbuild.wrap.wrap:Resolver._get_file',
    'mesonbuild.wrap.wrap:Resolver._get_file_internal',
    'mesonbuild.wrap.wrap:Resolver._download',
    'mesonbuild.wrap.wrap:Resolver.get_data_with_backoff',
    'mesonbuild.wrap.wrap:Resolver.get_data',
    'mesonbuild.wrap.wrap:Resolver.check_hash',
    'mesonbuild.wrap.wrap:Resolver.hash_file',
    'mesonbuild.wrap.wrap:Resolver.apply_patch',
    'mesonbuild.wrap.wrap:Resolver.apply_diff_files',
    'mesonbuild.wrap.wrap:Resolver.copy_tree',
    'mesonbuild.wrap.wrap:Resolver.find_dep_provider',
    'mesonbuild.wrap.wrap:Resolver.get_varname',
    'mesonbuild.wrap:WrapMode',
]
TRUSTED = [
    'stubs of find_external_dependency / Interpreter.do_subproject / Resolver.find_dep_provider+get_varname in harness/c10_dep.py '
    '(the Lean world mirrors these stubs); end-to-end runs in the thorough tier exercise the real ones',
    'instrumented externals of wrap.py (urlopen, open-for-hash, os.rename, os.mkdir, shutil.unpack_archive, shutil.copy2, Popen_safe) '
    'in harness/c10_wrap.py; archive contents abstracted to (sha, unpacks, creates dir, has build file)',
    'version constraints are abstract in the theorems (any `sat`); the driver instantiates them with the C19 model',
    'domain: lower-case ASCII dependency names; wrap-file wraps only (git/hg/svn and real network not modelled); '
    'faults are exceptions (not process kills)',
]

NPROC = min(16, os.cpu_count() or 4)

# ------------------------------------------------------------------------------------------ (a) generators

D2 = ['d2', True, '2.0']
D1 = ['d1', True, '1.0']
DNF = ['dnf', False, 'undefined']
V2 = ['v2', True, '2.0']
V1 = ['v1', True, '1.0']
VU = ['vu', True, 'undefined']
VNF = ['vnf', False, 'undefined']
SUBC = [({'foo': D2}, {}), ({'foo': D1}, {}), ({'foo': DNF}, {}), ({}, {'foo_dep': V2}), ({}, {'foo_dep': V1}),
        ({}, {'foo_dep': VU}), ({}, {'foo_dep': VNF}), ({}, {'foo_dep': 'notdep'}), ({}, {})]
PRE = [({}, {}), ({'foo': [['o2', True, '2.0'], True]}, {}), ({'foo': [['o1', True, '1.0'], True]}, {}),
       ({'foo': [['onf', False, 'undefined'], True]}, {}), ({}, {'foo': ['sys:foo@1.0', True, '1.0']}),
       ({}, {'foo': ['sys:foo@2.0', True, '2.0']})]
FBK = ['none', 'x1', 'x2', 'empty', 'p0', 'pv', 'x1pv']
FB_OF = {'none': None, 'x1': ['foosub'], 'x2': ['foosub', 'foo_dep'], 'empty': [], 'p0': None, 'pv': None, 'x1pv': ['foosub']}
SYSV = [None, '1.0', '2.0']
SST = [('no', 'ok'), ('no', 'fail'), ('found', 'ok'), ('disabled', 'ok')]
FFF = [[], ['foo'], ['foosub']]
WANTED = [[], ['>=2.0']]


def cell(sysv, fbk, sst, sc, pre, wm, fff, wanted, req, allow) -> T.Optional[T.Tuple[dict, dict]]:
    w = {'wrap_mode': wm, 'fff': list(fff), 'overrides': json.loads(json.dumps(pre[0])), 'cache': dict(pre[1]),
         'system': {} if sysv is None else {'foo': sysv}, 'provides': {}, 'subprojects': {}}
    if fbk == 'p0':
        w['provides']['foo'] = ['foosub', None]
    if fbk in ('pv', 'x1pv'):
        w['provides']['foo'] = ['foosub', 'foo_dep']
    st, cf = sst
    w['subprojects']['foosub'] = {'state': st, 'configure': cf, 'overrides': dict(sc[0]), 'vars': dict(sc[1])}
    if st == 'found':
        if any(n in w['overrides'] for n in sc[0]):
            return None
        for n, d in sc[0].items():
            w['overrides'][n] = [d, True]
    r = {'names': ['foo'], 'wanted': list(wanted), 'required': req, 'allow_fallback': allow, 'fallback': FB_OF[fbk]}
    return w, r


DIMS = [SYSV, FBK, SST, SUBC, PRE, D.WRAP_MODES, FFF, WANTED, [True, False], [None, True, False]]


def n_cells() -> int:
    n = 1
    for d in DIMS:
        n *= len(d)
    return n


def cell_at(i: int):
    idx = []
    for d in reversed(DIMS):
        idx.append(d[i % len(d)])
        i //= len(d)
    return cell(*reversed(idx))


NAMES = ['foo', 'bar']
SPS = ['foosub', 'foo', 'barsub']
VERS = ['1.0', '2.0', 'undefined']


def rdep(rng, tag):
    f = rng.random() < 0.8
    v = rng.choice(VERS) if f else 'undefined'
    return [f'{tag}{rng.randint(0, 3)}@{v}' if f else f'{tag}nf{rng.randint(0, 1)}', f, v]


def rworld(rng) -> dict:
    w = {'wrap_mode': rng.choice(D.WRAP_MODES), 'fff': rng.choice([[], [], ['foo'], ['foosub'], ['bar', 'foo'], ['barsub']]),
         'overrides': {}, 'cache': {}, 'system': {}, 'provides': {}, 'subprojects': {}}
    for n in NAMES:
        if rng.random() < 0.4:
            w['system'][n] = rng.choice(VERS[:2])
        if rng.random() < 0.15:
            v = rng.choice(VERS[:2])
            w['cache'][n] = [f'sys:{n}@{v}', True, v]
        if rng.random() < 0.15:
            w['overrides'][n] = [rdep(rng, 'o'), rng.random() < 0.7]
        if rng.random() < 0.5:
            w['provides'][n] = [rng.choice(SPS), rng.choice([None, 'foo_dep', 'bar_dep'])]
    for sp in SPS:
        if rng.random() < 0.75:
            st = rng.choice(['no', 'no', 'found', 'disabled'])
            s = {'state': st, 'configure': rng.choice(['ok', 'ok', 'fail']), 'overrides': {}, 'vars': {}}
            for n in NAMES:
                if rng.random() < 0.35:
                    s['overrides'][n] = rdep(rng, 's' + sp[0])
            for v in ['foo_dep', 'bar_dep']:
                if rng.random() < 0.5:
                    s['vars'][v] = rdep(rng, 'v' + sp[0]) if rng.random() < 0.85 else 'notdep'
            if st == 'found':
                if any(n in w['overrides'] for n in s['overrides']):
                    s['overrides'] = {}
                for n, d in s['overrides'].items():
                    w['overrides'][n] = [d, True]
            w['subprojects'][sp] = s
    return w


def rreq(rng) -> dict:
    k = rng.random()
    if k < 0.6:
        names = [rng.choice(NAMES)]
    elif k < 0.9:
        names = rng.sample(NAMES, 2)
    else:   # malformed stream
        names = rng.choice([[], ['foo', 'foo'], ['fo=o'], [''], ['foo>1'], ['bar', '']])
    fb = rng.choice([None, None, None, ['foosub'], ['foosub', 'foo_dep'], ['foo'], ['barsub', 'bar_dep'], [], ['a', 'b', 'c'], ['nosuch']])
    return {'names': names, 'wanted': rng.choice([[], [], ['>=2.0'], ['<2.0'], ['>=1.0', '<2.0']]), 'required': rng.random() < 0.5,
            'allow_fallback': rng.choice([None, None, True, False]) if fb is None or rng.random() < 0.1 else None, 'fallback': fb}


def rseq(rng) -> T.Tuple[dict, T.List[dict]]:
    w = rworld(rng)
    reqs = [rreq(rng) for _ in range(rng.randint(1, 3))]
    if len(reqs) > 1 and rng.random() < 0.4:
        reqs[rng.randrange(1, len(reqs))] = dict(reqs[0])
    if len(reqs) == 3 and rng.random() < 0.2:
        reqs[2] = dict(reqs[0])
    return w, reqs


# ------------------------------------------------------------------------------------------ (a) evaluation

def designation(w: dict, r: dict) -> T.Tuple[bool, T.Optional[str]]:
    """(forced, fallback subproject) as the statement of C10 defines them — independent of code and model"""
    names = r['names']
    fb, allow = r['fallback'], r['allow_fallback']
    forced = w['wrap_mode'] == 'forcefallback' or any(n in w['fff'] for n in names)
    sp = None
    if fb:
        sp = fb[0] or None
        forced = forced or (sp in w['fff'])
    elif fb is None and allow is not False:
        for n in names:
            p = w['provides'].get(n)
            if p:
                forced = forced or p[0] in w['fff']
                if allow is True or r['required'] or forced or w['subprojects'].get(p[0], {}).get('state') == 'found':
                    sp = p[0]
                break
    return forced, sp


def eval_seq(item: T.Tuple[dict, T.List[dict]]) -> T.Tuple[str, T.List[T.Tuple[str, str, int]], T.List[str]]:
    """run one lookup sequence on the implementation; -> (canonical result, oracle hits, outcome tags)"""
    w, reqs = item
    s = D.Session(w)
    p = D.Policy(w)
    res, hits, tags, outs, pol = [], [], [], [], []
    for i, r in enumerate(reqs):
        wb = s.snapshot()
        out, eff = s.lookup(r)
        pout = p.decide(r)
        pol.append(D.canon_out(pout) + ('' if pout == 'error' else '~' + D.canon_world_enc(p.w)))
        cls = 'error' if out.startswith('error') else out
        outs.append(cls)
        tags.append(out.split(':')[0] if not out.startswith('error') else out)
        res.append(D.canon_out(out) + '~' + D.canon_effects(eff) + '~' + D.canon_world_enc(s.snapshot()))
        if cls != pout:
            hits.append(('policy', f'dependency() gave {out}, the documented policy prescribes {pout}', i))
        elif cls != 'error' and D.canon_world(s.snapshot()) != D.canon_world(p.w):
            hits.append(('policy-state', 'overrides/cache/subprojects after the lookup differ from what the policy prescribes', i))
        valid = not out.startswith('error:Inv') and len(set(r['names'])) == len(r['names']) and all(r['names'])
        if valid:
            forced, sp = designation(wb, r)
            if forced and sp and any(e.startswith('system:') for e in eff):
                hits.append(('forced-consults-system', 'fallback is forced but the system was consulted: ' + ','.join(eff), i))
            if forced and sp and out.startswith('found:sys:') and not any(r_n in wb['overrides'] for r_n in r['names']):
                hits.append(('forced-returns-system', 'fallback is forced but a system dependency was returned', i))
            if wb['wrap_mode'] == 'nofallback' and not forced and any(e.startswith('configure:') for e in eff):
                hits.append(('nofallback-configures', 'wrap_mode=nofallback but a subproject was configured: ' + ','.join(eff), i))
        for j in range(i):
            if reqs[j] == r:
                if outs[j].startswith('found:') and cls != outs[j]:
                    hits.append(('repeat-differs', f'same arguments returned {outs[j]} then {cls}', i))
                if j == i - 1 and cls != outs[j]:
                    hits.append(('repeat-differs', f'immediately repeated lookup returned {outs[j]} then {cls}', i))
        if cls == 'error':
            break
    return '#'.join(res), hits, tags, '#'.join(pol)


def eval_chunk(items):
    return [eval_seq(it) for it in items]


def pool_map(fn, items: list, chunk: int) -> list:
    chunks = [items[i:i + chunk] for i in range(0, len(items), chunk)]
    if len(chunks) <= 1:
        return [fn(c) for c in chunks]
    with multiprocessing.get_context('fork').Pool(NPROC) as pool:
        return pool.map(fn, chunks)


def vkey(cls: str, case: T.Any) -> str:
    return cls + ':' + hashlib.sha1(json.dumps(case, sort_keys=True, default=repr).encode()).hexdigest()[:12]


def run_dep(ctx: Ctx) -> None:
    rng = ctx.rng
    items: T.List[T.Tuple[dict, T.List[dict]]] = []
    total = n_cells()
    if ctx.tier == 'thorough':
        picks = range(total)
    else:   # quick; a changed pin (ctx.deep) widens the sample
        picks = sorted(rng.sample(range(total), 40000 if ctx.deep else 15000))
    for i in picks:
        c = cell_at(i)
        if c is None:
            continue
        w, r = c
        items.append((w, [r, dict(r)]))       # every cell is looked up twice (repeat clause)
    n_struct = len(items)
    for _ in range(250000 if ctx.tier == 'thorough' else ctx.scale(12000, 25000)):
        items.append(rseq(rng))
    results = [x for part in pool_map(eval_chunk, items, 2000) for x in part]
    ctx.count(sum(len(r[0].split('#')) for r in results))
    ctx.extra['dep_cells_total'] = total
    ctx.extra['dep_cells_run'] = n_struct
    ctx.extra['dep_sequences'] = len(items) - n_struct
    for (w, reqs), (canon, hits, tags, _pol) in zip(items, results):
        for t in tags:
            ctx.tag('dep:' + t)
        for cls, msg, i in hits:
            case = {'kind': 'dep', 'world': w, 'requests': reqs, 'at': i}
            ctx.violation(vkey(cls, case), f'{cls}: {msg}', case)
    if ctx.model_available:
        answers = ctx.driver('dep', [D.line_seq(w, reqs) for w, reqs in items])
        for (w, reqs), (canon, _h, tags, _pol), ans in zip(items, results, answers):
            if canon != ans:
                ctx.disagreement({'kind': 'dep', 'world': w, 'requests': reqs, 'impl': canon, 'model': ans})
            if tags and tags[0] != 'error:InvalidArguments':
                ctx.seen_nontrivial(('dep', ans))
        # the Lean decision table `policy` against the Python decision table, and against the Lean `lookup`
        # (the latter is theorem `lookup_eq_policy`; running it is only a test of the statement's reading)
        pol_answers = ctx.driver('dep', ['pol ' + D.line_seq(w, reqs)[4:] for w, reqs in items])
        for (w, reqs), (_c, _h, _t, pol), pans, ans in zip(items, results, pol_answers, answers):
            lean_pol = '#'.join(x if not x.startswith('error') else 'error' for x in pans.split('#'))
            if lean_pol != pol:
                ctx.disagreement({'kind': 'policy-table', 'world': w, 'requests': reqs, 'python_policy': pol, 'lean_policy': lean_pol})
            steps = []
            for x in ans.split('#'):
                o, _e, wd = x.split('~')
                steps.append('error' if o.startswith('error') else o + '~' + wd)
            if '#'.join(steps) != lean_pol:
                ctx.disagreement({'kind': 'lean-lookup-vs-lean-policy', 'world': w, 'requests': reqs,
                                  'lookup': '#'.join(steps), 'policy': lean_pol})
        ctx.extra['policy_table_cells_compared'] = len(items)
    for it in items[::max(1, len(items) // 4)][:4]:
        ctx.sample({'kind': 'dep', 'world': it[0], 'requests': it[1]})


# ------------------------------------------------------------------------------------------ (b) generators

S_IDS = [1, 2, 3, 4, 5]
P_IDS = [11, 12, 13]
LABELS = ['hash.s', 'hash.p', 'rename.s', 'rename.p', 'mkdir', 'pre.s', 'pre.p', 'post.s', 'post.p', 'unpack2', 'copytree',
          'cachedcopy', 'diff.0', 'diff.1'] + [f'fetch.{w}.{fb}.{i}' for w in 'sp' for fb in (0, 1) for i in (0, 5)]


def base_case() -> dict:
    """good wrap: source from packagefiles without build file? no: source 1 via packagefiles, no patch"""
    return {'cfg': {'nodownload': False, 'source': {'filename': True, 'url': False, 'fallback_url': False, 'hash': 1},
                    'patch': None, 'patch_directory': False, 'lead': False},
            'env': {'dir': None, 'cached_dir': None,
                    'source': {'cache': None, 'pkg': 1, 'url': 'W', 'fallback_url': 'W'},
                    'patch': {'cache': None, 'pkg': None, 'url': 'W', 'fallback_url': 'W'},
                    'patch_dir': None, 'diffs': []},
            'faults': {}}


def place(case: dict, what: str, loc: str, cid: int, rec) -> dict:
    """put content `cid` at acquisition location `loc` for `what`, with recorded hash `rec`"""
    c = json.loads(json.dumps(case))
    good = 1 if what == 'source' else 11
    fc = {'filename': True, 'url': loc != 'pkg', 'fallback_url': loc in ('fb-after-fail', 'fb-after-badhash'), 'hash': rec}
    fe = {'cache': None, 'pkg': None, 'url': 'W', 'fallback_url': 'W'}
    if loc == 'pkg':
        fe['pkg'] = cid
    elif loc == 'cache':
        fe['cache'] = cid
        fe['url'] = good
    elif loc == 'url':
        fe['url'] = cid
    elif loc == 'fb-after-fail':
        fe['url'] = 'W'
        fe['fallback_url'] = cid
    elif loc == 'fb-after-badhash':
        fe['url'] = 2 if what == 'source' else 12
        fe['fallback_url'] = cid
    c['cfg'][what] = fc
    c['env'][what] = fe
    return c


def structured_wrap_cases(ctx: Ctx) -> T.List[dict]:
    out = []
    locs = ['pkg', 'cache', 'url', 'fb-after-fail', 'fb-after-badhash']
    for what, ids in (('source', S_IDS), ('patch', P_IDS)):
        good = ids[0]
        for loc in locs:
            for cid in ids:
                for rec in (good, 'bogus', None):
                    base = base_case()
                    if what == 'patch':
                        base['env']['source']['pkg'] = 2      # source without build file: the patch brings it
                        base['cfg']['source']['hash'] = 2
                        base['env']['diffs'] = [[True, True]]
                    c0 = place(base, what, loc, cid, rec)
                    variants = [({}, False)]
                    labs = list(enumerate(LABELS)) if ctx.tier == 'thorough' else ctx.rng.sample(list(enumerate(LABELS)), 10 if ctx.deep else 6)
                    for k, lab in labs:
                        variants.append(({lab: 'os' if k % 2 == 0 else 'other'}, False))
                        if ctx.tier == 'thorough':
                            variants.append(({lab: 'other' if k % 2 == 0 else 'os'}, False))
                    variants.append(({}, True))
                    for faults, nd in variants:
                        c = json.loads(json.dumps(c0))
                        c['faults'] = faults
                        c['cfg']['nodownload'] = nd
                        out.append(c)
    # patch / diff failures after a good unpack, with and without a build file in the source
    for src in (1, 2):
        for diffs in ([[True, False]], [[False, True]], [[True, True], [True, False]], [[True, True]]):
            for pd in (None, 'build', 'nobuild'):
                for lab in [None, 'diff.0', 'diff.1', 'copytree']:
                    c = base_case()
                    c['env']['source']['pkg'] = src
                    c['cfg']['source']['hash'] = src
                    c['env']['diffs'] = diffs
                    c['cfg']['patch_directory'] = pd is not None
                    c['env']['patch_dir'] = pd
                    if lab:
                        c['faults'] = {lab: 'other'}
                    out.append(c)
    return out


def rcase(rng) -> dict:
    lead = rng.random() < 0.15

    def fc(what):
        url = rng.random() < 0.6
        ids = S_IDS if what == 'source' else P_IDS
        return {'filename': rng.random() < 0.95, 'url': url, 'fallback_url': url and rng.random() < 0.5,
                'hash': rng.choice(ids + [ids[0]] * 4 + ['bogus', None])}

    def fe(what):
        ids = S_IDS if what == 'source' else P_IDS

        def pick():
            return rng.choice(ids + [ids[0]] * 4)
        return {'cache': pick() if rng.random() < 0.3 else None, 'pkg': pick() if rng.random() < 0.7 else None,
                'url': rng.choice(['W', 'O']) if rng.random() < 0.25 else pick(),
                'fallback_url': rng.choice(['W', 'O']) if rng.random() < 0.25 else pick()}
    cfg = {'nodownload': rng.random() < 0.2, 'source': fc('source'), 'patch': fc('patch') if rng.random() < 0.5 else None,
           'patch_directory': rng.random() < 0.15, 'lead': lead}
    env = {'dir': rng.choice([None] * 8 + ['file', 'empty', 'build']), 'cached_dir': rng.choice([None] * 8 + ['build', 'nobuild']),
           'source': fe('source'), 'patch': fe('patch'), 'patch_dir': rng.choice([None, 'build', 'nobuild']),
           'diffs': [[rng.random() < 0.9, rng.random() < 0.7] for _ in range(rng.choice([0, 0, 0, 1, 2]))]}
    labels = LABELS + [f'fetch.{w}.{fb}.{i}' for w in 'sp' for fb in (0, 1) for i in range(1, 5)]
    faults = {}
    for _ in range(rng.choice([0, 0, 1, 1, 2, 8])):
        faults[rng.choice(labels)] = rng.choice(['os', 'other'])
    return {'cfg': cfg, 'env': env, 'faults': faults}


def wrap_chunk(cases):
    return [WR.run_case(c) for c in cases]


def run_wrap(ctx: Ctx) -> None:
    rng = ctx.rng
    cases = structured_wrap_cases(ctx)
    n_struct = len(cases)
    cases += [rcase(rng) for _ in range(20000 if ctx.tier == 'thorough' else ctx.scale(700, 1500))]
    results = [x for part in pool_map(wrap_chunk, cases, 60) for x in part]
    ctx.count(len(cases))
    ctx.extra['wrap_cases_structured'] = n_struct
    ctx.extra['wrap_cases_random'] = len(cases) - n_struct
    for c, (canon, hits) in zip(cases, results):
        ctx.tag('wrap:' + canon.split(';')[0])
        if 'rmtree' in canon:
            ctx.tag('wrap:failed-patch-cleanup')
        if 'used.' in canon:
            ctx.tag('wrap:archive-unpacked')
        for cls, msg in hits:
            case = {'kind': 'wrap', 'case': c}
            ctx.violation(vkey(cls, case), f'{cls}: {msg}', case)
    if ctx.model_available:
        answers = ctx.driver('dep', [WR.line_wrap(c) for c in cases])
        for c, (canon, _h), ans in zip(cases, results, answers):
            if canon != ans:
                ctx.disagreement({'kind': 'wrap', 'case': c, 'impl': canon, 'model': ans})
            ctx.seen_nontrivial(('wrap', ans, json.dumps(c['cfg'], sort_keys=True)))
    for c in cases[::max(1, len(cases) // 3)][:3]:
        ctx.sample({'kind': 'wrap', 'case': c})


# ------------------------------------------------------------------------------------------ end-to-end (thorough)

def e2e_project(root: str, sysver: T.Optional[str], call: str, sub_version: str = '3.0') -> T.Dict[str, str]:
    os.makedirs(os.path.join(root, 'pc'))
    os.makedirs(os.path.join(root, 'src', 'subprojects', 'foosub'))
    if sysver:
        with open(os.path.join(root, 'pc', 'foo.pc'), 'w') as f:
            f.write(f'Name: foo\nDescription: foo\nVersion: {sysver}\nLibs: -lfoo\nCflags:\n')
    with open(os.path.join(root, 'src', 'meson.build'), 'w') as f:
        f.write("project('main', 'c')\n"
                f"d = {call}\n"
                "message('RESULT found=@0@ type=@1@ version=@2@'.format(d.found(), d.type_name(), d.found() ? d.version() : '-'))\n"
                f"e = {call}\n"
                "message('REPEAT same=@0@'.format(d.found() == e.found() and d.type_name() == e.type_name()))\n")
    with open(os.path.join(root, 'src', 'subprojects', 'foosub', 'meson.build'), 'w') as f:
        f.write(f"project('foosub', 'c', version: '{sub_version}')\nfoo_dep = declare_dependency(version: '{sub_version}')\n"
                "meson.override_dependency('foo', foo_dep)\n")
    with open(os.path.join(root, 'src', 'subprojects', 'foosub.wrap'), 'w') as f:
        f.write('[wrap-file]\ndirectory = foosub\n\n[provide]\ndependency_names = foo\n')
    return {'PKG_CONFIG_LIBDIR': os.path.join(root, 'pc'), 'PKG_CONFIG_PATH': ''}


def run_e2e(ctx: Ctx) -> None:
    """a few real `meson setup --backend=none` runs: real pkg-config, real subproject, real wrap [provide]"""
    grid = []
    for sysver in (None, '1.0', '2.0'):
        for wm in ('default', 'nofallback', 'forcefallback'):
            for call, fbkind in (("dependency('foo', required: false)", 'implicit-optional'),
                                 ("dependency('foo', required: false, allow_fallback: true)", 'implicit-allowed'),
                                 ("dependency('foo', version: '>=2.0', required: false, fallback: 'foosub')", 'explicit'),
                                 ("dependency('foo', required: false, allow_fallback: false)", 'none'),
                                 # with a detection method: the subproject's override must still be found (fixed cc19239)
                                 ("dependency('foo', method: 'pkg-config', required: false, allow_fallback: true)", 'implicit-allowed')):
            # CMAKE is pointed at a missing binary below: with --backend=none the cmake detection method raises
            # MesonBugException (no CMake generator for that backend), which is outside C10
                grid.append((sysver, wm, call, fbkind))
    for sysver, wm, call, fbkind in grid:
        root = common.scratch_dir('mverif-c10e-')
        try:
            env = dict(os.environ)
            env.update(e2e_project(root, sysver, call))
            env['PYTHONPATH'] = common.REPO
            env['CMAKE'] = os.path.join(root, 'no-cmake-here')
            p = subprocess.run([sys.executable, os.path.join(common.REPO, 'meson.py'), 'setup', '--backend=none',
                                f'--wrap-mode={wm}', os.path.join(root, 'b'), os.path.join(root, 'src')],
                               env=env, stdout=subprocess.PIPE, stderr=subprocess.STDOUT, text=True, timeout=300)
            out = p.stdout
            got = None
            for line in out.splitlines():
                if 'RESULT found=' in line:
                    got = line.split('RESULT ')[1].strip()
            want_ver = '>=2.0' in call
            sys_ok = sysver is not None and (not want_ver or sysver == '2.0')
            forced = wm == 'forcefallback'
            designated = fbkind in ('implicit-allowed', 'explicit') or (fbkind == 'implicit-optional' and forced)
            if designated and forced:
                exp = 'found=true type=internal version=3.0'
            elif sys_ok:
                exp = f'found=true type=pkgconfig version={sysver}'
            elif designated and wm != 'nofallback':
                exp = 'found=true type=internal version=3.0'
            else:
                exp = 'found=false type=not-found version=-'
            ctx.count()
            ctx.tag('e2e:' + exp.split(' ')[1])
            case = {'kind': 'e2e', 'system': sysver, 'wrap_mode': wm, 'call': call}
            if p.returncode != 0 or got is None:
                ctx.violation(vkey('e2e-error', case), f'meson setup failed (rc={p.returncode}) for an optional lookup: {out[-300:]}', case)
            elif got != exp:
                ctx.violation(vkey('e2e-policy', case), f'end-to-end: got "{got}", documented policy prescribes "{exp}"', case)
            elif 'REPEAT same=true' not in out:
                ctx.violation(vkey('e2e-repeat', case), 'end-to-end: repeated lookup differs', case)
        finally:
            common.rmtree(root)


def witness_method_kwarg(ctx: Ctx) -> None:
    """`dependency('foo', method: 'pkg-config')` after `meson.override_dependency('foo', d)`: the override must win
    (dependency.yaml: "returned unconditionally"). Real holder, stubbed world, the `method` keyword passed through."""
    from mesonbuild.dependencies.base import DependencyMethods
    w = {'wrap_mode': 'default', 'fff': [], 'overrides': {'foo': [['ov', True, '1.0'], True]}, 'cache': {}, 'system': {},
         'provides': {}, 'subprojects': {}}
    s = D.Session(w)
    I = D._Impl
    saved = I.dependencies.find_external_dependency
    I.dependencies.find_external_dependency = s.find_external_dependency
    try:
        df = I.DF.DependencyFallbacksHolder(s.interp, ['foo'], s.HOST, None, None)
        d = df.lookup({'native': s.HOST, 'version': [], 'required': False, 'method': DependencyMethods.PKGCONFIG})
    finally:
        I.dependencies.find_external_dependency = saved
    ctx.count()
    got = 'found:' + getattr(d, 'ident', '?') if d.found() else 'notfound'
    if got != 'found:ov':
        ctx.violation('override-ignored-with-method-kwarg',
                      f"dependency('foo', method: 'pkg-config', required: false) returned {got} although 'foo' is overridden "
                      "(get_dep_identifier keys the override on the method keyword)",
                      {'kind': 'witness', 'world': w, 'call': "dependency('foo', method: 'pkg-config', required: false)"})
    # write side: the result of a lookup with a method keyword is what later lookups of the name return,
    # and meson.override_dependency() afterwards sees the name as resolved
    w2 = {'wrap_mode': 'default', 'fff': [], 'overrides': {}, 'cache': {}, 'system': {'foo': '1.0'}, 'provides': {}, 'subprojects': {}}
    s2 = D.Session(w2)
    I.dependencies.find_external_dependency = s2.find_external_dependency
    try:
        df = I.DF.DependencyFallbacksHolder(s2.interp, ['foo'], s2.HOST, None, None)
        d1 = df.lookup({'native': s2.HOST, 'version': [], 'required': False, 'method': DependencyMethods.PKGCONFIG})
    finally:
        I.dependencies.find_external_dependency = saved
    ctx.count()
    if d1.found() and s2._ident('foo') not in s2.build.dependency_overrides[s2.HOST]:
        ctx.violation('implicit-override-keyed-on-method',
                      "after dependency('foo', method: 'pkg-config') succeeded, 'foo' is not recorded as resolved for lookups and "
                      "override_dependency() without that keyword",
                      {'kind': 'witness', 'world': w2, 'call': "dependency('foo', method: 'pkg-config', required: false)"})


# ------------------------------------------------------------------------------------------ entry points

def run(ctx: Ctx) -> None:
    ctx.rule = ('(a) every cell of the single-name cross product system{absent,1.0,2.0} x fallback{none,explicit,explicit+var,[],provide,'
                'provide+var,explicit+provide} x subproject{unconfigured ok/failing, configured, disabled} x 9 subproject contents x '
                '6 prior override/cache states x 5 wrap modes x 3 force_fallback_for x 2 constraints x required x allow_fallback, each looked up '
                'twice (quick: 15000 sampled cells of 816480; thorough/pin change: all), plus random worlds with two names and sequences <= 3 incl. '
                'malformed arguments; (b) every corruption class {good, other valid archive, garbage, wrong top directory} x location '
                '{packagefiles, cache, URL, fallback URL after failure, fallback URL after bad hash} x recorded hash {good, bogus, none} x '
                '(no fault | one fault at each of 22 fault points (quick: 6 sampled) | nodownload), for source and patch, plus random cases with up to 8 faults. '
                'Non-trivial = distinct model answers (outcome+effects+state), excluding argument errors.')
    witness_method_kwarg(ctx)
    run_dep(ctx)
    run_wrap(ctx)
    if ctx.tier == 'thorough':
        run_e2e(ctx)
    ctx.assumptions += TRUSTED


def search(ctx: Ctx, disagreements: T.List[dict]) -> None:
    """failing-input search around the cases on which model and implementation differ"""
    rng = ctx.rng
    items = []
    wraps = []
    for d in disagreements[:20]:
        if d.get('kind') == 'dep':
            w, reqs = d['world'], d['requests']
            for wm in D.WRAP_MODES:
                for fff in FFF:
                    for req in (True, False):
                        w2 = json.loads(json.dumps(w))
                        w2['wrap_mode'], w2['fff'] = wm, fff
                        rs = [dict(r, required=req) for r in reqs]
                        items.append((w2, (rs + rs)[:4]))
        elif d.get('kind') == 'wrap':
            c = d['case']
            wraps.append(c)
            for lab in LABELS:
                c2 = json.loads(json.dumps(c))
                c2['faults'] = {lab: 'other'}
                wraps.append(c2)
            c3 = json.loads(json.dumps(c))
            c3['cfg']['nodownload'] = True
            wraps.append(c3)
    for _ in range(20000 if not disagreements else 5000):
        items.append(rseq(rng))
    for (w, reqs), (_c, hits, _t, _p) in zip(items, [x for part in pool_map(eval_chunk, items, 1000) for x in part]):
        for cls, msg, i in hits:
            case = {'kind': 'dep', 'world': w, 'requests': reqs, 'at': i}
            ctx.violation(vkey(cls, case), f'{cls}: {msg}', case)
    wraps += [rcase(rng) for _ in range(600)]
    for c, (_canon, hits) in zip(wraps, [x for part in pool_map(wrap_chunk, wraps, 40) for x in part]):
        for cls, msg in hits:
            case = {'kind': 'wrap', 'case': c}
            ctx.violation(vkey(cls, case), f'{cls}: {msg}', case)


def replay(ctx: Ctx, rep: dict) -> None:
    case = rep.get('case') or (rep.get('correspondence_disagreements') or [{}])[0]
    print('replay', rep.get('what', ''), json.dumps(case)[:2000])
    if case.get('kind') == 'dep':
        canon, hits, tags, _pol = eval_seq((case['world'], case['requests']))
        print('impl  :', canon)
        print('oracle:', hits or 'ok')
        if ctx.model_available:
            print('model :', ctx.driver('dep', [D.line_seq(case['world'], case['requests'])])[0])
        for cls, msg, i in hits:
            ctx.violation(vkey(cls, {'kind': 'dep', 'world': case['world'], 'requests': case['requests'], 'at': i}), f'{cls}: {msg}', case)
    elif case.get('kind') == 'wrap':
        canon, hits = WR.run_case(case['case'])
        print('impl  :', canon)
        print('oracle:', hits or 'ok')
        if ctx.model_available:
            print('model :', ctx.driver('dep', [WR.line_wrap(case['case'])])[0])
        for cls, msg in hits:
            ctx.violation(vkey(cls, case), f'{cls}: {msg}', case)
